#!/usr/bin/env python3
"""Regenerate the generated tables of DESIGN.md section 0 (between GEN markers):
 checks   - from `bin/symgo list` (the registry) and /verif/evidence/*.json
 findings - from known_findings.json
 mutants  - from seeded/*/meta.json and seeded/RESULTS.json
Hand-written text is left untouched."""
import json, os, re, subprocess, glob

V = "/verif"


def esc(s):
    return str(s).replace("|", "\\|").replace("\n", " ")


def checks():
    reg = json.loads(subprocess.run([f"{V}/bin/symgo", "list"], capture_output=True, text=True, check=True).stdout)
    out = ["| id | harness entry points, quick (thorough adds) | paths / assertions / wall of the last quick run | outside the bound |", "|---|---|---|---|"]
    for p in reg:
        q = [r["Fn"] for r in p["Runs"] if "q" in r["Tiers"]]
        t = [r["Fn"] for r in p["Runs"] if "q" not in r["Tiers"]]
        ev = {}
        try:
            ev = json.load(open(f"{V}/evidence/{p['ID']}.json"))
        except Exception:
            pass
        cov = ev.get("coverage", {})
        m = f"{cov.get('states','?')} / {cov.get('assertions_discharged','?')} / {ev.get('wall_s','?')} s ({ev.get('tier','?')})"
        ent = ", ".join(f"`{x}`" for x in q)
        if t:
            ent += " (T: " + ", ".join(f"`{x}`" for x in t) + ")"
        out.append(f"| {p['ID']} | {ent} | {m} | {esc(p.get('Outside',''))} |")
    out.append("")
    out.append("Bounds per harness entry point (the `Bound` strings of `symgo/registry.go`, also written to each evidence file):")
    out.append("")
    for p in reg:
        for r in p["Runs"]:
            flags = []
            if r["NoNative"]:
                flags.append("counterexamples confirmed by re-execution in the executor")
            if r["Sched"]:
                flags.append("schedule-dependent")
            if r["NoWitness"]:
                flags.append("no native witness replay")
            f = f" *[{'; '.join(flags)}]*" if flags else ""
            out.append(f"* {p['ID']} `{r['Fn']}` ({'quick+thorough' if 'q' in r['Tiers'] else 'thorough'}): {r['Bound']}{f}")
    return "\n".join(out)


def findings():
    k = json.load(open(f"{V}/known_findings.json"))["findings"]
    out = ["| property | status | commit | assertion label | what |", "|---|---|---|---|---|"]
    for f in k:
        out.append(f"| {f['property']} | {f['status']} | {('`'+f['commit']+'`') if f.get('commit') else '–'} | `{f['label']}` | {esc(f['what'])} |")
    return "\n".join(out)


def mutants():
    res = {}
    try:
        res = json.load(open(f"{V}/seeded/RESULTS.json"))
    except Exception:
        pass
    out = ["| change | breaks | files | needs, in order to manifest | caught by (tier, assertion labels) |", "|---|---|---|---|---|"]
    names = sorted(os.path.basename(os.path.dirname(p)) for p in glob.glob(f"{V}/seeded/*/meta.json"))
    n_c = 0
    for n in names:
        m = json.load(open(f"{V}/seeded/{n}/meta.json"))
        r = res.get(n, {})
        by = []
        for run in r.get("runs", []):
            if run.get("caught"):
                by.append(f"{run['check']} {run['tier']}: " + ", ".join(f"`{l}`" for l in run.get("labels", [])[:3]))
        if r.get("caught"):
            n_c += 1
        status = "; ".join(by) if by else ("**missed**" if r else "not run")
        if m.get("miss_note"):
            status += " — " + m["miss_note"]
        out.append(f"| {n} | {m['property']} | {', '.join(m.get('patched_files', []))} | {esc(m.get('needs_to_manifest',''))} | {status} |")
    out.append("")
    out.append(f"{n_c} of {len(names)} kept changes are reported by a registered check.")
    return "\n".join(out)


def main():
    p = f"{V}/DESIGN.md"
    s = open(p).read()
    for name, fn in (("checks", checks), ("findings", findings), ("mutants", mutants)):
        b, e = f"<!-- GEN:{name}-begin -->", f"<!-- GEN:{name}-end -->"
        if b in s and e in s:
            i, j = s.index(b) + len(b), s.index(e)
            s = s[:i] + "\n" + fn() + "\n" + s[j:]
    open(p, "w").write(s)


if __name__ == "__main__":
    main()
