package main

// Hash-consed SMT terms over (_ BitVec n) and Bool with constant folding.
// A Term that is a value of the interpreter is never a constant: constant
// results are unboxed into native Go values by the callers (see sym.go).

import (
	"fmt"
	"math/bits"
	"strings"
)

type Op uint8

const (
	OpConst Op = iota
	OpVar
	OpAdd
	OpSub
	OpMul
	OpUDiv
	OpSDiv
	OpURem
	OpSRem
	OpAnd
	OpOr
	OpXor
	OpNot
	OpNeg
	OpShl
	OpLShr
	OpAShr
	OpConcat
	OpExtract
	OpZExt
	OpSExt
	OpIte
	// Bool-valued
	OpEq
	OpUlt
	OpUle
	OpSlt
	OpSle
	OpBAnd
	OpBOr
	OpBNot
)

var opNames = [...]string{
	OpAdd: "bvadd", OpSub: "bvsub", OpMul: "bvmul", OpUDiv: "bvudiv", OpSDiv: "bvsdiv",
	OpURem: "bvurem", OpSRem: "bvsrem", OpAnd: "bvand", OpOr: "bvor", OpXor: "bvxor",
	OpNot: "bvnot", OpNeg: "bvneg", OpShl: "bvshl", OpLShr: "bvlshr", OpAShr: "bvashr",
	OpConcat: "concat", OpIte: "ite", OpEq: "=", OpUlt: "bvult", OpUle: "bvule",
	OpSlt: "bvslt", OpSle: "bvsle", OpBAnd: "and", OpBOr: "or", OpBNot: "not",
}

// Term is an SMT term. W==0 means sort Bool (constants: Val 0/1).
type Term struct {
	Op      Op
	W       int // bit width; 0 = Bool
	A, B, C *Term
	Val     uint64 // OpConst value; OpExtract: hi<<8|lo
	Name    string // OpVar
	id      int
}

type termKey struct {
	op      Op
	w       int
	a, b, c *Term
	val     uint64
	name    string
}

// TermTable hash-conses terms for one path execution.
type TermTable struct {
	tab   map[termKey]*Term
	next  int
	vars  []*Term
	fresh map[string]int
	linCache map[*Term]lin
}

func newTermTable() *TermTable {
	return &TermTable{tab: make(map[termKey]*Term), fresh: make(map[string]int)}
}

func (tt *TermTable) mk(op Op, w int, a, b, c *Term, val uint64, name string) *Term {
	k := termKey{op, w, a, b, c, val, name}
	if t, ok := tt.tab[k]; ok {
		return t
	}
	tt.next++
	t := &Term{Op: op, W: w, A: a, B: b, C: c, Val: val, Name: name, id: tt.next}
	tt.tab[k] = t
	if op == OpVar {
		tt.vars = append(tt.vars, t)
	}
	return t
}

func mask(w int) uint64 {
	if w >= 64 {
		return ^uint64(0)
	}
	return (uint64(1) << uint(w)) - 1
}

func (tt *TermTable) Const(w int, v uint64) *Term {
	if w == 0 {
		v &= 1
	} else {
		v &= mask(w)
	}
	return tt.mk(OpConst, w, nil, nil, nil, v, "")
}
func (tt *TermTable) Bool(b bool) *Term {
	if b {
		return tt.Const(0, 1)
	}
	return tt.Const(0, 0)
}

// Var returns the variable with exactly this name (same name = same var).
func (tt *TermTable) Var(w int, name string) *Term {
	return tt.mk(OpVar, w, nil, nil, nil, 0, name)
}

// Fresh returns a new variable whose name is prefix#k, k counting per prefix,
// so that re-executions of the same path produce the same names.
func (tt *TermTable) Fresh(w int, prefix string) *Term {
	k := tt.fresh[prefix]
	tt.fresh[prefix] = k + 1
	return tt.Var(w, fmt.Sprintf("%s#%d", prefix, k))
}

func (t *Term) IsConst() bool { return t.Op == OpConst }
func (t *Term) IsTrue() bool  { return t.Op == OpConst && t.W == 0 && t.Val == 1 }
func (t *Term) IsFalse() bool { return t.Op == OpConst && t.W == 0 && t.Val == 0 }

func sx(v uint64, w int) int64 {
	if w >= 64 {
		return int64(v)
	}
	sh := uint(64 - w)
	return int64(v<<sh) >> sh
}

// Bin builds a binary bit-vector operation with folding.
func (tt *TermTable) Bin(op Op, a, b *Term) *Term {
	w := a.W
	if a.W != b.W {
		panic(fmt.Sprintf("term width mismatch %s: %d vs %d", opNames[op], a.W, b.W))
	}
	if a.IsConst() && b.IsConst() {
		x, y := a.Val, b.Val
		var r uint64
		switch op {
		case OpAdd:
			r = x + y
		case OpSub:
			r = x - y
		case OpMul:
			r = x * y
		case OpUDiv:
			if y == 0 {
				r = mask(w)
			} else {
				r = x / y
			}
		case OpURem:
			if y == 0 {
				r = x
			} else {
				r = x % y
			}
		case OpSDiv:
			sa, sb := sx(x, w), sx(y, w)
			if sb == 0 {
				if sa < 0 {
					r = 1
				} else {
					r = mask(w)
				}
			} else if sb == -1 {
				r = uint64(-sa)
			} else {
				r = uint64(sa / sb)
			}
		case OpSRem:
			sa, sb := sx(x, w), sx(y, w)
			if sb == 0 {
				r = x
			} else if sb == -1 {
				r = 0
			} else {
				r = uint64(sa % sb)
			}
		case OpAnd:
			r = x & y
		case OpOr:
			r = x | y
		case OpXor:
			r = x ^ y
		case OpShl:
			if y >= uint64(w) {
				r = 0
			} else {
				r = x << y
			}
		case OpLShr:
			if y >= uint64(w) {
				r = 0
			} else {
				r = x >> y
			}
		case OpAShr:
			s := sx(x, w)
			if y >= uint64(w) {
				if s < 0 {
					r = mask(w)
				} else {
					r = 0
				}
			} else {
				r = uint64(s >> y)
			}
		default:
			panic("Bin: bad op")
		}
		return tt.Const(w, r)
	}
	// algebraic simplifications
	if (op == OpAdd || op == OpSub) && w > 1 {
		la := tt.linOf(a)
		lb := tt.linOf(b)
		if op == OpSub {
			lb = lb.neg()
		}
		return tt.fromLin(w, la.plus(lb))
	}
	switch op {
	case OpAdd:
		if a.IsConst() && a.Val == 0 {
			return b
		}
		if b.IsConst() && b.Val == 0 {
			return a
		}
		if a.IsConst() { // canonical: const on the right
			a, b = b, a
		}
		// (x + c1) + c2
		if b.IsConst() && a.Op == OpAdd && a.B.IsConst() {
			return tt.Bin(OpAdd, a.A, tt.Const(w, a.B.Val+b.Val))
		}
	case OpSub:
		if b.IsConst() && b.Val == 0 {
			return a
		}
		if a == b {
			return tt.Const(w, 0)
		}
		if b.IsConst() {
			return tt.Bin(OpAdd, a, tt.Const(w, -b.Val))
		}
	case OpMul:
		if a.IsConst() {
			a, b = b, a
		}
		if b.IsConst() {
			if b.Val == 0 {
				return b
			}
			if b.Val == 1 {
				return a
			}
		}
	case OpUDiv, OpSDiv:
		if b.IsConst() && b.Val == 1 {
			return a
		}
	case OpAnd:
		if a.IsConst() {
			a, b = b, a
		}
		if b.IsConst() {
			if b.Val == 0 {
				return b
			}
			if b.Val == mask(w) {
				return a
			}
			if r := tt.maskPieces(a, b.Val); r != nil {
				return r
			}
		}
		if a == b {
			return a
		}
	case OpOr:
		if a.IsConst() {
			a, b = b, a
		}
		if b.IsConst() {
			if b.Val == 0 {
				return a
			}
			if b.Val == mask(w) {
				return b
			}
		}
		if a == b {
			return a
		}
		if r := tt.orPieces(a, b); r != nil {
			return r
		}
	case OpXor:
		if a.IsConst() {
			a, b = b, a
		}
		if b.IsConst() && b.Val == 0 {
			return a
		}
		if a == b {
			return tt.Const(w, 0)
		}
	case OpShl:
		if b.IsConst() {
			if b.Val == 0 {
				return a
			}
			if b.Val >= uint64(w) {
				return tt.Const(w, 0)
			}
			// shl by constant c = concat(extract(w-c-1,0,a), 0_c)
			c := int(b.Val)
			return tt.Concat(tt.Extract(a, w-c-1, 0), tt.Const(c, 0))
		}
	case OpLShr:
		if b.IsConst() {
			if b.Val == 0 {
				return a
			}
			if b.Val >= uint64(w) {
				return tt.Const(w, 0)
			}
			c := int(b.Val)
			return tt.Concat(tt.Const(c, 0), tt.Extract(a, w-1, c))
		}
	case OpAShr:
		if b.IsConst() {
			if b.Val == 0 {
				return a
			}
		}
	}
	return tt.mk(op, w, a, b, nil, 0, "")
}

// pieces decomposes t (most significant first) into concat pieces.
func pieces(t *Term, out []*Term) []*Term {
	if t.Op == OpConcat {
		out = pieces(t.A, out)
		return pieces(t.B, out)
	}
	return append(out, t)
}

// splitAt returns the pieces list of t refined so that it has a boundary at
// every bit position in cuts (positions counted from the LSB, 0<p<W).
func (tt *TermTable) splitPieces(ps []*Term, cuts map[int]bool) []*Term {
	var out []*Term
	total := 0
	for _, p := range ps {
		total += p.W
	}
	pos := total // bit position of the top of current piece
	for _, p := range ps {
		lo := pos - p.W
		// cuts strictly inside (lo,pos)
		hi := pos
		for c := pos - 1; c > lo; c-- {
			if cuts[c] {
				out = append(out, tt.Extract(p, hi-lo-1, c-lo))
				hi = c
			}
		}
		out = append(out, tt.Extract(p, hi-lo-1, 0))
		pos = lo
	}
	return out
}

func boundaries(ps []*Term) (map[int]bool, int) {
	total := 0
	for _, p := range ps {
		total += p.W
	}
	m := make(map[int]bool)
	pos := total
	for _, p := range ps {
		pos -= p.W
		if pos > 0 {
			m[pos] = true
		}
	}
	return m, total
}

func isZeroConst(t *Term) bool { return t.Op == OpConst && t.Val == 0 }

// orPieces simplifies a|b when both are concatenations in which, piecewise,
// one side is zero (the byte-reassembly pattern of encoding/binary).
func (tt *TermTable) orPieces(a, b *Term) *Term {
	if a.Op != OpConcat && b.Op != OpConcat {
		return nil
	}
	pa, pb := pieces(a, nil), pieces(b, nil)
	hasZero := false
	for _, p := range pa {
		if isZeroConst(p) {
			hasZero = true
		}
	}
	for _, p := range pb {
		if isZeroConst(p) {
			hasZero = true
		}
	}
	if !hasZero {
		return nil
	}
	ca, _ := boundaries(pa)
	cb, _ := boundaries(pb)
	for k := range cb {
		ca[k] = true
	}
	pa = tt.splitPieces(pa, ca)
	pb = tt.splitPieces(pb, ca)
	if len(pa) != len(pb) {
		return nil
	}
	var res *Term
	for i := range pa {
		var p *Term
		switch {
		case isZeroConst(pa[i]):
			p = pb[i]
		case isZeroConst(pb[i]):
			p = pa[i]
		case pa[i].IsConst() && pb[i].IsConst():
			p = tt.Const(pa[i].W, pa[i].Val|pb[i].Val)
		default:
			return nil
		}
		if res == nil {
			res = p
		} else {
			res = tt.Concat(res, p)
		}
	}
	return res
}

// maskPieces simplifies a & m for a constant mask made of one contiguous run
// of ones (0x00ff00 patterns): zero pieces outside, extract inside.
func (tt *TermTable) maskPieces(a *Term, m uint64) *Term {
	w := a.W
	if m == 0 {
		return nil
	}
	lo := bits.TrailingZeros64(m)
	run := bits.TrailingZeros64(^(m >> uint(lo)))
	if run < 64 && (m>>uint(lo))>>uint(run) != 0 {
		return nil // not contiguous
	}
	hi := lo + run - 1
	if hi >= w {
		hi = w - 1
	}
	r := tt.Extract(a, hi, lo)
	if lo > 0 {
		r = tt.Concat(r, tt.Const(lo, 0))
	}
	if hi < w-1 {
		r = tt.Concat(tt.Const(w-1-hi, 0), r)
	}
	return r
}

func (tt *TermTable) Not(a *Term) *Term {
	if a.IsConst() {
		return tt.Const(a.W, ^a.Val)
	}
	if a.Op == OpNot {
		return a.A
	}
	return tt.mk(OpNot, a.W, a, nil, nil, 0, "")
}

func (tt *TermTable) Neg(a *Term) *Term {
	if a.IsConst() {
		return tt.Const(a.W, -a.Val)
	}
	return tt.fromLin(a.W, tt.linOf(a).neg())
}

// ---- linear normal form for +,-,neg,*const (mod 2^w)

type linTerm struct {
	t *Term
	c uint64
}

type lin struct {
	k  uint64
	ts []linTerm // sorted by t.id, coefficients non-zero
}

func (l lin) neg() lin {
	out := lin{k: -l.k, ts: make([]linTerm, len(l.ts))}
	for i, x := range l.ts {
		out.ts[i] = linTerm{x.t, -x.c}
	}
	return out
}

func (l lin) scale(c uint64) lin {
	out := lin{k: l.k * c}
	for _, x := range l.ts {
		if x.c*c != 0 {
			out.ts = append(out.ts, linTerm{x.t, x.c * c})
		}
	}
	return out
}

func (a lin) plus(b lin) lin {
	out := lin{k: a.k + b.k}
	i, j := 0, 0
	for i < len(a.ts) || j < len(b.ts) {
		switch {
		case j >= len(b.ts) || (i < len(a.ts) && a.ts[i].t.id < b.ts[j].t.id):
			out.ts = append(out.ts, a.ts[i])
			i++
		case i >= len(a.ts) || b.ts[j].t.id < a.ts[i].t.id:
			out.ts = append(out.ts, b.ts[j])
			j++
		default:
			c := a.ts[i].c + b.ts[j].c
			if c != 0 {
				out.ts = append(out.ts, linTerm{a.ts[i].t, c})
			}
			i++
			j++
		}
	}
	return out
}

func (tt *TermTable) linOf(t *Term) lin {
	if l, ok := tt.linCache[t]; ok {
		return l
	}
	var l lin
	switch t.Op {
	case OpConst:
		l = lin{k: t.Val}
	case OpAdd:
		l = tt.linOf(t.A).plus(tt.linOf(t.B))
	case OpSub:
		l = tt.linOf(t.A).plus(tt.linOf(t.B).neg())
	case OpNeg:
		l = tt.linOf(t.A).neg()
	case OpMul:
		if t.B.IsConst() {
			l = tt.linOf(t.A).scale(t.B.Val)
		} else {
			l = lin{ts: []linTerm{{t, 1}}}
		}
	default:
		l = lin{ts: []linTerm{{t, 1}}}
	}
	if tt.linCache == nil {
		tt.linCache = make(map[*Term]lin)
	}
	tt.linCache[t] = l
	return l
}

// fromLin builds the canonical term of a linear form of width w.
func (tt *TermTable) fromLin(w int, l lin) *Term {
	m := mask(w)
	var acc *Term
	var negs []linTerm
	for _, x := range l.ts {
		c := x.c & m
		if c == 0 {
			continue
		}
		if c == m { // -1
			negs = append(negs, x)
			continue
		}
		var p *Term
		if c == 1 {
			p = x.t
		} else if sx(c, w) < 0 && sx(c, w) > -1024 {
			negs = append(negs, x)
			continue
		} else {
			p = tt.mk(OpMul, w, x.t, tt.Const(w, c), nil, 0, "")
		}
		if acc == nil {
			acc = p
		} else {
			acc = tt.mk(OpAdd, w, acc, p, nil, 0, "")
		}
	}
	k := l.k & m
	if acc == nil {
		acc = tt.Const(w, k)
		k = 0
	}
	for _, x := range negs {
		c := (-x.c) & m
		p := x.t
		if c != 1 {
			p = tt.mk(OpMul, w, x.t, tt.Const(w, c), nil, 0, "")
		}
		if acc.IsConst() && acc.Val == 0 {
			acc = tt.mk(OpNeg, w, p, nil, nil, 0, "")
		} else {
			acc = tt.mk(OpSub, w, acc, p, nil, 0, "")
		}
	}
	if k != 0 {
		if acc.IsConst() {
			acc = tt.Const(w, acc.Val+k)
		} else {
			acc = tt.mk(OpAdd, w, acc, tt.Const(w, k), nil, 0, "")
		}
	}
	res := acc
	if tt.linCache == nil {
		tt.linCache = make(map[*Term]lin)
	}
	if _, ok := tt.linCache[res]; !ok {
		tt.linCache[res] = l
	}
	return res
}

func (tt *TermTable) Concat(a, b *Term) *Term {
	w := a.W + b.W
	if w > 64 {
		panic("term wider than 64 bits")
	}
	if a.IsConst() && b.IsConst() {
		return tt.Const(w, a.Val<<uint(b.W)|b.Val)
	}
	// concat(extract(x,h,m+1), extract(x,m,l)) = extract(x,h,l)
	if a.Op == OpExtract && b.Op == OpExtract && a.A == b.A {
		ah, al := int(a.Val>>8), int(a.Val&0xff)
		bh, bl := int(b.Val>>8), int(b.Val&0xff)
		if al == bh+1 {
			return tt.Extract(a.A, ah, bl)
		}
	}
	// concat(a, concat(b1,b2)) where a,b1 merge
	if b.Op == OpConcat {
		if a.Op == OpExtract && b.A.Op == OpExtract && a.A == b.A.A {
			al := int(a.Val & 0xff)
			bh := int(b.A.Val >> 8)
			if al == bh+1 {
				return tt.Concat(tt.Concat(a, b.A), b.B)
			}
		}
		if a.IsConst() && b.A.IsConst() && a.W+b.A.W <= 64 {
			return tt.Concat(tt.Concat(a, b.A), b.B)
		}
	}
	// concat(concat(a1,a2), b) where a2,b merge
	if a.Op == OpConcat {
		if a.B.Op == OpExtract && b.Op == OpExtract && a.B.A == b.A {
			al := int(a.B.Val & 0xff)
			bh := int(b.Val >> 8)
			if al == bh+1 {
				return tt.Concat(a.A, tt.Concat(a.B, b))
			}
		}
		if a.B.IsConst() && b.IsConst() && a.B.W+b.W <= 64 {
			return tt.Concat(a.A, tt.Concat(a.B, b))
		}
	}
	return tt.mk(OpConcat, w, a, b, nil, 0, "")
}

func (tt *TermTable) Extract(a *Term, hi, lo int) *Term {
	if hi < lo || hi >= a.W || lo < 0 {
		panic(fmt.Sprintf("bad extract [%d:%d] of width %d", hi, lo, a.W))
	}
	w := hi - lo + 1
	if w == a.W {
		return a
	}
	switch a.Op {
	case OpConst:
		return tt.Const(w, a.Val>>uint(lo))
	case OpExtract:
		al := int(a.Val & 0xff)
		return tt.Extract(a.A, al+hi, al+lo)
	case OpConcat:
		bw := a.B.W
		if hi < bw {
			return tt.Extract(a.B, hi, lo)
		}
		if lo >= bw {
			return tt.Extract(a.A, hi-bw, lo-bw)
		}
		return tt.Concat(tt.Extract(a.A, hi-bw, 0), tt.Extract(a.B, bw-1, lo))
	case OpZExt:
		if hi < a.A.W {
			return tt.Extract(a.A, hi, lo)
		}
		if lo >= a.A.W {
			return tt.Const(w, 0)
		}
		return tt.Concat(tt.Const(hi-a.A.W+1, 0), tt.Extract(a.A, a.A.W-1, lo))
	case OpSExt:
		if hi < a.A.W {
			return tt.Extract(a.A, hi, lo)
		}
	case OpAnd, OpOr, OpXor:
		if a.A.Op == OpConst || a.B.Op == OpConst || a.A.Op == OpConcat || a.B.Op == OpConcat {
			// bitwise ops distribute over extract
			return tt.Bin(a.Op, tt.Extract(a.A, hi, lo), tt.Extract(a.B, hi, lo))
		}
	case OpIte:
		if a.B.IsConst() || a.C.IsConst() {
			return tt.Ite(a.A, tt.Extract(a.B, hi, lo), tt.Extract(a.C, hi, lo))
		}
	}
	return tt.mk(OpExtract, w, a, nil, nil, uint64(hi)<<8|uint64(lo), "")
}

func (tt *TermTable) ZExt(a *Term, w int) *Term {
	if w == a.W {
		return a
	}
	if w < a.W {
		return tt.Extract(a, w-1, 0)
	}
	return tt.Concat(tt.Const(w-a.W, 0), a)
}

func (tt *TermTable) SExt(a *Term, w int) *Term {
	if w == a.W {
		return a
	}
	if w < a.W {
		return tt.Extract(a, w-1, 0)
	}
	if a.IsConst() {
		return tt.Const(w, uint64(sx(a.Val, a.W)))
	}
	// sext of a value whose top bit is known zero is zext
	if a.Op == OpConcat {
		ps := pieces(a, nil)
		if isZeroConst(ps[0]) {
			return tt.ZExt(a, w)
		}
	}
	return tt.mk(OpSExt, w, a, nil, nil, 0, "")
}

func (tt *TermTable) Ite(c, a, b *Term) *Term {
	if c.IsTrue() {
		return a
	}
	if c.IsFalse() {
		return b
	}
	if a == b {
		return a
	}
	if a.W == 0 {
		if a.IsTrue() && b.IsFalse() {
			return c
		}
		if a.IsFalse() && b.IsTrue() {
			return tt.BNot(c)
		}
	}
	return tt.mk(OpIte, a.W, c, a, b, 0, "")
}

// Cmp builds a comparison (result Bool).
func (tt *TermTable) Cmp(op Op, a, b *Term) *Term {
	if a.W != b.W {
		panic(fmt.Sprintf("cmp width mismatch %d vs %d", a.W, b.W))
	}
	if a.IsConst() && b.IsConst() && a.W <= 64 {
		var r bool
		switch op {
		case OpEq:
			r = a.Val == b.Val
		case OpUlt:
			r = a.Val < b.Val
		case OpUle:
			r = a.Val <= b.Val
		case OpSlt:
			r = sx(a.Val, a.W) < sx(b.Val, a.W)
		case OpSle:
			r = sx(a.Val, a.W) <= sx(b.Val, a.W)
		}
		return tt.Bool(r)
	}
	if a == b {
		switch op {
		case OpEq, OpUle, OpSle:
			return tt.Bool(true)
		default:
			return tt.Bool(false)
		}
	}
	if op == OpEq && a.W > 1 && (isLinOp(a) || isLinOp(b)) {
		d := tt.linOf(a).plus(tt.linOf(b).neg())
		if len(d.ts) == 0 {
			return tt.Bool(d.k&mask(a.W) == 0)
		}
		// move negative coefficients to the right-hand side
		var pos, neg lin
		for _, x := range d.ts {
			if sx(x.c&mask(a.W), a.W) < 0 {
				neg.ts = append(neg.ts, linTerm{x.t, -x.c})
			} else {
				pos.ts = append(pos.ts, x)
			}
		}
		neg.k = -d.k
		na, nb := tt.fromLin(a.W, pos), tt.fromLin(a.W, neg)
		if !(isLinOp(na) || isLinOp(nb)) || (na != a && na != b) {
			a, b = na, nb
			if a.IsConst() && b.IsConst() {
				return tt.Bool(a.Val == b.Val)
			}
		}
	}
	if op == OpEq {
		if a.W == 0 {
			if a.IsConst() {
				a, b = b, a
			}
			if b.IsTrue() {
				return a
			}
			if b.IsFalse() {
				return tt.BNot(a)
			}
		}
		if a.IsConst() {
			a, b = b, a
		}
		// canonical order for hash-consing
		if !b.IsConst() && a.id > b.id {
			a, b = b, a
		}
		// concat(0.., x) == const: if the constant has high bits set -> false
		if b.IsConst() && a.Op == OpConcat {
			ps := pieces(a, nil)
			if isZeroConst(ps[0]) && ps[0].W < 64 && a.W <= 64 {
				if b.Val>>uint(a.W-ps[0].W) != 0 {
					return tt.Bool(false)
				}
			}
		}
	}
	return tt.mk(op, 0, a, b, nil, 0, "")
}

func (tt *TermTable) BNot(a *Term) *Term {
	if a.IsConst() {
		return tt.Bool(a.Val == 0)
	}
	if a.Op == OpBNot {
		return a.A
	}
	return tt.mk(OpBNot, 0, a, nil, nil, 0, "")
}

func (tt *TermTable) BAnd(a, b *Term) *Term {
	if a.IsFalse() || b.IsFalse() {
		return tt.Bool(false)
	}
	if a.IsTrue() {
		return b
	}
	if b.IsTrue() {
		return a
	}
	if a == b {
		return a
	}
	return tt.mk(OpBAnd, 0, a, b, nil, 0, "")
}

func (tt *TermTable) BOr(a, b *Term) *Term {
	if a.IsTrue() || b.IsTrue() {
		return tt.Bool(true)
	}
	if a.IsFalse() {
		return b
	}
	if b.IsFalse() {
		return a
	}
	if a == b {
		return a
	}
	return tt.mk(OpBOr, 0, a, b, nil, 0, "")
}

// ---------------------------------------------------------------- printing

func sortOf(w int) string {
	if w == 0 {
		return "Bool"
	}
	return fmt.Sprintf("(_ BitVec %d)", w)
}

func smtName(t *Term) string {
	// variable names are quoted symbols
	return "|" + strings.ReplaceAll(t.Name, "|", "_") + "|"
}

func constLit(t *Term) string {
	if t.W == 0 {
		if t.Val == 1 {
			return "true"
		}
		return "false"
	}
	if t.W%4 == 0 {
		return fmt.Sprintf("#x%0*x", t.W/4, t.Val)
	}
	return fmt.Sprintf("#b%0*b", t.W, t.Val)
}

// ref returns how t is referred to inside other terms once defined.
func ref(t *Term) string {
	switch t.Op {
	case OpConst:
		return constLit(t)
	case OpVar:
		return smtName(t)
	}
	return fmt.Sprintf("t%d", t.id)
}

// body prints one level of t using refs for its children.
func body(t *Term) string {
	switch t.Op {
	case OpConst, OpVar:
		return ref(t)
	case OpExtract:
		return fmt.Sprintf("((_ extract %d %d) %s)", t.Val>>8, t.Val&0xff, ref(t.A))
	case OpZExt:
		return fmt.Sprintf("((_ zero_extend %d) %s)", t.W-t.A.W, ref(t.A))
	case OpSExt:
		return fmt.Sprintf("((_ sign_extend %d) %s)", t.W-t.A.W, ref(t.A))
	case OpNot, OpNeg, OpBNot:
		return fmt.Sprintf("(%s %s)", opNames[t.Op], ref(t.A))
	case OpIte:
		return fmt.Sprintf("(ite %s %s %s)", ref(t.A), ref(t.B), ref(t.C))
	}
	return fmt.Sprintf("(%s %s %s)", opNames[t.Op], ref(t.A), ref(t.B))
}

// String prints a term fully expanded (debugging, small terms only).
func (t *Term) String() string {
	var sb strings.Builder
	var rec func(t *Term, d int)
	rec = func(t *Term, d int) {
		if d > 6 {
			sb.WriteString("…")
			return
		}
		switch t.Op {
		case OpConst, OpVar:
			sb.WriteString(ref(t))
		case OpExtract:
			fmt.Fprintf(&sb, "((_ extract %d %d) ", t.Val>>8, t.Val&0xff)
			rec(t.A, d+1)
			sb.WriteString(")")
		case OpZExt, OpSExt:
			fmt.Fprintf(&sb, "(ext%d ", t.W)
			rec(t.A, d+1)
			sb.WriteString(")")
		default:
			sb.WriteString("(" + opNames[t.Op])
			for _, c := range []*Term{t.A, t.B, t.C} {
				if c != nil {
					sb.WriteString(" ")
					rec(c, d+1)
				}
			}
			sb.WriteString(")")
		}
	}
	rec(t, 0)
	return sb.String()
}

// eval evaluates t under a model (variables by name); used to cross-check
// solver models and to pick witnesses.
func (t *Term) eval(m map[string]uint64, memo map[*Term]uint64) uint64 {
	if v, ok := memo[t]; ok {
		return v
	}
	var r uint64
	ev := func(x *Term) uint64 { return x.eval(m, memo) }
	switch t.Op {
	case OpConst:
		r = t.Val
	case OpVar:
		r = m[t.Name]
	case OpNot:
		r = ^ev(t.A)
	case OpNeg:
		r = -ev(t.A)
	case OpBNot:
		r = 1 ^ ev(t.A)
	case OpBAnd:
		r = ev(t.A) & ev(t.B)
	case OpBOr:
		r = ev(t.A) | ev(t.B)
	case OpIte:
		if ev(t.A) == 1 {
			r = ev(t.B)
		} else {
			r = ev(t.C)
		}
	case OpExtract:
		r = ev(t.A) >> (t.Val & 0xff)
	case OpZExt:
		r = ev(t.A)
	case OpSExt:
		r = uint64(sx(ev(t.A), t.A.W))
	case OpConcat:
		if t.W > 64 {
			panic("eval: wide concat")
		}
		r = ev(t.A)<<uint(t.B.W) | ev(t.B)
	case OpEq, OpUlt, OpUle, OpSlt, OpSle:
		tt := &TermTable{tab: map[termKey]*Term{}}
		c := tt.Cmp(t.Op, tt.Const(t.A.W, ev(t.A)), tt.Const(t.B.W, ev(t.B)))
		r = c.Val
	default:
		tt := &TermTable{tab: map[termKey]*Term{}}
		c := tt.Bin(t.Op, tt.Const(t.W, ev(t.A)), tt.Const(t.W, ev(t.B)))
		r = c.Val
	}
	if t.W == 0 {
		r &= 1
	} else {
		r &= mask(t.W)
	}
	memo[t] = r
	return r
}

func isLinOp(t *Term) bool {
	switch t.Op {
	case OpAdd, OpSub, OpNeg:
		return true
	case OpMul:
		return t.B.IsConst()
	}
	return false
}
