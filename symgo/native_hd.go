package main

// Native bridges for key derivation and elliptic-curve keys: on concrete
// inputs the real btcd libraries run natively (exact); code under check sees
// ordinary values. ExtendedKey values are converted field by field;
// secp256k1 keys are opaque handles (the interpreted struct stays zero, the
// native object lives in a side table keyed by the interpreted pointer), so
// interpreted code must not copy them by value (it does not).

import (
	"fmt"
	"go/token"
	"go/types"
	"math/big"

	"github.com/btcsuite/btcd/btcec/v2"
	btcecdsa "github.com/btcsuite/btcd/btcec/v2/ecdsa"
	"github.com/btcsuite/btcd/btcec/v2/schnorr"
	"github.com/btcsuite/btcd/btcutil/base58"
	"github.com/btcsuite/btcd/btcutil/hdkeychain"
	"github.com/btcsuite/btcd/chaincfg"
	"github.com/btcsuite/btcd/txscript"
)

const (
	hdPkg   = "github.com/btcsuite/btcd/btcutil/hdkeychain"
	secpPkg = "github.com/decred/dcrd/dcrec/secp256k1/v4"
	btcecP  = "github.com/btcsuite/btcd/btcec/v2"
)

func (i *interpreter) fieldIndex(t types.Type, name string) int {
	st := t.Underlying().(*types.Struct)
	for k := 0; k < st.NumFields(); k++ {
		if st.Field(k).Name() == name {
			return k
		}
	}
	panic(engineBug("no field " + name + " in " + t.String()))
}

func (i *interpreter) concreteBytes(v value, what string) []byte {
	if v == nil {
		return nil
	}
	b, ok := bytesOf(v)
	if !ok {
		i.unsupported("symbolic bytes reach native crypto: " + what)
	}
	if v.([]value) == nil {
		return nil
	}
	return b
}

func (i *interpreter) hdType() types.Type {
	return i.P.pkgByPath[hdPkg].Type("ExtendedKey").Type()
}

func (i *interpreter) hdToNative(p value) *hdkeychain.ExtendedKey {
	ptr := p.(*value)
	if ptr == nil {
		panic(runtimeErr("invalid memory address or nil pointer dereference (nil *ExtendedKey)"))
	}
	s := (*ptr).(structure)
	t := i.hdType()
	f := func(n string) value { return s[i.fieldIndex(t, n)] }
	return hdkeychain.NewExtendedKey(
		i.concreteBytes(f("version"), "hd version"), i.concreteBytes(f("key"), "hd key"),
		i.concreteBytes(f("chainCode"), "hd chain code"), i.concreteBytes(f("parentFP"), "hd fingerprint"),
		f("depth").(uint8), f("childNum").(uint32), f("isPrivate").(bool))
}

func (i *interpreter) hdFromNative(k *hdkeychain.ExtendedKey) value {
	if k == nil {
		return (*value)(nil)
	}
	raw := base58.Decode(k.String())
	if len(raw) != 82 {
		panic(engineBug("unexpected extended key serialisation"))
	}
	raw = raw[:78]
	t := i.hdType()
	s := zero(t).(structure)
	set := func(n string, v value) { s[i.fieldIndex(t, n)] = v }
	set("version", valuesOf(raw[0:4]))
	set("depth", raw[4])
	set("parentFP", valuesOf(raw[5:9]))
	set("childNum", uint32(raw[9])<<24|uint32(raw[10])<<16|uint32(raw[11])<<8|uint32(raw[12]))
	set("chainCode", valuesOf(raw[13:45]))
	if k.IsPrivate() {
		key := raw[46:78]
		if k.IsAffectedByIssue172() {
			// the library keeps a private key produced by DeriveNonStandard
			// unpadded (big.Int.Bytes()); the serialisation above pads it.
			// Restore the in-memory form, on which the legacy rule depends.
			for len(key) > 0 && key[0] == 0 {
				key = key[1:]
			}
		}
		set("key", valuesOf(key))
	} else {
		set("key", valuesOf(raw[45:78]))
	}
	set("isPrivate", k.IsPrivate())
	var cell value = s
	return &cell
}

func nativeParams(i *interpreter, p value) *chaincfg.Params {
	ptr := p.(*value)
	s := (*ptr).(structure)
	pt := i.P.pkgByPath["github.com/btcsuite/btcd/chaincfg"].Type("Params").Type()
	name := s[i.fieldIndex(pt, "Name")].(string)
	switch name {
	case "mainnet":
		return &chaincfg.MainNetParams
	case "testnet3":
		return &chaincfg.TestNet3Params
	case "regtest":
		return &chaincfg.RegressionNetParams
	case "simnet":
		return &chaincfg.SimNetParams
	case "signet":
		return &chaincfg.SigNetParams
	}
	i.unsupported("chain parameters " + name + " have no native counterpart")
	return nil
}

// secp256k1 keys: the interpreted structs carry the real key material in the
// library's internal representation (ModNScalar: eight little-endian 32-bit
// words; FieldVal: ten 26-bit limbs, normalised), so copies by value stay
// valid; every method is bridged to the native library.

func (i *interpreter) secpType(name string) types.Type {
	return i.P.pkgByPath[secpPkg].Type(name).Type()
}

func (i *interpreter) privStruct(k *btcec.PrivateKey) structure {
	b := k.Serialize()
	words := make(array, 8)
	for w := 0; w < 8; w++ {
		o := 28 - 4*w
		words[w] = uint32(b[o])<<24 | uint32(b[o+1])<<16 | uint32(b[o+2])<<8 | uint32(b[o+3])
	}
	return structure{structure{words}}
}

func (i *interpreter) newPriv(k *btcec.PrivateKey) value {
	var cell value = i.privStruct(k)
	return &cell
}

func (i *interpreter) privFromStruct(s structure) *btcec.PrivateKey {
	words := s[0].(structure)[0].(array)
	b := make([]byte, 32)
	for w := 0; w < 8; w++ {
		v, ok := words[w].(uint32)
		if !ok {
			i.unsupported("symbolic private key reaches native crypto")
		}
		o := 28 - 4*w
		b[o], b[o+1], b[o+2], b[o+3] = byte(v>>24), byte(v>>16), byte(v>>8), byte(v)
	}
	k, _ := btcec.PrivKeyFromBytes(b)
	return k
}

func fieldLimbs(b []byte) array {
	v := new(big.Int).SetBytes(b)
	limbs := make(array, 10)
	mask := big.NewInt(1<<26 - 1)
	for k := 0; k < 10; k++ {
		limbs[k] = uint32(new(big.Int).And(new(big.Int).Rsh(v, uint(26*k)), mask).Uint64())
	}
	return limbs
}

func limbsToBytes(i *interpreter, limbs array) []byte {
	v := new(big.Int)
	for k := 9; k >= 0; k-- {
		l, ok := limbs[k].(uint32)
		if !ok {
			i.unsupported("symbolic public key reaches native crypto")
		}
		v.Lsh(v, 26)
		v.Or(v, big.NewInt(int64(l)))
	}
	out := make([]byte, 32)
	v.FillBytes(out)
	return out
}

func (i *interpreter) pubStruct(k *btcec.PublicKey) structure {
	u := k.SerializeUncompressed()
	return structure{structure{fieldLimbs(u[1:33])}, structure{fieldLimbs(u[33:65])}}
}

func (i *interpreter) newPub(k *btcec.PublicKey) value {
	var cell value = i.pubStruct(k)
	return &cell
}

func (i *interpreter) pubFromStruct(s structure) *btcec.PublicKey {
	x := limbsToBytes(i, s[0].(structure)[0].(array))
	y := limbsToBytes(i, s[1].(structure)[0].(array))
	u := append(append([]byte{4}, x...), y...)
	k, err := btcec.ParsePubKey(u)
	if err != nil {
		i.unsupported("public key struct is not a curve point: " + err.Error())
	}
	return k
}

func (i *interpreter) newHandle(typeName string, obj interface{}) value {
	switch k := obj.(type) {
	case *btcec.PublicKey:
		return i.newPub(k)
	case *btcec.PrivateKey:
		return i.newPriv(k)
	}
	panic(engineBug("newHandle of " + typeName))
}

// pubOf/privOf accept a pointer or a struct value.
func (i *interpreter) pubOf(v value) *btcec.PublicKey {
	switch p := v.(type) {
	case *value:
		if p == nil {
			panic(runtimeErr("invalid memory address or nil pointer dereference (nil *PublicKey)"))
		}
		return i.pubFromStruct((*p).(structure))
	case structure:
		return i.pubFromStruct(p)
	}
	panic(engineBug(fmt.Sprintf("pubOf %T", v)))
}

func (i *interpreter) privOf(v value) *btcec.PrivateKey {
	switch p := v.(type) {
	case *value:
		if p == nil {
			panic(runtimeErr("invalid memory address or nil pointer dereference (nil *PrivateKey)"))
		}
		return i.privFromStruct((*p).(structure))
	case structure:
		return i.privFromStruct(p)
	}
	panic(engineBug(fmt.Sprintf("privOf %T", v)))
}

func init() {
	errOrNil := func(i *interpreter, err error) value {
		if err == nil {
			return iface{}
		}
		// keep the library's sentinel errors recognisable
		hp := i.P.pkgByPath[hdPkg]
		for _, name := range []string{"ErrInvalidChild", "ErrDeriveHardFromPublic", "ErrDeriveBeyondMaxDepth", "ErrNotPrivExtKey",
			"ErrUnusableSeed", "ErrInvalidSeedLen", "ErrBadChecksum", "ErrInvalidKeyLen"} {
			if g := hp.Var(name); g != nil {
				var nerr error
				switch name {
				case "ErrInvalidChild":
					nerr = hdkeychain.ErrInvalidChild
				case "ErrDeriveHardFromPublic":
					nerr = hdkeychain.ErrDeriveHardFromPublic
				case "ErrDeriveBeyondMaxDepth":
					nerr = hdkeychain.ErrDeriveBeyondMaxDepth
				case "ErrNotPrivExtKey":
					nerr = hdkeychain.ErrNotPrivExtKey
				case "ErrUnusableSeed":
					nerr = hdkeychain.ErrUnusableSeed
				case "ErrInvalidSeedLen":
					nerr = hdkeychain.ErrInvalidSeedLen
				case "ErrBadChecksum":
					nerr = hdkeychain.ErrBadChecksum
				case "ErrInvalidKeyLen":
					nerr = hdkeychain.ErrInvalidKeyLen
				}
				if err == nerr {
					return *i.globalAddr(g)
				}
			}
		}
		return i.nativeErr(err)
	}
	for k, v := range map[string]externalFn{
		hdPkg + ".NewMaster": func(fr *frame, a []value) value {
			k, err := hdkeychain.NewMaster(fr.i.concreteBytes(a[0], "seed"), nativeParams(fr.i, a[1]))
			return tuple{fr.i.hdFromNative(k), errOrNil(fr.i, err)}
		},
		hdPkg + ".NewKeyFromString": func(fr *frame, a []value) value {
			k, err := hdkeychain.NewKeyFromString(a[0].(string))
			return tuple{fr.i.hdFromNative(k), errOrNil(fr.i, err)}
		},
		"(*" + hdPkg + ".ExtendedKey).Derive": func(fr *frame, a []value) value {
			k, err := fr.i.hdToNative(a[0]).Derive(a[1].(uint32))
			return tuple{fr.i.hdFromNative(k), errOrNil(fr.i, err)}
		},
		"(*" + hdPkg + ".ExtendedKey).DeriveNonStandard": func(fr *frame, a []value) value {
			if fr.i.store["hd.invalid-child"] != nil {
				// harness-injected invalid child (probability 2^-127 in reality)
				if f, ok := fr.i.store["hd.invalid-child"].(func(uint32) bool); ok && f(a[1].(uint32)) {
					return tuple{(*value)(nil), errOrNil(fr.i, hdkeychain.ErrInvalidChild)}
				}
			}
			k, err := fr.i.hdToNative(a[0]).DeriveNonStandard(a[1].(uint32))
			return tuple{fr.i.hdFromNative(k), errOrNil(fr.i, err)}
		},
		"(*" + hdPkg + ".ExtendedKey).Neuter": func(fr *frame, a []value) value {
			k, err := fr.i.hdToNative(a[0]).Neuter()
			return tuple{fr.i.hdFromNative(k), errOrNil(fr.i, err)}
		},
		"(*" + hdPkg + ".ExtendedKey).String": func(fr *frame, a []value) value {
			return fr.i.hdToNative(a[0]).String()
		},
		"(*" + hdPkg + ".ExtendedKey).ECPubKey": func(fr *frame, a []value) value {
			k, err := fr.i.hdToNative(a[0]).ECPubKey()
			if err != nil {
				return tuple{(*value)(nil), errOrNil(fr.i, err)}
			}
			return tuple{fr.i.newHandle("PublicKey", k), iface{}}
		},
		"(*" + hdPkg + ".ExtendedKey).ECPrivKey": func(fr *frame, a []value) value {
			k, err := fr.i.hdToNative(a[0]).ECPrivKey()
			if err != nil {
				return tuple{(*value)(nil), errOrNil(fr.i, err)}
			}
			return tuple{fr.i.newHandle("PrivateKey", k), iface{}}
		},
		"(*" + hdPkg + ".ExtendedKey).pubKeyBytes": func(fr *frame, a []value) value {
			k := fr.i.hdToNative(a[0])
			if !k.IsPrivate() {
				s := (*a[0].(*value)).(structure)
				return s[fr.i.fieldIndex(fr.i.hdType(), "key")]
			}
			pk, err := k.ECPubKey()
			if err != nil {
				fr.i.unsupported("pubKeyBytes: " + err.Error())
			}
			return valuesOf(pk.SerializeCompressed())
		},
		// secp256k1 keys
		secpPkg + ".PrivKeyFromBytes": func(fr *frame, a []value) value {
			if verbose {
				debugf("PrivKeyFromBytes %x", fr.i.concreteBytes(a[0], "private key bytes"))
			}
			k, _ := btcec.PrivKeyFromBytes(fr.i.concreteBytes(a[0], "private key bytes"))
			return fr.i.newHandle("PrivateKey", k)
		},
		"(*" + secpPkg + ".PrivateKey).PubKey": func(fr *frame, a []value) value {
			return fr.i.newHandle("PublicKey", fr.i.privOf(a[0]).PubKey())
		},
		"(" + secpPkg + ".PrivateKey).Serialize": func(fr *frame, a []value) value {
			if verbose {
				debugf("Serialize -> %x", fr.i.privOf(a[0]).Serialize())
			}
			return valuesOf(fr.i.privOf(a[0]).Serialize())
		},
		"(*" + secpPkg + ".PrivateKey).Zero": func(fr *frame, a []value) value {
			p := a[0].(*value)
			words := (*p).(structure)[0].(structure)[0].(array)
			for k := range words {
				words[k] = uint32(0)
			}
			return nil
		},
		"(" + secpPkg + ".PublicKey).SerializeCompressed": func(fr *frame, a []value) value {
			return valuesOf(fr.i.pubOf(a[0]).SerializeCompressed())
		},
		"(" + secpPkg + ".PublicKey).SerializeUncompressed": func(fr *frame, a []value) value {
			return valuesOf(fr.i.pubOf(a[0]).SerializeUncompressed())
		},
		"(*" + secpPkg + ".PublicKey).IsEqual": func(fr *frame, a []value) value {
			return fr.i.pubOf(a[0]).IsEqual(fr.i.pubOf(a[1]))
		},
		secpPkg + ".ParsePubKey": func(fr *frame, a []value) value {
			k, err := btcec.ParsePubKey(fr.i.concreteBytes(a[0], "public key bytes"))
			if err != nil {
				return tuple{(*value)(nil), fr.i.nativeErr(err)}
			}
			return tuple{fr.i.newHandle("PublicKey", k), iface{}}
		},
		btcecP + "/schnorr.SerializePubKey": func(fr *frame, a []value) value {
			return valuesOf(schnorr.SerializePubKey(fr.i.pubOf(a[0])))
		},
		btcecP + "/schnorr.ParsePubKey": func(fr *frame, a []value) value {
			k, err := schnorr.ParsePubKey(fr.i.concreteBytes(a[0], "x-only key"))
			if err != nil {
				return tuple{(*value)(nil), fr.i.nativeErr(err)}
			}
			return tuple{fr.i.newHandle("PublicKey", k), iface{}}
		},
		"github.com/btcsuite/btcd/txscript.ComputeTaprootKeyNoScript": func(fr *frame, a []value) value {
			return fr.i.newHandle("PublicKey", txscript.ComputeTaprootKeyNoScript(fr.i.pubOf(a[0])))
		},
		"github.com/btcsuite/btcd/txscript.ComputeTaprootOutputKey": func(fr *frame, a []value) value {
			return fr.i.newHandle("PublicKey", txscript.ComputeTaprootOutputKey(fr.i.pubOf(a[0]), fr.i.concreteBytes(a[1], "script root")))
		},
		// signatures (only waddrmgr's self-check Validate uses them)
		btcecP + "/ecdsa.Sign": func(fr *frame, a []value) value {
			sig := btcecdsa.Sign(fr.i.privOf(a[0]), fr.i.concreteBytes(a[1], "message hash"))
			if verbose {
				debugf("ecdsa sign hash=%x pub=%x", fr.i.concreteBytes(a[1], "message hash"), fr.i.privOf(a[0]).PubKey().SerializeCompressed())
			}
			t := fr.i.P.pkgByPath[secpPkg+"/ecdsa"].Type("Signature").Type()
			cell := zero(t)
			p := &cell
			fr.i.native[p] = sig
			return p
		},
		"(*" + secpPkg + "/ecdsa.Signature).Verify": func(fr *frame, a []value) value {
			sig := fr.i.native[a[0].(*value)].(*btcecdsa.Signature)
			if verbose {
				debugf("ecdsa verify hash=%x pub=%x -> %v", fr.i.concreteBytes(a[1], "message hash"), fr.i.pubOf(a[2]).SerializeCompressed(), sig.Verify(fr.i.concreteBytes(a[1], "message hash"), fr.i.pubOf(a[2])))
			}
			return sig.Verify(fr.i.concreteBytes(a[1], "message hash"), fr.i.pubOf(a[2]))
		},
		btcecP + "/schnorr.Sign": func(fr *frame, a []value) value {
			sig, err := schnorr.Sign(fr.i.privOf(a[0]), fr.i.concreteBytes(a[1], "message hash"))
			if err != nil {
				return tuple{(*value)(nil), fr.i.nativeErr(err)}
			}
			t := fr.i.P.pkgByPath[btcecP+"/schnorr"].Type("Signature").Type()
			cell := zero(t)
			p := &cell
			fr.i.native[p] = sig
			return tuple{p, iface{}}
		},
		"(*" + btcecP + "/schnorr.Signature).Verify": func(fr *frame, a []value) value {
			sig := fr.i.native[a[0].(*value)].(*schnorr.Signature)
			return sig.Verify(fr.i.concreteBytes(a[1], "message hash"), fr.i.pubOf(a[2]))
		},
		// base58 (math/big inside)
		"github.com/btcsuite/btcd/btcutil/base58.Encode": func(fr *frame, a []value) value {
			return base58.Encode(fr.i.concreteBytes(a[0], "base58 input"))
		},
		"github.com/btcsuite/btcd/btcutil/base58.Decode": func(fr *frame, a []value) value {
			return valuesOf(base58.Decode(a[0].(string)))
		},
	} {
		externals[k] = v
	}
	_ = fmt.Sprint
	_ = token.NoPos
}
