package main

// Symbolic scalars: a value of dynamic type *Term stands for a Go integer or
// bool whose static type is known from the SSA instruction that uses it.

import (
	"fmt"
	"go/token"
	"go/types"
)

// intKind returns width and signedness for an integer/bool type.
func intKind(t types.Type) (w int, signed bool, ok bool) {
	b, isBasic := t.Underlying().(*types.Basic)
	if !isBasic {
		return 0, false, false
	}
	switch b.Kind() {
	case types.Bool, types.UntypedBool:
		return 0, false, true
	case types.Int, types.UntypedInt:
		return 64, true, true
	case types.Int8:
		return 8, true, true
	case types.Int16:
		return 16, true, true
	case types.Int32, types.UntypedRune:
		return 32, true, true
	case types.Int64:
		return 64, true, true
	case types.Uint, types.Uintptr:
		return 64, false, true
	case types.Uint8:
		return 8, false, true
	case types.Uint16:
		return 16, false, true
	case types.Uint32:
		return 32, false, true
	case types.Uint64:
		return 64, false, true
	}
	return 0, false, false
}

func isSym(v value) bool { _, ok := v.(*Term); return ok }

// lift converts a native integer/bool (or a Term) to a Term.
func (i *interpreter) lift(v value) *Term {
	tt := i.tt
	switch v := v.(type) {
	case *Term:
		return v
	case bool:
		return tt.Bool(v)
	case int:
		return tt.Const(64, uint64(v))
	case int8:
		return tt.Const(8, uint64(v))
	case int16:
		return tt.Const(16, uint64(v))
	case int32:
		return tt.Const(32, uint64(v))
	case int64:
		return tt.Const(64, uint64(v))
	case uint:
		return tt.Const(64, uint64(v))
	case uint8:
		return tt.Const(8, uint64(v))
	case uint16:
		return tt.Const(16, uint64(v))
	case uint32:
		return tt.Const(32, uint64(v))
	case uint64:
		return tt.Const(64, v)
	case uintptr:
		return tt.Const(64, uint64(v))
	}
	panic(engineBug(fmt.Sprintf("lift: cannot lift %T", v)))
}

// nativeOf boxes a constant into the Go type named by t.
func nativeOf(val uint64, t types.Type) value {
	b := t.Underlying().(*types.Basic)
	switch b.Kind() {
	case types.Bool, types.UntypedBool:
		return val&1 == 1
	case types.Int, types.UntypedInt:
		return int(val)
	case types.Int8:
		return int8(val)
	case types.Int16:
		return int16(val)
	case types.Int32, types.UntypedRune:
		return int32(val)
	case types.Int64:
		return int64(val)
	case types.Uint:
		return uint(val)
	case types.Uint8:
		return uint8(val)
	case types.Uint16:
		return uint16(val)
	case types.Uint32:
		return uint32(val)
	case types.Uint64:
		return val
	case types.Uintptr:
		return uintptr(val)
	}
	panic(engineBug("nativeOf: " + t.String()))
}

// unlift returns a native value when t is constant, else t itself.
func unlift(t *Term, typ types.Type) value {
	if t.IsConst() {
		return nativeOf(t.Val, typ)
	}
	return t
}

var boolType = types.Typ[types.Bool]

func (i *interpreter) rtPanic(msg string) {
	panic(runtimeErr(msg))
}

// runtimeErr is a target-level run-time panic raised by the engine.
type runtimeErr string

func (e runtimeErr) Error() string { return "runtime error: " + string(e) }
func (e runtimeErr) RuntimeError() {}

// symBinop evaluates x op y where at least one operand is a Term.
// tx, ty are the static operand types.
func (i *interpreter) symBinop(op token.Token, tx, ty types.Type, x, y value) value {
	tt := i.tt
	w, signed, ok := intKind(tx)
	if !ok {
		panic(engineBug(fmt.Sprintf("symbolic operand of non-integer type %s (%s)", tx, op)))
	}
	a := i.lift(x)
	switch op {
	case token.SHL, token.SHR:
		wy, sy, _ := intKind(ty)
		b := i.lift(y)
		if sy {
			neg := tt.Cmp(OpSlt, b, tt.Const(wy, 0))
			if i.decide(neg) {
				i.rtPanic("negative shift amount")
			}
		}
		// bring the count to the operand width, saturating
		var c *Term
		if wy > w {
			big := tt.Cmp(OpUle, tt.Const(wy, uint64(w)), b)
			c = tt.Ite(big, tt.Const(w, uint64(w)), tt.Extract(b, w-1, 0))
			if w < 8 {
				panic(engineBug("narrow shift"))
			}
		} else {
			c = tt.ZExt(b, w)
		}
		var r *Term
		switch {
		case op == token.SHL:
			r = tt.Bin(OpShl, a, c)
		case signed:
			r = tt.Bin(OpAShr, a, c)
		default:
			r = tt.Bin(OpLShr, a, c)
		}
		return unlift(r, tx)
	}
	b := i.lift(y)
	if a.W != b.W {
		panic(engineBug(fmt.Sprintf("binop %s width mismatch %d/%d type %s", op, a.W, b.W, tx)))
	}
	if w == 0 { // bools
		switch op {
		case token.EQL:
			return unlift(tt.Cmp(OpEq, a, b), boolType)
		case token.NEQ:
			return unlift(tt.BNot(tt.Cmp(OpEq, a, b)), boolType)
		case token.AND, token.LAND:
			return unlift(tt.BAnd(a, b), boolType)
		case token.OR, token.LOR:
			return unlift(tt.BOr(a, b), boolType)
		}
		panic(engineBug("bool binop " + op.String()))
	}
	var r *Term
	switch op {
	case token.ADD:
		r = tt.Bin(OpAdd, a, b)
	case token.SUB:
		r = tt.Bin(OpSub, a, b)
	case token.MUL:
		r = tt.Bin(OpMul, a, b)
	case token.QUO, token.REM:
		if i.decide(tt.Cmp(OpEq, b, tt.Const(w, 0))) {
			i.rtPanic("integer divide by zero")
		}
		switch {
		case op == token.QUO && signed:
			r = tt.Bin(OpSDiv, a, b)
		case op == token.QUO:
			r = tt.Bin(OpUDiv, a, b)
		case signed:
			r = tt.Bin(OpSRem, a, b)
		default:
			r = tt.Bin(OpURem, a, b)
		}
	case token.AND:
		r = tt.Bin(OpAnd, a, b)
	case token.OR:
		r = tt.Bin(OpOr, a, b)
	case token.XOR:
		r = tt.Bin(OpXor, a, b)
	case token.AND_NOT:
		r = tt.Bin(OpAnd, a, tt.Not(b))
	case token.EQL:
		return unlift(tt.Cmp(OpEq, a, b), boolType)
	case token.NEQ:
		return unlift(tt.BNot(tt.Cmp(OpEq, a, b)), boolType)
	case token.LSS, token.LEQ, token.GTR, token.GEQ:
		var c *Term
		lt, le := OpUlt, OpUle
		if signed {
			lt, le = OpSlt, OpSle
		}
		switch op {
		case token.LSS:
			c = tt.Cmp(lt, a, b)
		case token.LEQ:
			c = tt.Cmp(le, a, b)
		case token.GTR:
			c = tt.Cmp(lt, b, a)
		case token.GEQ:
			c = tt.Cmp(le, b, a)
		}
		return unlift(c, boolType)
	default:
		panic(engineBug("symBinop: " + op.String()))
	}
	return unlift(r, tx)
}

func (i *interpreter) symUnop(op token.Token, t types.Type, x *Term) value {
	switch op {
	case token.SUB:
		return unlift(i.tt.Neg(x), t)
	case token.XOR:
		return unlift(i.tt.Not(x), t)
	case token.NOT:
		return unlift(i.tt.BNot(x), t)
	}
	panic(engineBug("symUnop " + op.String()))
}

// symConv converts a symbolic integer between integer types.
func (i *interpreter) symConv(tdst, tsrc types.Type, x *Term) value {
	wd, _, okd := intKind(tdst)
	ws, ss, oks := intKind(tsrc)
	if !okd || !oks || wd == 0 || ws == 0 {
		i.unsupported(fmt.Sprintf("conversion of symbolic %s to %s", tsrc, tdst))
	}
	var r *Term
	switch {
	case wd == ws:
		r = x
	case wd < ws:
		r = i.tt.Extract(x, wd-1, 0)
	case ss:
		r = i.tt.SExt(x, wd)
	default:
		r = i.tt.ZExt(x, wd)
	}
	return unlift(r, tdst)
}

// concInt forces an integer value to a concrete int64 (forking over the
// feasible values of a symbolic one).
func (i *interpreter) concInt(v value, what string) int64 {
	if t, ok := v.(*Term); ok {
		return int64(i.concretize(t, what))
	}
	return asInt64(v)
}

// truth forces a bool value to a concrete bool (forking if symbolic).
func (i *interpreter) truth(v value) bool {
	switch v := v.(type) {
	case bool:
		return v
	case *Term:
		return i.decide(v)
	}
	panic(engineBug(fmt.Sprintf("truth of %T", v)))
}

// boolTerm converts a bool value to a Term.
func (i *interpreter) boolTerm(v value) *Term {
	switch v := v.(type) {
	case bool:
		return i.tt.Bool(v)
	case *Term:
		return v
	}
	panic(engineBug(fmt.Sprintf("boolTerm of %T", v)))
}

// andv / notv on bool values.
func (i *interpreter) andv(a, b value) value {
	if x, ok := a.(bool); ok {
		if !x {
			return false
		}
		return b
	}
	if y, ok := b.(bool); ok {
		if !y {
			return false
		}
		return a
	}
	return unlift(i.tt.BAnd(a.(*Term), b.(*Term)), boolType)
}

func (i *interpreter) notv(a value) value {
	if x, ok := a.(bool); ok {
		return !x
	}
	return unlift(i.tt.BNot(a.(*Term)), boolType)
}
