package main

// Intercepted functions: the harness vocabulary (verifrt), and standard
// library / third-party functions that cannot be interpreted (assembly,
// runtime, reflection, unsafe) or are replaced by a model. Every entry is an
// assumption; the names hit in a run are listed in the evidence.

import (
	"fmt"
	"go/token"
	"go/types"
	"math"
	"math/bits"
	"sort"
	"strconv"
	"strings"
	"time"
	"unicode/utf8"
	"unsafe"

	"golang.org/x/tools/go/ssa"
)

type externalFn func(fr *frame, args []value) value

// Key strings are from Function.String().
var externals = make(map[string]externalFn)

var pkgInitStubs = map[string]func(i *interpreter, p *ssa.Package){}

const rt = "verif/verifrt."

func init() {
	for k, v := range map[string]externalFn{
		// ---- harness vocabulary
		rt + "Symbolic": func(fr *frame, a []value) value { return true },
		rt + "U8": func(fr *frame, a []value) value { return fr.i.nondetTyped(fr, a[0].(string), 8) },
		rt + "U16": func(fr *frame, a []value) value { return fr.i.nondetTyped(fr, a[0].(string), 16) },
		rt + "U32": func(fr *frame, a []value) value { return fr.i.nondetTyped(fr, a[0].(string), 32) },
		rt + "U64": func(fr *frame, a []value) value { return fr.i.nondetTyped(fr, a[0].(string), 64) },
		rt + "I32": func(fr *frame, a []value) value { return fr.i.nondetTyped(fr, a[0].(string), 32) },
		rt + "I64": func(fr *frame, a []value) value { return fr.i.nondetTyped(fr, a[0].(string), 64) },
		rt + "Int": func(fr *frame, a []value) value { return fr.i.nondetTyped(fr, a[0].(string), 64) },
		rt + "Bool": func(fr *frame, a []value) value { return fr.i.nondetTyped(fr, a[0].(string), 0) },
		rt + "Bytes": func(fr *frame, a []value) value {
			n := int(fr.i.concInt(a[1], "Bytes-len"))
			out := make([]value, n)
			for k := range out {
				out[k] = unliftV(fr.i.nondet(a[0].(string), 8), types.Typ[types.Uint8])
			}
			return out
		},
		rt + "OpaqueBytes": func(fr *frame, a []value) value {
			return &opaqueBytes{n: fr.i.lift(a[0])}
		},
		rt + "Choice": func(fr *frame, a []value) value {
			return fr.i.choose(int(fr.i.concInt(a[0], "Choice-n")), "h:"+a[1].(string))
		},
		rt + "Assume": func(fr *frame, a []value) value {
			fr.i.assume(fr.i.boolTerm(a[0]))
			return nil
		},
		rt + "Assert": func(fr *frame, a []value) value {
			fr.i.check(a[0], a[1].(string))
			return nil
		},
		rt + "Reach": func(fr *frame, a []value) value {
			fr.i.run.reached[a[0].(string)] = true
			return nil
		},
		rt + "Unwind": func(fr *frame, a []value) value {
			fr.i.unwind = int(asInt64(a[0]))
			return nil
		},
		rt + "MaxSteps": func(fr *frame, a []value) value {
			fr.i.maxSteps = asInt64(a[0])
			return nil
		},
		rt + "PermuteRanges": func(fr *frame, a []value) value {
			fr.i.permuteRanges = a[0].(bool)
			return nil
		},
		rt + "Observe": func(fr *frame, a []value) value {
			fr.i.run.observe[a[0].(string)] = a[1].(string)
			return nil
		},
		rt + "Note": func(fr *frame, a []value) value {
			if len(fr.i.run.samples) < 64 {
				fr.i.run.samples = append(fr.i.run.samples, a[0].(string))
			}
			return nil
		},
		rt + "Notes": func(fr *frame, a []value) value { return strings.Join(fr.i.run.samples, "; ") },
		rt + "And": func(fr *frame, a []value) value { return fr.i.andv(a[0], a[1]) },
		rt + "Or": func(fr *frame, a []value) value {
			return fr.i.notv(fr.i.andv(fr.i.notv(a[0]), fr.i.notv(a[1])))
		},
		rt + "Not": func(fr *frame, a []value) value { return fr.i.notv(a[0]) },
		rt + "Implies": func(fr *frame, a []value) value {
			return fr.i.notv(fr.i.andv(a[0], fr.i.notv(a[1])))
		},
		rt + "IteI64": func(fr *frame, a []value) value { return fr.i.itev(a, types.Typ[types.Int64]) },
		rt + "IteU64": func(fr *frame, a []value) value { return fr.i.itev(a, types.Typ[types.Uint64]) },
		rt + "IteI32": func(fr *frame, a []value) value { return fr.i.itev(a, types.Typ[types.Int32]) },
		rt + "IteU32": func(fr *frame, a []value) value { return fr.i.itev(a, types.Typ[types.Uint32]) },
		rt + "BytesEq": func(fr *frame, a []value) value { return ext۰bytes۰Equal(fr, a) },
		rt + "Scope": func(fr *frame, a []value) value {
			fr.i.scopeBegin()
			call(fr.i, fr, token.NoPos, a[0], nil)
			fr.i.scopeEnd()
			return nil
		},
		rt + "FillRandom": func(fr *frame, a []value) value {
			fr.i.fillRandom(a[0].([]value))
			return nil
		},
		rt + "SymbolicRand": func(fr *frame, a []value) value {
			fr.i.symbolicRand = a[0].(bool)
			return nil
		},
		"crypto/rand.Read": func(fr *frame, a []value) value {
			fr.i.fillRandom(a[0].([]value))
			return tuple{len(a[0].([]value)), iface{}}
		},
		// math/big values are opaque: only package initialisers of the script
		// engine and chain parameters touch them; code under check must not
		// inspect them (base58 etc. are bridged natively at a higher level)
		"(*math/big.Int).Rsh":      bigRecv,
		"(*math/big.Int).Lsh":      bigRecv,
		"(*math/big.Int).Sub":      bigRecv,
		"(*math/big.Int).Add":      bigRecv,
		"(*math/big.Int).Mul":      bigRecv,
		"(*math/big.Int).Div":      bigRecv,
		"(*math/big.Int).Exp":      bigRecv,
		"(*math/big.Int).Set":      bigRecv,
		"(*math/big.Int).SetInt64": bigRecv,
		"(*math/big.Int).SetUint64": bigRecv,
		"(*math/big.Int).SetBytes": bigRecv,
		"(*math/big.Int).SetString": func(fr *frame, a []value) value { return tuple{a[0], true} },
		"math/big.NewInt": func(fr *frame, a []value) value {
			p := fr.i.P.pkgByPath["math/big"]
			cell := zero(p.Type("Int").Type())
			return &cell
		},
		"github.com/btcsuite/btcd/btcec/v2.S256": func(fr *frame, a []value) value {
			t := mustDeref(fr.fn.Signature.Results().At(0).Type())
			cell := zero(t)
			// allocate embedded parameter structs (opaque big.Int fields)
			if st, ok := t.Underlying().(*types.Struct); ok {
				for k := 0; k < st.NumFields(); k++ {
					if pt, ok := st.Field(k).Type().Underlying().(*types.Pointer); ok {
						if _, ok := pt.Elem().Underlying().(*types.Struct); ok {
							inner := zero(pt.Elem())
							cell.(structure)[k] = &inner
						}
					}
				}
			}
			return &cell
		},
		rt + "Yield": func(fr *frame, a []value) value {
			if len(fr.i.sch.gs) > 1 {
				fr.i.block(&pendOp{what: "yield", cond: func() bool { return true }, fire: func() {}})
			}
			return nil
		},
		rt + "YieldOnUnlock": func(fr *frame, a []value) value {
			fr.i.sch.yieldOnUnlock = a[0].(bool)
			return nil
		},
		rt + "PreemptionBound": func(fr *frame, a []value) value {
			fr.i.sch.preemptBound = a[0].(int)
			return nil
		},
		rt + "Quiesce": func(fr *frame, a []value) value {
			fr.i.block(&pendOp{what: "quiesce", cond: func() bool { return false }, fire: func() {}, quiesce: true})
			return nil
		},
		rt + "LiveGoroutines": func(fr *frame, a []value) value {
			n := 0
			for _, g := range fr.i.sch.gs[1:] {
				if g.state != gDone {
					n++
				}
			}
			return n
		},
		rt + "StubFunc": func(fr *frame, a []value) value {
			if fr.i.stubs == nil {
				fr.i.stubs = make(map[string]value)
			}
			fr.i.stubs[a[0].(string)] = a[1].(iface).v
			return nil
		},
		rt + "Valid": func(fr *frame, a []value) value {
			i := fr.i
			switch c := a[0].(type) {
			case bool:
				return c
			case *Term:
				if i.model != nil && c.eval(i.model, i.evalMemo()) != 1 {
					return false // the cached model of the path condition falsifies it
				}
				res, m := i.solver.Check(i.tt.BNot(c), i.ex.cfg.AssertTimeout, i.tt.vars)
				if res == "sat" && m != nil && i.model == nil {
					i.setModel(m)
				}
				if res == "unknown" {
					i.unsupported("solver unknown in Valid")
				}
				return res == "unsat"
			}
			panic(engineBug("Valid of non-bool"))
		},
		rt + "IsConcrete": func(fr *frame, a []value) value {
			_, ok := bytesOf(a[0])
			return ok
		},

		// ---- bytes / strings kernels with assembly
		"bytes.Equal":                 ext۰bytes۰Equal,
		"bytes.Compare":               ext۰bytes۰Compare,
		"bytes.IndexByte":             ext۰bytes۰IndexByte,
		"internal/bytealg.IndexByte":  ext۰bytes۰IndexByte,
		"internal/bytealg.Equal":      ext۰bytes۰Equal,
		"internal/bytealg.Compare":    ext۰bytes۰Compare,
		"internal/bytealg.MakeNoZero": func(fr *frame, a []value) value { return zeroBytes(int(asInt64(a[0]))) },
		"internal/bytealg.IndexByteString": func(fr *frame, a []value) value {
			return strings.IndexByte(a[0].(string), a[1].(byte))
		},
		"internal/bytealg.CountString": func(fr *frame, a []value) value {
			return strings.Count(a[0].(string), string([]byte{a[1].(byte)}))
		},
		"internal/bytealg.IndexString": func(fr *frame, a []value) value {
			return strings.Index(a[0].(string), a[1].(string))
		},
		"crypto/subtle.ConstantTimeCompare": func(fr *frame, a []value) value {
			x, y := a[0].([]value), a[1].([]value)
			if len(x) != len(y) {
				return 0
			}
			eq := ext۰bytes۰Equal(fr, a)
			if b, ok := eq.(bool); ok {
				if b {
					return 1
				}
				return 0
			}
			return fr.i.tt.Ite(eq.(*Term), fr.i.tt.Const(64, 1), fr.i.tt.Const(64, 0))
		},
		"(*strings.Builder).copyCheck": extNop,
		"(*strings.Builder).String": func(fr *frame, a []value) value {
			st := (*a[0].(*value)).(structure)
			b, ok := bytesOf(st[1])
			if !ok {
				fr.i.unsupported("strings.Builder with symbolic bytes")
			}
			return string(b)
		},
		"strings.Index":      func(fr *frame, a []value) value { return strings.Index(a[0].(string), a[1].(string)) },
		"strings.IndexByte":  func(fr *frame, a []value) value { return strings.IndexByte(a[0].(string), a[1].(byte)) },
		"strings.Count":      func(fr *frame, a []value) value { return strings.Count(a[0].(string), a[1].(string)) },
		"strings.ToLower":    func(fr *frame, a []value) value { return strings.ToLower(a[0].(string)) },
		"strings.ToUpper":    func(fr *frame, a []value) value { return strings.ToUpper(a[0].(string)) },
		"strings.EqualFold":  func(fr *frame, a []value) value { return strings.EqualFold(a[0].(string), a[1].(string)) },
		"strings.Contains":   func(fr *frame, a []value) value { return strings.Contains(a[0].(string), a[1].(string)) },
		"strings.HasPrefix":  func(fr *frame, a []value) value { return strings.HasPrefix(a[0].(string), a[1].(string)) },
		"strings.HasSuffix":  func(fr *frame, a []value) value { return strings.HasSuffix(a[0].(string), a[1].(string)) },
		"strings.TrimSpace":  func(fr *frame, a []value) value { return strings.TrimSpace(a[0].(string)) },
		"strings.TrimPrefix": func(fr *frame, a []value) value { return strings.TrimPrefix(a[0].(string), a[1].(string)) },
		"strings.TrimSuffix": func(fr *frame, a []value) value { return strings.TrimSuffix(a[0].(string), a[1].(string)) },
		"strings.Replace": func(fr *frame, a []value) value {
			return strings.Replace(a[0].(string), a[1].(string), a[2].(string), a[3].(int))
		},
		"strings.ReplaceAll": func(fr *frame, a []value) value {
			return strings.ReplaceAll(a[0].(string), a[1].(string), a[2].(string))
		},
		"strings.Repeat": func(fr *frame, a []value) value { return strings.Repeat(a[0].(string), a[1].(int)) },
		"strings.Split": func(fr *frame, a []value) value {
			var out []value
			for _, s := range strings.Split(a[0].(string), a[1].(string)) {
				out = append(out, s)
			}
			return out
		},
		"strings.Join": func(fr *frame, a []value) value {
			var ss []string
			for _, s := range a[0].([]value) {
				ss = append(ss, s.(string))
			}
			return strings.Join(ss, a[1].(string))
		},
		"strconv.Itoa": func(fr *frame, a []value) value { return strconv.Itoa(a[0].(int)) },
		"strconv.Atoi": func(fr *frame, a []value) value {
			n, e := strconv.Atoi(a[0].(string))
			return tuple{n, fr.i.nativeErr(e)}
		},
		"strconv.FormatInt":  func(fr *frame, a []value) value { return strconv.FormatInt(a[0].(int64), a[1].(int)) },
		"strconv.FormatUint": func(fr *frame, a []value) value { return strconv.FormatUint(a[0].(uint64), a[1].(int)) },
		"strconv.ParseUint": func(fr *frame, a []value) value {
			n, e := strconv.ParseUint(a[0].(string), a[1].(int), a[2].(int))
			return tuple{n, fr.i.nativeErr(e)}
		},
		"strconv.ParseInt": func(fr *frame, a []value) value {
			n, e := strconv.ParseInt(a[0].(string), a[1].(int), a[2].(int))
			return tuple{n, fr.i.nativeErr(e)}
		},
		"strconv.Quote": func(fr *frame, a []value) value { return strconv.Quote(a[0].(string)) },
		"unicode/utf8.DecodeRuneInString": func(fr *frame, a []value) value {
			r, n := utf8.DecodeRuneInString(a[0].(string))
			return tuple{r, n}
		},
		"unicode/utf8.RuneCountInString": func(fr *frame, a []value) value { return utf8.RuneCountInString(a[0].(string)) },
		"unicode/utf8.ValidString":       func(fr *frame, a []value) value { return utf8.ValidString(a[0].(string)) },

		// ---- formatting and logging: text is not part of any property
		"fmt.Sprintf":  ext۰fmt۰Sprintf,
		"fmt.Sprint":   ext۰fmt۰Sprint,
		"fmt.Sprintln": ext۰fmt۰Sprint,
		"fmt.Errorf":   ext۰fmt۰Errorf,
		"fmt.Printf":   extNop,
		"fmt.Println":  extNop,
		"fmt.Print":    extNop,
		"fmt.Fprintf":  func(fr *frame, a []value) value { return tuple{0, iface{}} },
		"fmt.Fprintln": func(fr *frame, a []value) value { return tuple{0, iface{}} },
		"fmt.Fprint":   func(fr *frame, a []value) value { return tuple{0, iface{}} },
		"errors.Is":    ext۰errors۰Is,
		"errors.As":    ext۰errors۰As,
		"github.com/davecgh/go-spew/spew.Sdump": func(fr *frame, a []value) value { return "<spew>" },

		// ---- math
		"math.Float64bits":     func(fr *frame, a []value) value { return math.Float64bits(a[0].(float64)) },
		"math.Float64frombits": func(fr *frame, a []value) value { return math.Float64frombits(a[0].(uint64)) },
		"math.Float32bits":     func(fr *frame, a []value) value { return math.Float32bits(a[0].(float32)) },
		"math.Float32frombits": func(fr *frame, a []value) value { return math.Float32frombits(a[0].(uint32)) },
		"math.Abs":             func(fr *frame, a []value) value { return math.Abs(a[0].(float64)) },
		"math.Floor":           func(fr *frame, a []value) value { return math.Floor(a[0].(float64)) },
		"math.Ceil":            func(fr *frame, a []value) value { return math.Ceil(a[0].(float64)) },
		"math.Sqrt":            func(fr *frame, a []value) value { return math.Sqrt(a[0].(float64)) },
		"math.Log":             func(fr *frame, a []value) value { return math.Log(a[0].(float64)) },
		"math.Exp":             func(fr *frame, a []value) value { return math.Exp(a[0].(float64)) },
		"math.Pow":             func(fr *frame, a []value) value { return math.Pow(a[0].(float64), a[1].(float64)) },
		"math.Inf":             func(fr *frame, a []value) value { return math.Inf(a[0].(int)) },
		"math.IsNaN":           func(fr *frame, a []value) value { return math.IsNaN(a[0].(float64)) },
		"math.IsInf":           func(fr *frame, a []value) value { return math.IsInf(a[0].(float64), a[1].(int)) },
		"math.NaN":             func(fr *frame, a []value) value { return math.NaN() },
		"math.Min":             func(fr *frame, a []value) value { return math.Min(a[0].(float64), a[1].(float64)) },
		"math.Max":             func(fr *frame, a []value) value { return math.Max(a[0].(float64), a[1].(float64)) },
		"math.Round":           func(fr *frame, a []value) value { return math.Round(a[0].(float64)) },
		"math.Trunc":           func(fr *frame, a []value) value { return math.Trunc(a[0].(float64)) },
		"math/bits.Len64": func(fr *frame, a []value) value {
			if _, ok := a[0].(*Term); ok {
				fr.i.unsupported("bits.Len64 of symbolic value")
			}
			return bits.Len64(a[0].(uint64))
		},

		// ---- runtime
		"runtime.GC":                       extNop,
		"runtime.Gosched":                  extNop,
		"runtime.GOMAXPROCS":               func(fr *frame, a []value) value { return 1 },
		"runtime.NumCPU":                   func(fr *frame, a []value) value { return 1 },
		"runtime.KeepAlive":                extNop,
		"runtime.SetFinalizer":             extNop,
		"runtime/debug.FreeOSMemory":       extNop,
		"runtime/debug.SetGCPercent":       func(fr *frame, a []value) value { return int(100) },
		"runtime/debug.Stack":              func(fr *frame, a []value) value { return []value(nil) },
		"runtime.Caller":                   func(fr *frame, a []value) value { return tuple{uintptr(0), "", 0, false} },
		"runtime.Callers":                  func(fr *frame, a []value) value { return 0 },
		"os.Exit":                          func(fr *frame, a []value) value { panic(targetPanic{iface{types.Typ[types.String], "os.Exit"}}) },
		"os.Getpagesize":                   func(fr *frame, a []value) value { return 4096 },
		"os.Getenv":                        func(fr *frame, a []value) value { return "" },
		"internal/godebug.(*Setting).Value": func(fr *frame, a []value) value { return "" },
		"internal/race.Enable":             extNop,
		"internal/race.Disable":            extNop,
		"internal/race.Acquire":            extNop,
		"internal/race.Release":            extNop,
		"internal/race.ReleaseMerge":       extNop,
		"internal/race.Read":               extNop,
		"internal/race.Write":              extNop,
		"internal/race.ReadRange":          extNop,
		"internal/race.WriteRange":         extNop,
		"internal/race.Errors":             func(fr *frame, a []value) value { return 0 },

		// ---- sort via reflection
		// encoding/binary.Read/Write fall back to package reflect: redirected
		// to reflection-free interpreted equivalents in verifrt
		"encoding/binary.Read": func(fr *frame, a []value) value {
			return binReadInto(fr, a[0], a[1], a[2])
		},
		"encoding/binary.Write": func(fr *frame, a []value) value {
			return call(fr.i, fr, token.NoPos, fr.i.P.pkgByPath["verif/verifrt"].Func("BinWrite"), a)
		},
		"sort.Slice":       ext۰sort۰Slice,
		"sort.SliceStable": ext۰sort۰SliceStable,
		"sort.Strings": func(fr *frame, a []value) value {
			x := a[0].([]value)
			sort.Slice(x, func(p, q int) bool { return x[p].(string) < x[q].(string) })
			return nil
		},
		"sort.Ints": func(fr *frame, a []value) value {
			x := a[0].([]value)
			sort.Slice(x, func(p, q int) bool { return x[p].(int) < x[q].(int) })
			return nil
		},

		// ---- sync
		"(*sync.Mutex).Lock":      func(fr *frame, a []value) value { fr.i.mutexLock(a[0].(*value)); return nil },
		"(*sync.Mutex).Unlock":    func(fr *frame, a []value) value { fr.i.mutexUnlock(a[0].(*value)); return nil },
		"(*sync.Mutex).TryLock":   func(fr *frame, a []value) value { return fr.i.mutexTryLock(a[0].(*value)) },
		"(*sync.RWMutex).Lock":    func(fr *frame, a []value) value { fr.i.mutexLock(a[0].(*value)); return nil },
		"(*sync.RWMutex).Unlock":  func(fr *frame, a []value) value { fr.i.mutexUnlock(a[0].(*value)); return nil },
		"(*sync.RWMutex).RLock":   func(fr *frame, a []value) value { fr.i.rwRLock(a[0].(*value)); return nil },
		"(*sync.RWMutex).RUnlock": func(fr *frame, a []value) value { fr.i.rwRUnlock(a[0].(*value)); return nil },
		"(*sync.WaitGroup).Add": func(fr *frame, a []value) value {
			fr.i.wgAdd(a[0].(*value), a[1].(int))
			return nil
		},
		"(*sync.WaitGroup).Done": func(fr *frame, a []value) value { fr.i.wgAdd(a[0].(*value), -1); return nil },
		"(*sync.WaitGroup).Wait": func(fr *frame, a []value) value { fr.i.wgWait(a[0].(*value)); return nil },
		"(*sync.Once).Do": func(fr *frame, a []value) value {
			key := a[0].(*value)
			if fr.i.sch.wgs[key] == 0 {
				fr.i.sch.wgs[key] = 1
				call(fr.i, fr, token.NoPos, a[1], nil)
			}
			return nil
		},
		"(*sync.Pool).Get": func(fr *frame, a []value) value {
			p := (*a[0].(*value)).(structure)
			newf := p[len(p)-1]
			switch f := newf.(type) {
			case *ssa.Function:
				if f == nil {
					return iface{}
				}
			}
			return call(fr.i, fr, token.NoPos, newf, nil)
		},
		"(*sync.Pool).Put": extNop,

		// ---- sync/atomic.Value (its implementation uses unsafe): the struct's
		// single field `v any` holds the stored interface value
		"(*sync/atomic.Value).Store": func(fr *frame, a []value) value {
			p := a[0].(*value)
			st := (*p).(structure)
			if v, ok := a[1].(iface); !ok || v.t == nil {
				panic(runtimeErr("sync/atomic: store of nil value into Value"))
			}
			st[0] = a[1]
			return nil
		},
		"(*sync/atomic.Value).Load": func(fr *frame, a []value) value {
			p := a[0].(*value)
			st := (*p).(structure)
			if v, ok := st[0].(iface); ok {
				return v
			}
			return iface{}
		},
		// ---- sync/atomic on cells
		"sync/atomic.LoadInt32":   atomicLoad,
		"sync/atomic.LoadInt64":   atomicLoad,
		"sync/atomic.LoadUint32":  atomicLoad,
		"sync/atomic.LoadUint64":  atomicLoad,
		"sync/atomic.LoadUintptr": atomicLoad,
		"sync/atomic.LoadPointer": atomicLoad,
		"sync/atomic.StoreInt32":  atomicStore,
		"sync/atomic.StoreInt64":  atomicStore,
		"sync/atomic.StoreUint32": atomicStore,
		"sync/atomic.StoreUint64": atomicStore,
		"sync/atomic.StoreUintptr": atomicStore,
		"sync/atomic.StorePointer": atomicStore,
		"sync/atomic.AddInt32":    func(fr *frame, a []value) value { return atomicAdd(fr, a, types.Typ[types.Int32]) },
		"sync/atomic.AddInt64":    func(fr *frame, a []value) value { return atomicAdd(fr, a, types.Typ[types.Int64]) },
		"sync/atomic.AddUint32":   func(fr *frame, a []value) value { return atomicAdd(fr, a, types.Typ[types.Uint32]) },
		"sync/atomic.AddUint64":   func(fr *frame, a []value) value { return atomicAdd(fr, a, types.Typ[types.Uint64]) },
		"sync/atomic.SwapInt32":   atomicSwap,
		"sync/atomic.SwapInt64":   atomicSwap,
		"sync/atomic.SwapUint32":  atomicSwap,
		"sync/atomic.SwapUint64":  atomicSwap,
		"sync/atomic.SwapPointer": atomicSwap,
		"sync/atomic.CompareAndSwapInt32":  func(fr *frame, a []value) value { return atomicCAS(fr, a, types.Typ[types.Int32]) },
		"sync/atomic.CompareAndSwapInt64":  func(fr *frame, a []value) value { return atomicCAS(fr, a, types.Typ[types.Int64]) },
		"sync/atomic.CompareAndSwapUint32": func(fr *frame, a []value) value { return atomicCAS(fr, a, types.Typ[types.Uint32]) },
		"sync/atomic.CompareAndSwapUint64": func(fr *frame, a []value) value { return atomicCAS(fr, a, types.Typ[types.Uint64]) },

		// ---- time
		"time.Now":   ext۰time۰Now,
		"time.Sleep": extNop,
		"time.Since": func(fr *frame, a []value) value { return int64(0) },
		"time.After": func(fr *frame, a []value) value {
			ch := fr.i.makeChan(1)
			ch.timer = true
			return ch
		},
		"time.runtimeNano": func(fr *frame, a []value) value { return int64(0) },
		"time.now":         func(fr *frame, a []value) value { return tuple{int64(0), int32(0), int64(0)} },
		// Time.Sub by its contract (its body re-derives the result with a
		// division by 10^9): saturating (t.sec-u.sec)*1e9 + (t.nsec-u.nsec)
		"(time.Time).Sub": ext۰time۰Sub,
		"math/rand.Seed":  extNop,
		"(time.Time).String": func(fr *frame, a []value) value { return "<time>" },
		"(time.Time).Format": func(fr *frame, a []value) value { return "<time>" },
		"(time.Duration).String": func(fr *frame, a []value) value { return "<duration>" },
	} {
		externals[k] = v
	}
	pkgInitStubs["time"] = initTime
	pkgInitStubs["crypto/rand"] = func(i *interpreter, p *ssa.Package) {
		g := p.Var("Reader")
		vp := i.P.pkgByPath["verif/verifrt"]
		if g == nil || vp == nil {
			return
		}
		var cell value = iface{t: vp.Type("RandReader").Type(), v: structure{}}
		i.globals[g] = &cell
	}
	pkgInitStubs["errors"] = func(i *interpreter, p *ssa.Package) {
		if g := p.Var("ErrUnsupported"); g != nil {
			e := callSSA(i, nil, token.NoPos, p.Func("New"), []value{"unsupported operation"}, nil)
			i.globals[g] = &e
		}
	}
}

func extNop(fr *frame, a []value) value { return nil }

// opaqueBytes is a []byte of which only the (possibly symbolic) length is known.
type opaqueBytes struct {
	n *Term
}

func (i *interpreter) sliceOpaque(ob *opaqueBytes, lo, hi, max value) value {
	if lo == nil && hi == nil {
		return ob
	}
	i.unsupported("slicing opaque bytes")
	return nil
}

func zeroBytes(n int) []value {
	out := make([]value, n)
	for k := range out {
		out[k] = uint8(0)
	}
	return out
}

// bytesOf returns the concrete contents of a []byte value.
func bytesOf(v value) ([]byte, bool) {
	s, ok := v.([]value)
	if !ok {
		return nil, false
	}
	out := make([]byte, len(s))
	for k, e := range s {
		b, ok := e.(uint8)
		if !ok {
			return nil, false
		}
		out[k] = b
	}
	return out, true
}

func valuesOf(b []byte) []value {
	if b == nil {
		return []value(nil)
	}
	out := make([]value, len(b))
	for k, c := range b {
		out[k] = c
	}
	return out
}

func arrayOf(b []byte) array {
	out := make(array, len(b))
	for k, c := range b {
		out[k] = c
	}
	return out
}

// nondet creates a fresh symbolic input.
func (i *interpreter) nondet(name string, w int) value {
	if fm := i.ex.cfg.FixedModel; fm != nil {
		// concrete re-execution: the model's value (same naming scheme)
		t := i.tt.Fresh(w, name)
		return i.tt.Const(w, fm[t.Name])
	}
	t := i.tt.Fresh(w, name)
	i.run.nondets = append(i.run.nondets, nondetRec{Name: t.Name, W: w, T: t})
	return t
}

func ext۰bytes۰Equal(fr *frame, args []value) value {
	a, okA := args[0].([]value)
	b, okB := args[1].([]value)
	if !okA || !okB {
		fr.i.unsupported("bytes.Equal on opaque bytes")
	}
	if len(a) != len(b) {
		return false
	}
	var acc value = true
	for k := range a {
		x, y := a[k], b[k]
		if xb, ok := x.(uint8); ok {
			if yb, ok := y.(uint8); ok {
				if xb != yb {
					return false
				}
				continue
			}
		}
		acc = fr.i.andv(acc, unlift(fr.i.tt.Cmp(OpEq, fr.i.lift(x), fr.i.lift(y)), boolType))
		if bb, ok := acc.(bool); ok && !bb {
			return false
		}
	}
	return acc
}

func ext۰bytes۰Compare(fr *frame, args []value) value {
	a := args[0].([]value)
	b := args[1].([]value)
	n := len(a)
	if len(b) < n {
		n = len(b)
	}
	for k := 0; k < n; k++ {
		x, y := a[k], b[k]
		xb, okx := x.(uint8)
		yb, oky := y.(uint8)
		if okx && oky {
			if xb < yb {
				return -1
			}
			if xb > yb {
				return 1
			}
			continue
		}
		xt, yt := fr.i.lift(x), fr.i.lift(y)
		if fr.i.decide(fr.i.tt.Cmp(OpEq, xt, yt)) {
			continue
		}
		if fr.i.decide(fr.i.tt.Cmp(OpUlt, xt, yt)) {
			return -1
		}
		return 1
	}
	switch {
	case len(a) < len(b):
		return -1
	case len(a) > len(b):
		return 1
	}
	return 0
}

func ext۰bytes۰IndexByte(fr *frame, args []value) value {
	s := args[0].([]value)
	c := args[1]
	for k, b := range s {
		if fr.i.truth(fr.i.eqv(types.Typ[types.Uint8], b, c)) {
			return k
		}
	}
	return -1
}

// ---- fmt

// nativeArg turns an interpreted value into something fmt can print.
func (i *interpreter) nativeArg(fr *frame, v value) interface{} {
	itf, ok := v.(iface)
	if !ok {
		return toString(v)
	}
	if itf.t == nil {
		return nil
	}
	switch x := itf.v.(type) {
	case bool, int, int8, int16, int32, int64, uint, uint8, uint16, uint32, uint64, uintptr, float32, float64, string:
		return x
	case *Term:
		return "<sym>"
	}
	for _, m := range []string{"Error", "String"} {
		if f := i.findMethod(itf.t, m); f != nil && f.Signature.Params().Len() == 0 {
			var s interface{}
			func() {
				defer func() {
					if r := recover(); r != nil {
						if isEnginePanic(classifyPanic(r)) {
							s = "<unprintable>"
						} else {
							s = "<panic>"
						}
					}
				}()
				s = call(i, fr, token.NoPos, f, []value{itf.v})
			}()
			if str, ok := s.(string); ok {
				return rawString{str}
			}
		}
	}
	return rawString{i.fmtValue(fr, itf.v, itf.t, 0)}
}

// rawString prints without quotes under %v and %s.
type rawString struct{ s string }

func (r rawString) Format(f fmt.State, c rune) { fmt.Fprint(f, r.s) }

// fmtValue mimics fmt's %v for interpreted aggregate values.
func (i *interpreter) fmtValue(fr *frame, v value, t types.Type, depth int) string {
	if depth > 6 {
		return "..."
	}
	if _, ok := v.(*Term); ok {
		return "<sym>"
	}
	if depth > 0 {
		if itf, ok := v.(iface); ok {
			if itf.t == nil {
				return "<nil>"
			}
			return fmt.Sprint(i.nativeArg(fr, itf))
		}
		// named types with String/Error methods
		if _, isNamed := t.(*types.Named); isNamed {
			if f := i.findMethod(t, "Error"); f != nil {
				return fmt.Sprint(i.nativeArg(fr, iface{t: t, v: v}))
			}
			if f := i.findMethod(t, "String"); f != nil {
				return fmt.Sprint(i.nativeArg(fr, iface{t: t, v: v}))
			}
		}
	}
	switch u := t.Underlying().(type) {
	case *types.Basic:
		return fmt.Sprint(v)
	case *types.Slice:
		sl, ok := v.([]value)
		if !ok {
			return "<opaque>"
		}
		parts := make([]string, len(sl))
		for k, e := range sl {
			parts[k] = i.fmtValue(fr, e, u.Elem(), depth+1)
		}
		return "[" + strings.Join(parts, " ") + "]"
	case *types.Array:
		arr := v.(array)
		parts := make([]string, len(arr))
		for k, e := range arr {
			parts[k] = i.fmtValue(fr, e, u.Elem(), depth+1)
		}
		return "[" + strings.Join(parts, " ") + "]"
	case *types.Struct:
		st := v.(structure)
		parts := make([]string, len(st))
		for k, e := range st {
			parts[k] = i.fmtValue(fr, e, u.Field(k).Type(), depth+1)
		}
		return "{" + strings.Join(parts, " ") + "}"
	case *types.Map:
		m := v.(*omap)
		var parts []string
		if m != nil {
			for p := range m.keys {
				if m.live[p] {
					parts = append(parts, i.fmtValue(fr, m.keys[p], u.Key(), depth+1)+":"+i.fmtValue(fr, m.vals[p], u.Elem(), depth+1))
				}
			}
		}
		sort.Strings(parts)
		return "map[" + strings.Join(parts, " ") + "]"
	case *types.Pointer:
		pv := v.(*value)
		if pv == nil {
			return "<nil>"
		}
		if _, ok := u.Elem().Underlying().(*types.Struct); ok && depth == 0 {
			return "&" + i.fmtValue(fr, *pv, u.Elem(), depth+1)
		}
		return fmt.Sprintf("%p", pv)
	case *types.Interface:
		if itf, ok := v.(iface); ok {
			if itf.t == nil {
				return "<nil>"
			}
			return fmt.Sprint(i.nativeArg(fr, itf))
		}
	}
	return "<" + t.String() + ">"
}

func (i *interpreter) sprintf(fr *frame, format string, args []value) string {
	var na []interface{}
	for _, a := range args {
		na = append(na, i.nativeArg(fr, a))
	}
	format = strings.ReplaceAll(format, "%w", "%v")
	return fmt.Sprintf(format, na...)
}

func ext۰fmt۰Sprintf(fr *frame, args []value) value {
	return fr.i.sprintf(fr, args[0].(string), args[1].([]value))
}

func ext۰fmt۰Sprint(fr *frame, args []value) value {
	var na []interface{}
	for _, a := range args[0].([]value) {
		na = append(na, fr.i.nativeArg(fr, a))
	}
	return fmt.Sprint(na...)
}

// fmt.Errorf keeps the wrapped error (first %w) so errors.Is/As/Unwrap work.
func ext۰fmt۰Errorf(fr *frame, args []value) value {
	i := fr.i
	format := args[0].(string)
	vs := args[1].([]value)
	msg := i.sprintf(fr, format, vs)
	fmtPkg := i.P.pkgByPath["fmt"]
	if idx := strings.Index(format, "%w"); idx >= 0 && fmtPkg != nil {
		// which argument does the %w consume?
		n := 0
		for k := 0; k < idx; k++ {
			if format[k] == '%' {
				if k+1 < len(format) && format[k+1] == '%' {
					k++
					continue
				}
				n++
			}
		}
		if n < len(vs) {
			if werr, ok := vs[n].(iface); ok {
				wt := fmtPkg.Type("wrapError").Type()
				var cell value = structure{msg, werr}
				return iface{t: types.NewPointer(wt), v: &cell}
			}
		}
	}
	errorsPkg := i.P.pkgByPath["errors"]
	et := errorsPkg.Type("errorString").Type()
	var cell value = structure{msg}
	return iface{t: types.NewPointer(et), v: &cell}
}

// nativeErr converts a native error into an interpreted *errors.errorString.
func (i *interpreter) nativeErr(e error) value {
	if e == nil {
		return iface{}
	}
	errorsPkg := i.P.pkgByPath["errors"]
	et := errorsPkg.Type("errorString").Type()
	var cell value = structure{e.Error()}
	return iface{t: types.NewPointer(et), v: &cell}
}

func (i *interpreter) callMethod(fr *frame, recv iface, name string, args ...value) (value, bool) {
	f := i.findMethod(recv.t, name)
	if f == nil {
		// unexported or package-qualified lookups are not needed here
		return nil, false
	}
	return call(i, fr, token.NoPos, f, append([]value{recv.v}, args...)), true
}

func isComparable(t types.Type) bool { return types.Comparable(t) }

func ext۰errors۰Is(fr *frame, args []value) value {
	i := fr.i
	err, target := args[0].(iface), args[1].(iface)
	if err.t == nil || target.t == nil {
		return err.t == nil && target.t == nil
	}
	var walk func(err iface) bool
	walk = func(err iface) bool {
		for {
			if sameType(err.t, target.t) && isComparable(err.t) {
				if i.truth(i.eqv(err.t, err.v, target.v)) {
					return true
				}
			}
			if f := i.findMethod(err.t, "Is"); f != nil && f.Signature.Params().Len() == 1 {
				if i.truth(call(i, fr, token.NoPos, f, []value{err.v, target})) {
					return true
				}
			}
			f := i.findMethod(err.t, "Unwrap")
			if f == nil {
				return false
			}
			r := call(i, fr, token.NoPos, f, []value{err.v})
			switch r := r.(type) {
			case iface:
				if r.t == nil {
					return false
				}
				err = r
			case []value:
				for _, e := range r {
					if e.(iface).t != nil && walk(e.(iface)) {
						return true
					}
				}
				return false
			default:
				return false
			}
		}
	}
	return walk(err)
}

func ext۰errors۰As(fr *frame, args []value) value {
	i := fr.i
	err, target := args[0].(iface), args[1].(iface)
	if err.t == nil {
		return false
	}
	ptr, ok := target.t.Underlying().(*types.Pointer)
	if !ok {
		panic(runtimeErr("errors: target must be a non-nil pointer"))
	}
	tt := ptr.Elem()
	cell := target.v.(*value)
	for {
		if _, isIface := tt.Underlying().(*types.Interface); isIface {
			if types.Implements(err.t, tt.Underlying().(*types.Interface)) {
				*cell = err
				return true
			}
		} else if types.Identical(err.t, tt) {
			*cell = err.v
			return true
		}
		if f := i.findMethod(err.t, "As"); f != nil && f.Signature.Params().Len() == 1 {
			if i.truth(call(i, fr, token.NoPos, f, []value{err.v, target})) {
				return true
			}
		}
		f := i.findMethod(err.t, "Unwrap")
		if f == nil {
			return false
		}
		r, ok := call(i, fr, token.NoPos, f, []value{err.v}).(iface)
		if !ok || r.t == nil {
			return false
		}
		err = r
	}
}

// ---- sort

func ext۰sort۰Slice(fr *frame, args []value) value {
	x := args[0].(iface).v.([]value)
	less := args[1]
	// insertion sort driven by the interpreted less (deterministic given
	// the outcomes; symbolic outcomes fork)
	n := len(x)
	tmp := append([]value{}, x...)
	idx := make([]int, n)
	for k := range idx {
		idx[k] = k
	}
	// less takes indices into the *current* slice, so sort in place with swaps
	_ = tmp
	for a := 1; a < n; a++ {
		for b := a; b > 0; b-- {
			if fr.i.truth(call(fr.i, fr, token.NoPos, less, []value{b, b - 1})) {
				x[b], x[b-1] = x[b-1], x[b]
			} else {
				break
			}
		}
	}
	return nil
}

func ext۰sort۰SliceStable(fr *frame, args []value) value { return ext۰sort۰Slice(fr, args) }

// ---- atomics

func atomicLoad(fr *frame, a []value) value { return *a[0].(*value) }
func atomicStore(fr *frame, a []value) value {
	*a[0].(*value) = a[1]
	return nil
}
func atomicSwap(fr *frame, a []value) value {
	old := *a[0].(*value)
	*a[0].(*value) = a[1]
	return old
}
func atomicAdd(fr *frame, a []value, t types.Type) value {
	p := a[0].(*value)
	*p = fr.i.binop(token.ADD, t, t, *p, a[1])
	return *p
}
func atomicCAS(fr *frame, a []value, t types.Type) value {
	p := a[0].(*value)
	if fr.i.truth(fr.i.eqv(t, *p, a[1])) {
		*p = a[2]
		return true
	}
	return false
}

// ---- time

// initTime sets up the few globals of package time that interpreted code
// touches (time.Local, time.UTC).
func initTime(i *interpreter, p *ssa.Package) {
	for _, name := range []string{"UTC", "Local"} {
		g := p.Var(name)
		locName := map[string]string{"UTC": "utcLoc", "Local": "localLoc"}[name]
		lg := p.Var(locName)
		if g == nil || lg == nil {
			continue
		}
		lc := zero(mustDeref(lg.Type()))
		i.globals[lg] = &lc
		// name field of Location is the first field
		if name == "UTC" {
			lc.(structure)[0] = "UTC"
		} else {
			lc.(structure)[0] = "Local"
		}
		var cell value = &lc
		i.globals[g] = &cell
	}
}

// timeValue builds a time.Time from (sec since 1970, nsec): wall = nsec,
// ext = sec + unixToInternal, loc = Local — exactly what time.Unix produces.
const unixToInternal int64 = (1969*365 + 1969/4 - 1969/100 + 1969/400) * 86400

func (i *interpreter) timeValue(sec, nsec value) value {
	p := i.P.pkgByPath["time"]
	local := *i.globalAddr(p.Var("Local"))
	ext := i.binop(token.ADD, types.Typ[types.Int64], types.Typ[types.Int64], sec, unixToInternal)
	wall := i.conv(types.Typ[types.Uint64], types.Typ[types.Int32], nsec)
	return structure{wall, ext, local}
}

// time.Now: arbitrary non-decreasing instants within 2009..2100, whole
// seconds (sub-second parts only matter to harnesses that bring their own
// clock).
func ext۰time۰Now(fr *frame, a []value) value {
	i := fr.i
	if i.inInit > 0 {
		// package initialisers (PRNG seeds etc.) see a fixed instant
		return i.timeValue(int64(1700000000), int32(0))
	}
	sec := i.nondet("now.sec", 64).(*Term)
	tt := i.tt
	i.assume(tt.BAnd(tt.Cmp(OpSle, tt.Const(64, 1230768000), sec), tt.Cmp(OpSle, sec, tt.Const(64, 4102444800)))) // 2009..2100
	if prev, ok := i.store["time.last.sec"]; ok {
		i.assume(tt.Cmp(OpSle, i.lift(prev), sec))
	}
	i.store["time.last.sec"] = unlift(sec, types.Typ[types.Int64])
	return i.timeValue(unlift(sec, types.Typ[types.Int64]), int32(0))
}

var _ = unsafe.Pointer(nil)
var _ = time.Now

// findMethod looks up an exported method by name; nil if absent.
func (i *interpreter) findMethod(t types.Type, name string) *ssa.Function {
	sel := i.prog.MethodSets.MethodSet(t).Lookup(nil, name)
	if sel == nil {
		return nil
	}
	return i.prog.MethodValue(sel)
}

// ifaceOf wraps v of static type t into an interface value.
func ifaceOf(i *interpreter, t types.Type, v value) value {
	return iface{t: t, v: v}
}

func (i *interpreter) itev(a []value, t types.Type) value {
	if c, ok := a[0].(bool); ok {
		if c {
			return a[1]
		}
		return a[2]
	}
	return unlift(i.tt.Ite(a[0].(*Term), i.lift(a[1]), i.lift(a[2])), t)
}

func (i *interpreter) fillRandom(p []value) {
	for k := range p {
		if i.symbolicRand {
			p[k] = unliftV(i.nondet("rand", 8), types.Typ[types.Uint8])
		} else {
			// splitmix64: a byte stream without the 256-byte period of a
			// linear byte counter (equal nonces/keys 256 bytes apart made two
			// different seals indistinguishable)
			i.randCtr++
			z := uint64(i.randCtr) * 0x9e3779b97f4a7c15
			z = (z ^ (z >> 30)) * 0xbf58476d1ce4e5b9
			z = (z ^ (z >> 27)) * 0x94d049bb133111eb
			z ^= z >> 31
			p[k] = uint8(z >> 24)
		}
	}
}

func bigRecv(fr *frame, a []value) value {
	if p, ok := a[0].(*value); ok && p == nil {
		bp := fr.i.P.pkgByPath["math/big"]
		cell := zero(bp.Type("Int").Type())
		return &cell
	}
	return a[0]
}

// unliftV unboxes constant terms (concrete re-execution mode).
func unliftV(v value, t types.Type) value {
	if tm, ok := v.(*Term); ok {
		return unlift(tm, t)
	}
	return v
}

func (i *interpreter) nondetTyped(fr *frame, name string, w int) value {
	return unliftV(i.nondet(name, w), fr.fn.Signature.Results().At(0).Type())
}

func ext۰time۰Sub(fr *frame, a []value) value {
	i := fr.i
	p := i.P.pkgByPath["time"]
	secFn := i.prog.LookupMethod(types.NewPointer(p.Type("Time").Type()), p.Pkg, "sec")
	nsecFn := i.prog.LookupMethod(types.NewPointer(p.Type("Time").Type()), p.Pkg, "nsec")
	get := func(t value) (value, value) {
		cell := copyVal(t)
		s := call(i, fr, token.NoPos, secFn, []value{&cell})
		n := call(i, fr, token.NoPos, nsecFn, []value{&cell})
		return s, n
	}
	ts, tn := get(a[0])
	us, un := get(a[1])
	i64 := types.Typ[types.Int64]
	diff := i.binop(token.SUB, i64, i64, ts, us)
	const lim = int64(9223372035) // (2^63-1)/1e9 - 1
	if i.truth(i.binop(token.GTR, i64, i64, diff, lim)) {
		return int64(1<<63 - 1)
	}
	if i.truth(i.binop(token.LSS, i64, i64, diff, -lim)) {
		return int64(-1 << 63)
	}
	d := i.binop(token.MUL, i64, i64, diff, int64(1000000000))
	dn := i.binop(token.SUB, types.Typ[types.Int32], types.Typ[types.Int32], tn, un)
	d = i.binop(token.ADD, i64, i64, d, i.conv(i64, types.Typ[types.Int32], dn))
	return d
}

// ---- sync.Map model (its implementation is built on unsafe atomics)

func (i *interpreter) syncMapOf(p value) *omap {
	ptr := p.(*value)
	if i.syncMaps == nil {
		i.syncMaps = make(map[*value]*omap)
	}
	m := i.syncMaps[ptr]
	if m == nil {
		m = i.makeMap(types.NewInterfaceType(nil, nil))
		i.syncMaps[ptr] = m
	}
	return m
}

func init() {
	for k, v := range map[string]externalFn{
		"(*sync.Map).Load": func(fr *frame, a []value) value {
			v, ok := fr.i.syncMapOf(a[0]).lookup(a[1])
			if !ok {
				return tuple{iface{}, false}
			}
			return tuple{v, true}
		},
		"(*sync.Map).Store": func(fr *frame, a []value) value {
			fr.i.syncMapOf(a[0]).insert(a[1], a[2])
			return nil
		},
		"(*sync.Map).LoadOrStore": func(fr *frame, a []value) value {
			m := fr.i.syncMapOf(a[0])
			if v, ok := m.lookup(a[1]); ok {
				return tuple{v, true}
			}
			m.insert(a[1], a[2])
			return tuple{a[2], false}
		},
		"(*sync.Map).LoadAndDelete": func(fr *frame, a []value) value {
			m := fr.i.syncMapOf(a[0])
			v, ok := m.lookup(a[1])
			if !ok {
				return tuple{iface{}, false}
			}
			m.delete(a[1])
			return tuple{v, true}
		},
		"(*sync.Map).Delete": func(fr *frame, a []value) value {
			fr.i.syncMapOf(a[0]).delete(a[1])
			return nil
		},
		"(*sync.Map).Range": func(fr *frame, a []value) value {
			m := fr.i.syncMapOf(a[0])
			it := fr.i.rangeMap(m)
			for {
				t := it.next()
				if !t[0].(bool) {
					break
				}
				if !fr.i.truth(call(fr.i, fr, token.NoPos, a[1], []value{t[1], t[2]})) {
					break
				}
			}
			return nil
		},
	} {
		externals[k] = v
	}
}

// ---- math/rand: every outcome of a random pick is explored (bounded arity)

func (i *interpreter) randPick(n int64, what string) int64 {
	if n <= 1 {
		return 0
	}
	if n > 16 {
		// large ranges only matter for position/jitter decisions: take the
		// extremes and the middle
		return []int64{0, n / 2, n - 1}[i.choose(3, "rand:"+what)]
	}
	return int64(i.choose(int(n), "rand:"+what))
}

func init() {
	shuffle := func(fr *frame, n int, swap value) {
		for k := n - 1; k > 0; k-- {
			j := int(fr.i.randPick(int64(k+1), "shuffle"))
			call(fr.i, fr, token.NoPos, swap, []value{k, j})
		}
	}
	for k, v := range map[string]externalFn{
		"math/rand.Shuffle": func(fr *frame, a []value) value { shuffle(fr, a[0].(int), a[1]); return nil },
		"(*math/rand.Rand).Shuffle": func(fr *frame, a []value) value { shuffle(fr, a[1].(int), a[2]); return nil },
		"math/rand.Intn":   func(fr *frame, a []value) value { return int(fr.i.randPick(int64(a[0].(int)), "Intn")) },
		"math/rand.Int31n": func(fr *frame, a []value) value { return int32(fr.i.randPick(int64(a[0].(int32)), "Int31n")) },
		"math/rand.Int63n": func(fr *frame, a []value) value { return fr.i.randPick(a[0].(int64), "Int63n") },
		"(*math/rand.Rand).Intn": func(fr *frame, a []value) value { return int(fr.i.randPick(int64(a[1].(int)), "Intn")) },
		"(*math/rand.Rand).Int31n": func(fr *frame, a []value) value {
			return int32(fr.i.randPick(int64(a[1].(int32)), "Int31n"))
		},
		"(*math/rand.Rand).Int63n": func(fr *frame, a []value) value { return fr.i.randPick(a[1].(int64), "Int63n") },
		"math/rand.Int63":  func(fr *frame, a []value) value { return int64(0) },
		"math/rand.Uint32": func(fr *frame, a []value) value { return uint32(0) },
	} {
		externals[k] = v
	}
}

// binReadInto: encoding/binary.Read. Scalars, byte slices and byte arrays go
// to the interpreted verifrt.BinRead; a pointer to a struct (or to an array of
// non-byte elements) is read field by field in declaration order, as the
// reflection-based original does (fields named _ are skipped over).
func binReadInto(fr *frame, r, order, data value) value {
	binRead := fr.i.P.pkgByPath["verif/verifrt"].Func("BinRead")
	if d, ok := data.(iface); ok {
		if pt, ok := d.t.Underlying().(*types.Pointer); ok {
			if cell, ok := d.v.(*value); ok && cell != nil {
				switch et := pt.Elem().Underlying().(type) {
				case *types.Struct:
					if st, ok := (*cell).(structure); ok {
						for k := 0; k < et.NumFields(); k++ {
							f := et.Field(k)
							res := binReadInto(fr, r, order, iface{t: types.NewPointer(f.Type()), v: &st[k]})
							if e, isIface := res.(iface); isIface && e.t != nil {
								return res
							}
						}
						return iface{}
					}
				case *types.Array:
					if b, isBasic := et.Elem().Underlying().(*types.Basic); !isBasic || (b.Kind() != types.Uint8 && b.Kind() != types.Byte) {
						if arr, ok := (*cell).(array); ok {
							for k := range arr {
								res := binReadInto(fr, r, order, iface{t: types.NewPointer(et.Elem()), v: &arr[k]})
								if e, isIface := res.(iface); isIface && e.t != nil {
									return res
								}
							}
							return iface{}
						}
					}
				case *types.Basic:
					// a named scalar type (type AddressType uint8): hand the
					// interpreted reader a pointer to the underlying type
					if _, named := pt.Elem().(*types.Named); named {
						data = iface{t: types.NewPointer(et), v: d.v}
					}
				}
			}
		}
	}
	return call(fr.i, fr, token.NoPos, binRead, []value{r, order, data})
}
