package main

import (
	"fmt"
	"os"
	"time"
)

// runSelftest validates the translator: harnesses of verif/selftest are run
// by the executor; the ones that must hold must hold, the seeded bug must be
// found and must replay natively, and the differential corpus must agree with
// the native build.
func runSelftest() int {
	P, err := loadProgram([]string{"verif/selftest"})
	if err != nil {
		fmt.Fprintln(os.Stderr, err)
		return 2
	}
	lastProgram = P
	bad := 0
	run := func(name string, wantViolation bool) {
		fn, err := P.findFunc("verif/selftest", name)
		if err != nil {
			fmt.Println("selftest:", err)
			bad++
			return
		}
		cfg := defaultConfig()
		cfg.Harness = name
		cfg.PkgPath = "verif/selftest"
		t0 := time.Now()
		e := newExplorer(P, fn, cfg)
		e.Run()
		ok := len(e.inconclusive) == 0 && (len(e.violations) > 0) == wantViolation
		if ok && wantViolation {
			c, _, detail := confirmViolation(&e.violations[0], "SELFTEST", "verif/selftest", 0)
			if !c {
				ok = false
				fmt.Println("  seeded bug did not replay:", detail)
			}
		}
		if ok && !wantViolation {
			ev := newEvidence("SELFTEST", "quick")
			ev.validateWitnesses(e, hrun{Pkg: "verif/selftest", Fn: name}, "SELFTEST")
			if ev.WitnessMismatch > 0 {
				ok = false
			}
		}
		status := "ok"
		if !ok {
			status = "FAILED"
			bad++
			e.summary(os.Stdout, time.Since(t0))
		}
		fmt.Printf("selftest %-12s %s (paths=%d asserts=%d)\n", name, status, e.pathsDone, e.assertsDischarged)
	}
	for _, n := range selftestHold {
		run(n, false)
	}
	for _, n := range selftestBuggy {
		run(n, true)
	}
	if bad > 0 {
		fmt.Printf("selftest: %d failures\n", bad)
		return 1
	}
	fmt.Println("selftest: all passed")
	return 0
}

var selftestHold = []string{"Basic", "Index", "Unicode", "Alias", "BinStruct", "DB", "Corpus"}
var selftestBuggy = []string{"Buggy"}
