package main

// Path exploration by re-execution with a decision prefix (stateless DFS).

import (
	"encoding/json"
	"fmt"
	"go/token"
	"os"
	"sort"
	"strings"
	"sync"
	"sync/atomic"
	"time"

	"golang.org/x/tools/go/ssa"
)

type decision struct {
	Kind byte   // 'b' solver-decided branch (forked), 'f' forced branch, 'c' structural choice, 'v' concretised value
	N    int    // arity for 'c'
	V    uint64 // chosen alternative / value
	What string // label (checked on replay to detect nondeterminism)
}

type pathSpec struct {
	prefix []decision
}

type pathRun struct {
	prefix   []decision
	trace    []decision
	pos      int
	alts     []pathSpec
	reached  map[string]bool
	observe  map[string]string
	nondets  []nondetRec // declaration order
	choices  []int       // every structural choice (harness, schedule, range order)
	hchoices []int       // the harness' own verifrt.Choice calls only (what a native run consumes)
	knownHit bool        // a listed known finding was hit on this path (not a witness of agreement)
	asserts  int         // assertions discharged on this path
	trivial  int         // assertions that were concretely true
	queries  int
	samples  []string
}

type nondetRec struct {
	Name string
	W    int
	T    *Term
}

type Violation struct {
	Label      string            `json:"label"`
	Harness    string            `json:"harness"`
	Observe    map[string]string `json:"observe,omitempty"`
	Model      map[string]uint64 `json:"model"`
	Choices    []int             `json:"choices"`     // harness choices (native replay)
	AllChoices []int             `json:"all_choices"` // incl. schedule and range orders (executor replay)
	Trace      string            `json:"trace,omitempty"`
	Known      string            `json:"known,omitempty"`
	Replay     string            `json:"replay,omitempty"`
}

type Config struct {
	Harness       string // function name
	PkgPath       string
	Workers       int
	MaxSteps      int64
	MaxPaths      int64
	FeasTimeoutMs int
	AssertTimeout int
	Seed          int64
	RequireReach  []string
	CrossEvery    int64 // cross-check every n-th assertion query with cvc5 (0 = off)
	Known         []KnownFinding
	MaxViolations int
	Deadline      time.Time
	// FixedModel/FixedChoices turn the run into a deterministic concrete
	// re-execution of one counterexample.
	Witnesses    int
	FixedModel   map[string]uint64
	FixedChoices []int
	Verbose      bool
}

type Explorer struct {
	firstViolation time.Time // when the first (unlisted) counterexample of this harness was recorded
	P              *Program
	cfg            Config
	fn             *ssa.Function
	mu             sync.Mutex
	work           []pathSpec
	busy           int
	cond           *sync.Cond

	paths, pathsDone, infeasible    int64
	structForks, solverForks        int64
	forcedBranches                  int64
	assertsDischarged, assertsTriv  int64
	decisions                       int64
	steps                           int64
	inconclusive                    []string
	violations                      []Violation
	knownHits                       map[string]int
	reach                           map[string]int64
	funcInstrs                      map[string]int64
	stubs                           map[string]int
	samples                         []interface{}
	engineErr                       string
	stop                            int32
	assertQueries                   int64
	schedSwitches, schedTransitions int64
	witnesses                       []Witness
	sensMu                          sync.Mutex
	sensitive                       map[token.Pos]int
	sensChanged                     bool
	roundAbort                      int32
}

// Witness is the solver's model of one completed path (replayed natively to
// validate the executor against the real build).
type Witness struct {
	Model      map[string]uint64
	Choices    []int
	AllChoices []int
	Trace      string
}

func newExplorer(P *Program, fn *ssa.Function, cfg Config) *Explorer {
	e := &Explorer{P: P, cfg: cfg, fn: fn, knownHits: map[string]int{}, reach: map[string]int64{},
		funcInstrs: map[string]int64{}, stubs: map[string]int{}, sensitive: map[token.Pos]int{}}
	e.cond = sync.NewCond(&e.mu)
	return e
}

// Run explores all paths. If a round discovers a new arrival-order-sensitive
// channel (see sched.go) the exploration is repeated with that knowledge.
func (e *Explorer) Run() {
	for round := 0; round < 4; round++ {
		e.sensChanged = false
		e.runRound()
		if !e.sensChanged {
			return
		}
		// forget the round's results, keep the sensitivity table
		sens := e.sensitive
		fresh := newExplorer(e.P, e.fn, e.cfg)
		fresh.sensitive = sens
		*e = *fresh
		e.cond = sync.NewCond(&e.mu)
	}
	e.note("channel sensitivity table did not stabilise")
}

func (e *Explorer) runRound() {
	e.work = []pathSpec{{}}
	var wg sync.WaitGroup
	stopProgress := make(chan struct{})
	defer close(stopProgress)
	if e.cfg.Verbose || verbose {
		go func() {
			t := time.NewTicker(15 * time.Second)
			defer t.Stop()
			for {
				select {
				case <-stopProgress:
					return
				case <-t.C:
					e.mu.Lock()
					fmt.Fprintf(os.Stderr, "[symgo] %s: paths=%d done=%d queued=%d busy=%d solver: sat=%d unsat=%d unknown=%d intblast=%d (%.0fs)\n",
						e.cfg.Harness, atomic.LoadInt64(&e.paths), e.pathsDone, len(e.work), e.busy,
						atomic.LoadInt64(&gstats.Sat), atomic.LoadInt64(&gstats.Unsat), atomic.LoadInt64(&gstats.Unknown),
						atomic.LoadInt64(&gstats.IntBlast), float64(atomic.LoadInt64(&gstats.Nanos))/1e9)
					e.mu.Unlock()
				}
			}
		}()
	}
	for w := 0; w < e.cfg.Workers; w++ {
		wg.Add(1)
		go func(w int) {
			defer wg.Done()
			solver := newSolver()
			defer solver.Close()
			for {
				e.mu.Lock()
				for len(e.work) == 0 && e.busy > 0 && atomic.LoadInt32(&e.stop) == 0 && atomic.LoadInt32(&e.roundAbort) == 0 {
					e.cond.Wait()
				}
				if len(e.work) == 0 || atomic.LoadInt32(&e.stop) != 0 || atomic.LoadInt32(&e.roundAbort) != 0 {
					e.mu.Unlock()
					e.cond.Broadcast()
					return
				}
				spec := e.work[len(e.work)-1]
				e.work = e.work[:len(e.work)-1]
				e.busy++
				e.mu.Unlock()

				e.runPath(spec, solver)

				e.mu.Lock()
				e.busy--
				e.mu.Unlock()
				e.cond.Broadcast()
			}
		}(w)
	}
	wg.Wait()
}

func (e *Explorer) push(specs []pathSpec) {
	if len(specs) == 0 {
		return
	}
	e.mu.Lock()
	e.work = append(e.work, specs...)
	e.mu.Unlock()
	e.cond.Broadcast()
}

func (e *Explorer) newInterp(solver *Solver, spec pathSpec) *interpreter {
	i := &interpreter{
		P:          e.P,
		prog:       e.P.prog,
		globals:    make(map[*ssa.Global]*value),
		inited:     make(map[*ssa.Package]bool),
		tt:         newTermTable(),
		solver:     solver,
		maxSteps:   e.cfg.MaxSteps,
		pcSet:      make(map[*Term]bool),
		native:     make(map[*value]interface{}),
		funcInstrs: make(map[*ssa.Function]int64),
		stubsHit:   make(map[string]int),
		store:      make(map[string]value),
	}
	i.run = &pathRun{prefix: spec.prefix, reached: map[string]bool{}, observe: map[string]string{}}
	i.sch = newSched(i)
	i.ex = e
	return i
}

func (e *Explorer) runPath(spec pathSpec, solver *Solver) {
	e.sensMu.Lock()
	changed := e.sensChanged
	e.sensMu.Unlock()
	if changed {
		// the round is going to be repeated with the new sensitivity table
		atomic.StoreInt32(&e.roundAbort, 1)
		return
	}
	if e.cfg.MaxPaths > 0 && atomic.LoadInt64(&e.paths) >= e.cfg.MaxPaths {
		e.note("path budget exhausted")
		atomic.StoreInt32(&e.stop, 1)
		return
	}
	if !e.cfg.Deadline.IsZero() && time.Now().After(e.cfg.Deadline) {
		e.note("time budget exhausted")
		atomic.StoreInt32(&e.stop, 1)
		return
	}
	// a counterexample is the verdict: keep looking for further, different
	// ones for a while (they help triage), not until the whole space - which
	// a defect may have blown up - is exhausted
	e.mu.Lock()
	fv := e.firstViolation
	e.mu.Unlock()
	if !fv.IsZero() && time.Since(fv) > violationGrace {
		e.note("stopped " + violationGrace.String() + " after the first counterexample of this harness (exploration not exhaustive)")
		atomic.StoreInt32(&e.stop, 1)
		return
	}
	atomic.AddInt64(&e.paths, 1)
	solver.Reset()
	i := e.newInterp(solver, spec)
	status := "done"
	func() {
		defer func() {
			r := recover()
			if r == nil {
				return
			}
			r = classifyPanic(r)
			switch p := r.(type) {
			case pathEnd:
				status = p.reason
			case unsupportedErr:
				status = "inconclusive"
				e.note("unsupported: " + string(p) + i.whereAmI())
			case engineBug:
				status = "inconclusive"
				e.note("engine bug: " + string(p))
			default:
				// uncaught target panic in the harness goroutine
				status = "violation"
				func() {
					defer func() { recover() }()
					i.violation("uncaught panic: "+i.panicString(r), nil)
				}()
			}
		}()
		callSSA(i, nil, 0, e.fn, nil, nil)
		e.mu.Lock()
		wantW := 3
		if e.cfg.Witnesses > 0 {
			wantW = e.cfg.Witnesses
		}
		need := len(e.witnesses) < wantW || (e.cfg.Witnesses > 3 && e.pathsDone%97 == 0 && len(e.witnesses) < 4*wantW)
		e.mu.Unlock()
		if need && !i.run.knownHit {
			res, m := i.solver.Check(nil, e.cfg.AssertTimeout, i.tt.vars)
			if res == "sat" {
				w := Witness{Model: map[string]uint64{}, Choices: append([]int{}, i.run.hchoices...), AllChoices: append([]int{}, i.run.choices...), Trace: strings.Join(i.run.samples, "; ")}
				for _, t := range i.tt.vars {
					w.Model[t.Name] = m[t.Name]
				}
				e.mu.Lock()
				e.witnesses = append(e.witnesses, w)
				e.mu.Unlock()
			}
		}
	}()
	i.sch.killAll()
	// bookkeeping
	e.mu.Lock()
	defer e.mu.Unlock()
	e.work = append(e.work, i.run.alts...)
	e.steps += i.steps
	e.decisions += int64(len(i.run.trace))
	e.schedSwitches += int64(i.sch.stats.switches)
	e.schedTransitions += int64(i.sch.stats.transitions)
	for _, d := range i.run.trace[min(len(spec.prefix), len(i.run.trace)):] {
		switch d.Kind {
		case 'b':
			e.solverForks++
		case 'f':
			e.forcedBranches++
		case 'c', 'v':
			e.structForks++
		}
	}
	for f, n := range i.funcInstrs {
		e.funcInstrs[f.String()] += n
	}
	for s, n := range i.stubsHit {
		e.stubs[s] += n
	}
	switch status {
	case "done", "done-scope":
		e.pathsDone++
		e.assertsDischarged += int64(i.run.asserts)
		e.assertsTriv += int64(i.run.trivial)
		for l := range i.run.reached {
			e.reach[l]++
		}
		if len(e.samples) < 3 || (e.pathsDone%997 == 0 && len(e.samples) < 8) {
			e.samples = append(e.samples, i.pathSample())
		}
	case "infeasible":
		e.infeasible++
	case "violation":
		e.assertsDischarged += int64(i.run.asserts)
	case "inconclusive":
	}
	if len(e.violations) >= e.cfg.MaxViolations && e.cfg.MaxViolations > 0 {
		atomic.StoreInt32(&e.stop, 1)
	}
	if len(e.inconclusive) > 20 {
		atomic.StoreInt32(&e.stop, 1)
	}
}

// violationGrace: how long a harness keeps exploring after its first
// counterexample.
var violationGrace = func() time.Duration {
	if os.Getenv("SYMGO_FAIL_FAST") != "" {
		return 10 * time.Second
	}
	return 90 * time.Second
}()

func (e *Explorer) note(msg string) {
	e.mu.Lock()
	defer e.mu.Unlock()
	for _, m := range e.inconclusive {
		if m == msg {
			return
		}
	}
	if len(msg) > 4000 {
		msg = msg[:4000]
	}
	e.inconclusive = append(e.inconclusive, msg)
}

func (i *interpreter) whereAmI() string {
	return ""
}

func (i *interpreter) pathSample() interface{} {
	var ch []int
	for _, d := range i.run.trace {
		if d.Kind == 'c' {
			ch = append(ch, int(d.V))
		}
	}
	var nd []string
	for _, n := range i.run.nondets {
		nd = append(nd, n.Name)
	}
	var rl []string
	for l := range i.run.reached {
		rl = append(rl, l)
	}
	sort.Strings(rl)
	return map[string]interface{}{
		"choices": ch, "symbolic_inputs": nd, "decisions": len(i.run.trace),
		"assertions_discharged": i.run.asserts, "reached": rl, "ops": i.run.samples,
	}
}

// ------------------------------------------------------------- decisions

func (i *interpreter) nextPrefix(kind string, what string) (decision, bool) {
	r := i.run
	if r.pos < len(r.prefix) {
		d := r.prefix[r.pos]
		r.pos++
		if !strings.ContainsRune(kind, rune(d.Kind)) {
			panic(engineBug(fmt.Sprintf("replay diverged at decision %d: have %c(%s) want %s(%s)", r.pos-1, d.Kind, d.What, kind, what)))
		}
		return d, true
	}
	return decision{}, false
}

// decide resolves a symbolic condition to a concrete branch.
func (i *interpreter) decide(c *Term) bool {
	if c.IsConst() {
		return c.Val == 1
	}
	r := i.run
	if d, ok := i.nextPrefix("bf", ""); ok {
		r.trace = append(r.trace, d)
		if d.Kind == 'b' {
			if d.V == 1 {
				i.assertPC(c)
			} else {
				i.assertPC(i.tt.BNot(c))
			}
		}
		return d.V == 1
	}
	nc := i.tt.BNot(c)
	// syntactically implied by the path condition?
	if i.pcSet[c] {
		r.trace = append(r.trace, decision{Kind: 'f', V: 1})
		return true
	}
	if i.pcSet[nc] {
		r.trace = append(r.trace, decision{Kind: 'f', V: 0})
		return false
	}
	cfg := &i.ex.cfg
	// the last model of the path condition tells one feasible side for free
	r1, r2 := "", ""
	if i.model != nil {
		if c.eval(i.model, i.evalMemo()) == 1 {
			r1 = "sat"
		} else {
			r2 = "sat"
		}
	}
	var m1 map[string]uint64
	if r1 == "" {
		r.queries++
		r1, m1 = i.feas(c, cfg.FeasTimeoutMs)
		if r1 == "unsat" {
			r.trace = append(r.trace, decision{Kind: 'f', V: 0})
			return false
		}
	}
	if r2 == "" {
		r.queries++
		var m2 map[string]uint64
		r2, m2 = i.feas(nc, cfg.FeasTimeoutMs)
		if r2 == "unsat" {
			r.trace = append(r.trace, decision{Kind: 'f', V: 1})
			return true
		}
		_ = m2
	}
	// both sides feasible (or unknown): fork
	alt := append(append([]decision{}, r.trace...), decision{Kind: 'b', V: 0})
	i.ex.push([]pathSpec{{alt}})
	r.trace = append(r.trace, decision{Kind: 'b', V: 1})
	if m1 != nil {
		i.setModel(m1)
	}
	i.assertPC(c)
	return true
}

// feas decides feasibility of pc ∧ c; queries with hard arithmetic (in c or
// already in the path condition) go to cvc5's integer encoding.
func (i *interpreter) feas(c *Term, timeoutMs int) (string, map[string]uint64) {
	if i.pcHard > 0 || hardArith(c, map[*Term]bool{}) {
		if res, m, ok := i.solver.intMode(i.tt, c, time.Duration(timeoutMs)*time.Millisecond*2); ok && res != "unknown" {
			return res, m
		}
		res, m := i.solver.intBlast(c, i.tt.vars, time.Duration(timeoutMs)*time.Millisecond*2)
		if res != "unknown" {
			return res, m
		}
	}
	res, m := i.solver.Check(c, timeoutMs, i.tt.vars)
	if res == "unknown" {
		// sums and differences of several symbolic 64-bit values with signed
		// comparisons can stall bit-blasting just like multiplication does:
		// try the integer encoding (refused unless interval analysis shows
		// that machine and mathematical semantics coincide)
		if r2, m2, ok := i.solver.intMode(i.tt, c, time.Duration(timeoutMs)*time.Millisecond*2); ok && r2 != "unknown" {
			atomic.AddInt64(&gstats.IntRescued, 1)
			return r2, m2
		}
	}
	return res, m
}

// assertPC adds c to the path condition and keeps the cached model honest.
func (i *interpreter) assertPC(c *Term) {
	i.solver.Assert(c)
	if hardArith(c, map[*Term]bool{}) {
		i.pcHard++
		if n := len(i.scopes); n > 0 {
			i.scopeHard[n-1]++
		}
	}
	if len(i.scopes) == 0 {
		i.pcSet[c] = true
	} else {
		i.scopePC[len(i.scopes)-1] = append(i.scopePC[len(i.scopes)-1], c)
		i.pcSet[c] = true
	}
	if i.model != nil && c.eval(i.model, i.evalMemo()) != 1 {
		i.model = nil
	}
}

func (i *interpreter) setModel(m map[string]uint64) {
	i.model = m
	i.memo = nil
}

func (i *interpreter) evalMemo() map[*Term]uint64 {
	if i.memo == nil {
		i.memo = make(map[*Term]uint64)
	}
	return i.memo
}

// choose picks one of n structural alternatives (operation, schedule, order).
func (i *interpreter) choose(n int, what string) int {
	if n <= 1 {
		return 0
	}
	r := i.run
	if i.ex.cfg.FixedModel != nil {
		k := len(r.choices)
		c := 0
		if k < len(i.ex.cfg.FixedChoices) {
			c = i.ex.cfg.FixedChoices[k]
		}
		if c >= n {
			panic(pathEnd{"replay-diverged"})
		}
		r.choices = append(r.choices, c)
		if strings.HasPrefix(what, "h:") {
			r.hchoices = append(r.hchoices, c)
		}
		return c
	}
	if d, ok := i.nextPrefix("c", what); ok {
		if d.N != n {
			panic(engineBug(fmt.Sprintf("replay diverged: choice arity %d vs %d (%s/%s)", d.N, n, d.What, what)))
		}
		r.trace = append(r.trace, d)
		r.choices = append(r.choices, int(d.V))
		if strings.HasPrefix(what, "h:") {
			r.hchoices = append(r.hchoices, int(d.V))
		}
		return int(d.V)
	}
	for k := n - 1; k >= 1; k-- {
		alt := append(append([]decision{}, r.trace...), decision{Kind: 'c', N: n, V: uint64(k), What: what})
		i.ex.push([]pathSpec{{alt}})
	}
	r.trace = append(r.trace, decision{Kind: 'c', N: n, V: 0, What: what})
	r.choices = append(r.choices, 0)
	if strings.HasPrefix(what, "h:") {
		r.hchoices = append(r.hchoices, 0)
	}
	return 0
}

// concretize forks over the feasible values of t.
func (i *interpreter) concretize(t *Term, what string) uint64 {
	if t.IsConst() {
		return t.Val
	}
	r := i.run
	for n := 0; ; n++ {
		if n > 64 {
			i.unsupported("more than 64 feasible values for symbolic " + what)
		}
		var v uint64
		if d, ok := i.nextPrefix("v", what); ok {
			r.trace = append(r.trace, d)
			v = d.V
		} else {
			r.queries++
			res, m := i.solver.Check(nil, i.ex.cfg.AssertTimeout, []*Term{t})
			if res != "sat" {
				if res == "unsat" {
					panic(pathEnd{"infeasible"})
				}
				i.unsupported("solver unknown while concretising " + what)
			}
			v = t.eval(m, map[*Term]uint64{})
			r.trace = append(r.trace, decision{Kind: 'v', V: v, What: what})
		}
		if i.decide(i.tt.Cmp(OpEq, t, i.tt.Const(t.W, v))) {
			return v
		}
	}
}

// scopeBegin/scopeEnd implement verifrt.Scope.
func (i *interpreter) scopeBegin() {
	i.scopes = append(i.scopes, len(i.run.trace))
	i.scopePC = append(i.scopePC, nil)
	i.scopeHard = append(i.scopeHard, 0)
	i.solver.Push()
}

func (i *interpreter) scopeEnd() {
	start := i.scopes[len(i.scopes)-1]
	i.scopes = i.scopes[:len(i.scopes)-1]
	for _, c := range i.scopePC[len(i.scopePC)-1] {
		delete(i.pcSet, c)
	}
	i.scopePC = i.scopePC[:len(i.scopePC)-1]
	i.impliedCache = nil
	i.pcHard -= i.scopeHard[len(i.scopeHard)-1]
	i.scopeHard = i.scopeHard[:len(i.scopeHard)-1]
	i.solver.Pop()
	for _, d := range i.run.trace[start:] {
		if (d.Kind == 'b' && d.V == 0) || (d.Kind == 'c' && d.V > 0) {
			panic(pathEnd{"done-scope"})
		}
	}
}

// assume adds c to the path condition; ends the path if infeasible.
func (i *interpreter) assume(c *Term) {
	if c.IsTrue() {
		return
	}
	if c.IsFalse() {
		panic(pathEnd{"infeasible"})
	}
	r := i.run
	if d, ok := i.nextPrefix("a", ""); ok {
		r.trace = append(r.trace, d)
		i.assertPC(c)
		return
	}
	if i.model != nil && c.eval(i.model, i.evalMemo()) == 1 {
		// the cached model already satisfies c
	} else {
		r.queries++
		res, m := i.feas(c, i.ex.cfg.FeasTimeoutMs)
		if res == "unsat" {
			panic(pathEnd{"infeasible"})
		}
		if res == "sat" {
			i.setModel(m)
		} else {
			i.model = nil
		}
	}
	r.trace = append(r.trace, decision{Kind: 'a'})
	i.assertPC(c)
}

// ------------------------------------------------------------- assertions

type KnownFinding struct {
	Property string            `json:"property"`
	Harness  string            `json:"harness,omitempty"`
	Label    string            `json:"label"`
	Observe  map[string]string `json:"observe,omitempty"`
	What     string            `json:"what"`
	Status   string            `json:"status,omitempty"` // "known" or "fixed"
	Commit   string            `json:"commit,omitempty"`
}

func (i *interpreter) matchKnown(label string) *KnownFinding {
	for k := range i.ex.cfg.Known {
		kf := &i.ex.cfg.Known[k]
		if kf.Status == "fixed" {
			continue
		}
		if strings.HasSuffix(kf.Label, "*") {
			if !strings.HasPrefix(label, strings.TrimSuffix(kf.Label, "*")) {
				continue
			}
		} else if kf.Label != label {
			continue
		}
		if kf.Harness != "" && kf.Harness != i.ex.cfg.Harness {
			continue
		}
		ok := true
		for key, want := range kf.Observe {
			// "a|b" lists alternatives
			hit := false
			for _, alt := range strings.Split(want, "|") {
				if i.run.observe[key] == alt {
					hit = true
				}
			}
			if !hit {
				ok = false
			}
		}
		if ok {
			return kf
		}
	}
	return nil
}

// check handles verifrt.Assert.
func (i *interpreter) check(c value, label string) {
	r := i.run
	switch c := c.(type) {
	case bool:
		if c {
			r.asserts++
			r.trivial++
			return
		}
		i.violation(label, i.tt.Bool(true))
		return
	case *Term:
		if d, ok := i.nextPrefix("A", label); ok {
			r.trace = append(r.trace, d)
			if d.V == 1 {
				i.assertPC(c)
			}
			return
		}
		atomic.AddInt64(&i.ex.assertQueries, 1)
		if c2 := i.resolveItes(c); c2.IsTrue() {
			r.asserts++
			r.trace = append(r.trace, decision{Kind: 'A', V: 0, What: label})
			return
		} else if !c2.IsFalse() {
			c = c2
		}
		nc := i.tt.BNot(c)
		vars := i.modelVars()
		r.queries++
		var res string
		var m map[string]uint64
		if i.pcHard > 0 || hardArith(nc, map[*Term]bool{}) {
			// non-linear / division kernels: integer encodings first
			var ok bool
			res, m, ok = i.solver.intMode(i.tt, nc, 30*time.Second)
			if !ok || res == "unknown" {
				res, m = i.solver.intBlast(nc, vars, 30*time.Second)
			}
			if res == "unknown" {
				res, m = i.solver.Check(nc, i.ex.cfg.AssertTimeout, vars)
			}
		} else {
			res, m = i.solver.Check(nc, i.ex.cfg.AssertTimeout, vars)
		}
		if res == "unknown" {
			res, m = i.solver.escalate(nc, vars)
		}
		if n := i.ex.cfg.CrossEvery; n > 0 && res != "unknown" && atomic.LoadInt64(&i.ex.assertQueries)%n == 0 {
			i.solver.crossCheck(nc, res)
		}
		switch res {
		case "unsat":
			r.asserts++
			r.trace = append(r.trace, decision{Kind: 'A', V: 0, What: label})
			return
		case "sat":
			i.reportViolation(label, m)
			// keep exploring the rest of the path under the assertion
			res2, _ := i.solver.Check(c, i.ex.cfg.FeasTimeoutMs, nil)
			if res2 == "unsat" {
				panic(pathEnd{"violation"})
			}
			r.trace = append(r.trace, decision{Kind: 'A', V: 1, What: label})
			i.assertPC(c)
			return
		default:
			i.ex.note("solver returned unknown for assertion " + label)
			panic(pathEnd{"inconclusive"})
		}
	}
	panic(engineBug(fmt.Sprintf("Assert on %T", c)))
}

func (i *interpreter) modelVars() []*Term {
	return i.tt.vars
}

// violation reports a violation that holds on the whole current path
// (concrete false assertion, panic, deadlock).
func (i *interpreter) violation(label string, _ *Term) {
	if i.run.pos < len(i.run.prefix) {
		// replaying a prefix: already reported by the path that discovered it
		if kf := i.matchKnown(label); kf != nil {
			return
		}
		panic(pathEnd{"violation"})
	}
	vars := i.modelVars()
	res, m := i.solver.Check(nil, i.ex.cfg.AssertTimeout, vars)
	if res == "unsat" {
		panic(pathEnd{"infeasible"})
	}
	if res == "unknown" {
		res, m = i.solver.escalate(nil, vars)
		if res != "sat" {
			i.ex.note("solver returned unknown for path feasibility at violation " + label)
			panic(pathEnd{"inconclusive"})
		}
	}
	i.reportViolation(label, m)
	if kf := i.matchKnown(label); kf != nil {
		// a listed finding does not end the path
		return
	}
	panic(pathEnd{"violation"})
}

func (i *interpreter) reportViolation(label string, m map[string]uint64) {
	e := i.ex
	v := Violation{Label: label, Harness: e.cfg.Harness, Model: map[string]uint64{}, Observe: map[string]string{}}
	for k, val := range i.run.observe {
		v.Observe[k] = val
	}
	for _, nd := range i.run.nondets {
		if nd.T.Op == OpVar {
			v.Model[nd.Name] = m[nd.T.Name]
		}
	}
	for _, t := range i.tt.vars {
		if _, ok := v.Model[t.Name]; !ok {
			v.Model[t.Name] = m[t.Name]
		}
	}
	v.Choices = append([]int{}, i.run.hchoices...)
	v.AllChoices = append([]int{}, i.run.choices...)
	v.Trace = strings.Join(i.run.samples, "; ")
	if kf := i.matchKnown(label); kf != nil {
		v.Known = kf.What
		i.run.knownHit = true
	}
	e.mu.Lock()
	defer e.mu.Unlock()
	if v.Known != "" {
		e.knownHits[v.Known]++
		return
	}
	// keep one violation per label (+ observe signature)
	sig := label + fmt.Sprint(v.Observe)
	for _, old := range e.violations {
		if old.Label+fmt.Sprint(old.Observe) == sig {
			return
		}
	}
	if len(e.violations) == 0 {
		e.firstViolation = time.Now()
	}
	e.violations = append(e.violations, v)
}

func writeJSON(path string, v interface{}) error {
	b, err := json.MarshalIndent(v, "", " ")
	if err != nil {
		return err
	}
	return os.WriteFile(path, append(b, '\n'), 0o644)
}

// implied decides whether the path condition implies c (1), implies ¬c (0)
// or neither (-1), with at most two small queries, cached per term.
func (i *interpreter) implied(c *Term) int {
	if c.IsConst() {
		return int(c.Val)
	}
	if i.pcSet[c] {
		return 1
	}
	if i.pcSet[i.tt.BNot(c)] {
		return 0
	}
	if v, ok := i.impliedCache[c]; ok {
		return v
	}
	res := -1
	canBeTrue, canBeFalse := true, true
	if i.model != nil {
		// the cached model witnesses one side
		if c.eval(i.model, i.evalMemo()) == 1 {
			r, _ := i.solver.Check(i.tt.BNot(c), i.ex.cfg.FeasTimeoutMs, nil)
			canBeFalse = r != "unsat"
		} else {
			r, _ := i.solver.Check(c, i.ex.cfg.FeasTimeoutMs, nil)
			canBeTrue = r != "unsat"
		}
	} else {
		r, _ := i.solver.Check(c, i.ex.cfg.FeasTimeoutMs, nil)
		canBeTrue = r != "unsat"
		if canBeTrue {
			r, _ = i.solver.Check(i.tt.BNot(c), i.ex.cfg.FeasTimeoutMs, nil)
			canBeFalse = r != "unsat"
		}
	}
	i.run.queries++
	switch {
	case canBeTrue && !canBeFalse:
		res = 1
	case !canBeTrue && canBeFalse:
		res = 0
	}
	if i.impliedCache == nil {
		i.impliedCache = make(map[*Term]int)
	}
	i.impliedCache[c] = res
	return res
}

// resolveItes rewrites t replacing every ite whose condition the path
// condition decides by the selected branch (sound under the path condition).
func (i *interpreter) resolveItes(t *Term) *Term {
	memo := make(map[*Term]*Term)
	budget := 64
	var rec func(t *Term) *Term
	rec = func(t *Term) *Term {
		if t.Op == OpConst || t.Op == OpVar {
			return t
		}
		if r, ok := memo[t]; ok {
			return r
		}
		tt := i.tt
		var r *Term
		switch t.Op {
		case OpIte:
			if t.W > 0 && budget > 0 {
				budget--
				switch i.implied(t.A) {
				case 1:
					r = rec(t.B)
				case 0:
					r = rec(t.C)
				}
			}
			if r == nil {
				r = tt.Ite(t.A, rec(t.B), rec(t.C))
			}
		case OpAdd, OpSub, OpMul, OpUDiv, OpSDiv, OpURem, OpSRem, OpAnd, OpOr, OpXor, OpShl, OpLShr, OpAShr:
			r = tt.Bin(t.Op, rec(t.A), rec(t.B))
		case OpEq, OpUlt, OpUle, OpSlt, OpSle:
			r = tt.Cmp(t.Op, rec(t.A), rec(t.B))
		case OpBAnd:
			r = tt.BAnd(rec(t.A), rec(t.B))
		case OpBOr:
			r = tt.BOr(rec(t.A), rec(t.B))
		case OpBNot:
			r = tt.BNot(rec(t.A))
		case OpNot:
			r = tt.Not(rec(t.A))
		case OpNeg:
			r = tt.Neg(rec(t.A))
		case OpConcat:
			r = tt.Concat(rec(t.A), rec(t.B))
		case OpExtract:
			r = tt.Extract(rec(t.A), int(t.Val>>8), int(t.Val&0xff))
		case OpZExt:
			r = tt.ZExt(rec(t.A), t.W)
		case OpSExt:
			r = tt.SExt(rec(t.A), t.W)
		default:
			r = t
		}
		memo[t] = r
		return r
	}
	return rec(t)
}
