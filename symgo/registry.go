package main

// The registered checks: which harnesses run for which property and tier.

func init() {
	reg(&propDef{
		ID: "C14",
		Runs: []hrun{
			{Pkg: wtxmgrPkg, Fn: "ZzC14Sort2", Tiers: "qt", Reach: []string{"c14-end", "c14-has-edge", "c14-multi-edge"}, Bound: "all spend DAGs on 2 transactions with <=2 inputs each x every order of both map ranges"},
			{Pkg: wtxmgrPkg, Fn: "ZzC14Sort3", Tiers: "qt", Reach: []string{"c14-end", "c14-has-edge", "c14-multi-edge"}, Bound: "all spend DAGs on 3 transactions (<=2 inputs each: external, any earlier tx, second edge to the same parent) x every order of both map ranges"},
			{Pkg: wtxmgrPkg, Fn: "ZzC14Sort4", Tiers: "t", Reach: []string{"c14-end", "c14-multi-edge"}, Bound: "all spend DAGs on 4 transactions x every order of both map ranges (331776 paths)"},
		},
		Outside: "more than 4 transactions, more than 2 inputs per transaction; here graph shapes and map orders are enumerated exhaustively (structural forks), no data is symbolic",
	})
	reg(&propDef{
		ID: "C01",
		Runs: []hrun{
			{Pkg: wtxmgrPkg, Fn: "ZzC01U1L3", Tiers: "qt", Reach: []string{"c01-end", "reorg", "repeat"}, Bound: "universe U1 (chain A->B->C, 5 outputs, 4 credits), every chain-consistent history of 3 events; amounts, minConf, syncHeight, maturity symbolic"},
		},
		Assume:  []string{"memdb models bbolt through walletdb (contract in memdb.go)", "tokenised SHA-256 (collision-free) for transaction hashes over symbolic amounts"},
		Outside: "histories longer than the bound, universes other than the listed ones, syncHeight > 2^30, sums of amounts beyond int64",
	})
}
