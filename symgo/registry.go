package main

// The registered checks: which harnesses run for which property and tier.

func init() {
	reg(&propDef{
		ID: "C14",
		Runs: []hrun{
			{Pkg: wtxmgrPkg, Fn: "ZzC14Sort2", MapOrder: true, Tiers: "qt", Reach: []string{"c14-end", "c14-has-edge", "c14-multi-edge"}, Bound: "all spend DAGs on 2 transactions with <=2 inputs each x every order of both map ranges"},
			{Pkg: wtxmgrPkg, Fn: "ZzC14Sort3", MapOrder: true, Tiers: "qt", Reach: []string{"c14-end", "c14-has-edge", "c14-multi-edge"}, Bound: "all spend DAGs on 3 transactions (<=2 inputs each: external, any earlier tx, second edge to the same parent) x every order of both map ranges"},
			{Pkg: wtxmgrPkg, Fn: "ZzC14Store2", MapOrder: true, Tiers: "qt", Reach: []string{"c14-end", "c14-has-edge", "c14-multi-edge", "c14-parent-without-credit"}, Bound: "the same DAGs on 2 transactions recorded as unconfirmed transactions of a real Store over memdb, each with none / the first / both outputs credited to the wallet, then Store.UnminedTxs under every order of every map range"},
			{Pkg: wtxmgrPkg, Fn: "ZzC14Shapes", MapOrder: true, Tiers: "qt", Reach: []string{"c14-end", "c14-has-edge"}, Bound: "six fixed graphs on 4 and 5 transactions with several transactions ready at once and parents releasing up to three children (two roots with children on one of them, a star, a double diamond, a two-level tree) x every order of both map ranges"},
			{Pkg: wtxmgrPkg, Fn: "ZzC14StoreConcurrent", Tiers: "qt", Sched: true, Reach: []string{"c14-end"}, Bound: "Store.UnminedTxs read in its own transaction while a writer is between recording a child transaction and committing (every interleaving with at most 2 preemptions); afterwards the list is complete and ordered"},
			{Pkg: wtxmgrPkg, Fn: "ZzC14ShapesAll", MapOrder: true, Tiers: "t", Reach: []string{"c14-end"}, Bound: "the same plus two roots with two children each (6 transactions, 518400 orders)"},
			{Pkg: wtxmgrPkg, Fn: "ZzC14Store3", MapOrder: true, Tiers: "t", Reach: []string{"c14-end", "c14-multi-edge", "c14-parent-without-credit"}, Bound: "Store.UnminedTxs, DAGs on 3 transactions x credited-output choices x map orders (209952 paths)"},
			{Pkg: wtxmgrPkg, Fn: "ZzC14Sort4", MapOrder: true, Tiers: "t", Reach: []string{"c14-end", "c14-multi-edge"}, Bound: "all spend DAGs on 4 transactions x every order of both map ranges (331776 paths)"},
		},
		Outside: "all graphs on more than 4 transactions (beyond the listed fixed shapes), more than 2 inputs per transaction; here graph shapes and map orders are enumerated exhaustively (structural forks), no data is symbolic",
	})
	reg(&propDef{
		ID: "C01",
		Runs: []hrun{
			{Pkg: wtxmgrPkg, Fn: "ZzC01U1L3", Tiers: "qt", Reach: []string{"c01-end", "reorg", "repeat"}, Bound: "universe U1 (chain A->B->C, 5 outputs, 4 credits), every chain-consistent history of 3 events; amounts, minConf, syncHeight, maturity symbolic"},
			{Pkg: wtxmgrPkg, Fn: "ZzC12MinedL2", Tiers: "qt", Reach: []string{"c12-end", "leased"}, Bound: "the lease clause of the balance: C12's lease harness (2 events, symbolic clock, minConf and syncHeight) - label c12-balance is C01's balance equation with leases"},
			{Pkg: wtxmgrPkg, Fn: "ZzC01U7L3", Tiers: "qt", Reach: []string{"c01-end", "reorg"}, Bound: "U7 (coinbase with a foreign output 0 and a credit at index 1, a known spender of each), 3 events"},
			{Pkg: wtxmgrPkg, Fn: "ZzC01U9P3L2", Tiers: "qt", Reach: []string{"c01-end", "reorg"}, Bound: "U9 (A with two credits; B spends A:0; its replacement B' spends A:0 and A:1; M spends A:1) after the fixed preamble 'A confirmed, B seen, B' seen' (two conflicting unconfirmed spenders of one credit known at once), then every history of 2 events"},
			{Pkg: walletPkg, Fn: "ZzC01Wallet", Tiers: "qt", Reach: []string{"c01w-end", "several-listed"}, Bound: "wallet level: a real Wallet with nine differently situated credits (confirmed early/late, other scope, unconfirmed, coinbase, spent by an unconfirmed tx, user-locked, leased, other account): Wallet.CalculateBalance for SYMBOLIC minconf and coinbase maturity, Wallet.ListUnspent for 3x3 confirmation ranges (concrete seed; the chain backend is a harness model)"},
			{Pkg: wtxmgrPkg, Fn: "ZzC01U8L3", Tiers: "t", Reach: []string{"c01-end"}, Bound: "U8 (P pays wallet and stranger, R spends the stranger's output back to the wallet, P' conflicts with P), 3 events"},
			{Pkg: wtxmgrPkg, Fn: "ZzC01U3L3", Tiers: "t", Reach: []string{"c01-end", "reorg"}, Bound: "U3 (conflicting spenders), 3 events"},
			{Pkg: wtxmgrPkg, Fn: "ZzC01U4L3", Tiers: "t", Reach: []string{"c01-end", "reorg"}, Bound: "U4 (coinbase and its descendants), 3 events"},
			{Pkg: wtxmgrPkg, Fn: "ZzC01U1L4", Tiers: "t", Reach: []string{"c01-end", "reorg"}, Bound: "U1, 4 events"},
		},
		Assume:  []string{"memdb models bbolt through walletdb (contract in memdb.go)", "tokenised SHA-256 (collision-free) for transaction hashes over symbolic amounts"},
		Outside: "histories longer than the bound, universes other than the listed ones, syncHeight > 2^30, sums of amounts beyond int64",
	})
	storeAssume := []string{"memdb models bbolt through walletdb (contract in memdb/memdb.go; differential-tested against walletdb/bdb)", "tokenised SHA-256 (collision-free) for transaction hashes over symbolic amounts", "events are delivered the way wallet.addRelevantTx does: InsertTx followed by AddCredit for every credited output"}
	reg(&propDef{
		ID: "C02",
		Runs: []hrun{
			{Pkg: wtxmgrPkg, Fn: "ZzC02U3L3", Tiers: "qt", Reach: []string{"c02-end", "reorg"}, Bound: "U3 (A; conflicting B, B' spend A:0; D spends B:0), histories of 3 events; ledger compared after every event, direct reconstruction at the end"},
			{Pkg: wtxmgrPkg, Fn: "ZzC02U4L3", Tiers: "qt", Reach: []string{"c02-end", "reorg"}, Bound: "U4 (coinbase CB, S spends CB:0, S2 spends S:0), histories of 3 events"},
			{Pkg: wtxmgrPkg, Fn: "ZzC02U7L3", Tiers: "qt", Reach: []string{"c02-end", "reorg"}, Bound: "U7 (coinbase: foreign output 0, credit at index 1, spenders of both), 3 events"},
			{Pkg: wtxmgrPkg, Fn: "ZzC02U8L3", Tiers: "qt", Reach: []string{"c02-end", "reorg"}, Bound: "U8 (descendant through a non-credit output; conflicting P'), 3 events"},
			{Pkg: wtxmgrPkg, Fn: "ZzC02U5L3", Tiers: "qt", Reach: []string{"c02-end", "reorg"}, Bound: "U5 (B spends both credits of A: a spender with two debits), 3 events"},
			{Pkg: wtxmgrPkg, Fn: "ZzC02U9P3L2", Tiers: "t", Reach: []string{"c02-end", "reorg"}, Bound: "U9 after the preamble 'A confirmed, B and conflicting B' both unconfirmed', 2 events"},
			{Pkg: wtxmgrPkg, Fn: "ZzC02U1zL3", Tiers: "t", Reach: []string{"c02-end"}, Bound: "U1 with amounts of the first transaction allowed to be zero, 3 events"},
			{Pkg: wtxmgrPkg, Fn: "ZzC02U1L3", Tiers: "t", Reach: []string{"c02-end"}, Bound: "U1 chain, 3 events"},
			{Pkg: wtxmgrPkg, Fn: "ZzC02U3L4", Tiers: "t", Reach: []string{"c02-end"}, Bound: "U3, 4 events"},
			{Pkg: wtxmgrPkg, Fn: "ZzC02U4L4", Tiers: "t", Reach: []string{"c02-end"}, Bound: "U4, 4 events"},
			{Pkg: wtxmgrPkg, Fn: "ZzC02U5L4", Tiers: "t", Reach: []string{"c02-end"}, Bound: "U5 (double edge), 4 events"},
		},
		Assume:  storeAssume,
		Outside: "histories longer than the bound; more than 4 transactions; reconnects re-use block hash variant 1 after a disconnect at that height",
	})
	reg(&propDef{
		ID: "C13",
		Runs: []hrun{
			{Pkg: walletPkg, Fn: "ZzC13WalletGetTransactions", Tiers: "qt", Reach: []string{"c13w-end", "three-blocks", "with-unmined", "backwards"}, Bound: "Wallet.GetTransactions over 2-3 blocks holding 1-2 incoming payments each and possibly one unconfirmed, whole range (default, backwards, forwards incl. unmined): each transaction once, under its block, each summary with its own hash, bytes and credited output"},
			{Pkg: wtxmgrPkg, Fn: "ZzC13U1L3", Tiers: "qt", Reach: []string{"c13-end", "range-backwards", "range-unmined-first", "reorg"}, Bound: "U1 chain, 3 events; TxDetails/UniqueTxDetails for every tx and candidate block, RangeTransactions over symbolic begin/end in [-1,105]"},
			{Pkg: wtxmgrPkg, Fn: "ZzC13U6L3", Tiers: "qt", Reach: []string{"c13-end", "range-backwards"}, Bound: "U6 (credits with a non-credit output between, debit-only spender), 3 events"},
			{Pkg: wtxmgrPkg, Fn: "ZzC13U8L3", Tiers: "qt", Reach: []string{"c13-end"}, Bound: "U8 (descendant through a non-credit output; conflicting P'), 3 events"},
			{Pkg: wtxmgrPkg, Fn: "ZzC13U1zL3", Tiers: "qt", Reach: []string{"c13-end", "reorg"}, Bound: "U1 with zero-value credits allowed (amounts of the first transaction in [0, max]), 3 events"},
			{Pkg: wtxmgrPkg, Fn: "ZzC13U9P3L2", Tiers: "qt", Reach: []string{"c13-end", "reorg"}, Bound: "U9 after the preamble 'A confirmed, B and conflicting B' both unconfirmed', 2 events"},
			{Pkg: wtxmgrPkg, Fn: "ZzC13U7L3", Tiers: "t", Reach: []string{"c13-end"}, Bound: "U7 coinbase with foreign output, 3 events"},
			{Pkg: wtxmgrPkg, Fn: "ZzC13U3L3", Tiers: "t", Reach: []string{"c13-end"}, Bound: "U3 conflicts, 3 events"},
			{Pkg: wtxmgrPkg, Fn: "ZzC13U4L3", Tiers: "t", Reach: []string{"c13-end"}, Bound: "U4 coinbase, 3 events"},
			{Pkg: wtxmgrPkg, Fn: "ZzC13U1L4", Tiers: "t", Reach: []string{"c13-end"}, Bound: "U1, 4 events"},
		},
		Assume:  storeAssume,
		Outside: "histories longer than the bound; transaction labels are not asserted",
	})
	reg(&propDef{
		ID: "C12",
		Runs: []hrun{
			{Pkg: wtxmgrPkg, Fn: "ZzC12MinedL2", Tiers: "qt", Reach: []string{"c12-end", "leased", "lock-conflict", "lock-extended", "unlock-conflict", "unlocked", "swept", "confirmed-spend", "lock-unknown"}, Bound: "A confirmed with two credits, B spends A:0; 2 events from {see/mine/rollback/abandon, lock(op,id,duration in {0,1ns,1s,10min}), unlock(op,id), clock advance, sweep, restart}; clock seconds and nanoseconds symbolic"},
			{Pkg: wtxmgrPkg, Fn: "ZzC12LeasedP1L2", Tiers: "qt", Reach: []string{"c12-end", "leased", "confirmed-spend", "lock-conflict", "unlocked"}, Bound: "A confirmed, A:0 leased to id1 for ten minutes (fixed preamble), then 2 free events (e.g. an unconfirmed spend of the leased output and its removal, a confirmed spend, a second identifier)"},
			{Pkg: wtxmgrPkg, Fn: "ZzC12UnminedL2", Tiers: "qt", Reach: []string{"c12-end", "leased"}, Bound: "A UNCONFIRMED with two credits, 2 events (a lease on an unconfirmed credit)"},
			{Pkg: wtxmgrPkg, Fn: "ZzC12ConfirmedConflict", Tiers: "qt", Reach: []string{"c12-end", "conflicting-unconfirmed-spender"}, Bound: "A confirmed with two credits, A:0 leased, optionally an unconfirmed spender B of A:0 known, then a DIFFERENT transaction spending A:0 confirms: no lease listed any more; after the block is disconnected the output is available (symbolic clock, minConf, amounts)"},
			{Pkg: wtxmgrPkg, Fn: "ZzC12Tick", Tiers: "qt", Reach: []string{"c12-end"}, Bound: "one leased confirmed output (lease of 1 s or 10 min); Balance computed while the clock moves from t1 to t2 >= t1 (both symbolic, possibly across the expiry) after 0..3 clock readings; the answer must be the answer for t1 or for t2"},
			{Pkg: walletPkg, Fn: "ZzC12WalletSmall", Tiers: "qt", Reach: []string{"c12w-end", "observed-while-leased", "observed-after-expiry", "other-id-refused", "released"}, Bound: "wallet level (Wallet.LeaseOutput / ReleaseOutput / CalculateBalance-equivalent / ListUnspent) on one funded wallet with the store's REAL clock: time.Now returns arbitrary non-decreasing instants (symbolic), lease of ten minutes, then another identifier tries to take it or the owner releases it; observations are asserted when the instants read before/after them put them certainly before or certainly after the expiry"},
			{Pkg: walletPkg, Fn: "ZzC12Wallet", Tiers: "t", Reach: []string{"c12w-end", "observed-while-leased", "observed-after-expiry"}, Bound: "the same with 1 s and 10 min leases and four continuations (foreign lease, foreign release, release, extension + ListLeasedOutputs)"},
			{Pkg: wtxmgrPkg, Fn: "ZzC12UnminedL3", Tiers: "t", Reach: []string{"c12-end", "leased"}, Bound: "A unconfirmed, 3 events"},
			{Pkg: wtxmgrPkg, Fn: "ZzC12MinedL3", Tiers: "t", Reach: []string{"c12-end", "leased"}, Bound: "A confirmed, 3 events"},
		},
		Assume:  append([]string{"the statement's expiry time is the persisted one (whole seconds): LockOutput returns now+d to the nanosecond but stores expiry.Unix()", "the store clock is read as one instant per operation (the harness clock advances only between operations)"}, storeAssume...),
		Outside: "more than 3 events, more than two lease identifiers, durations other than the four listed",
	})
	reg(&propDef{
		ID: "C10",
		Runs: []hrun{
			{Pkg: wtxmgrPkg, Fn: "ZzC10U1P1", Tiers: "qt", Reach: []string{"fault-hit", "c10-end", "fault-not-reached"}, Bound: "U1; every store operation from every state after 1 event; the k-th write/delete/bucket creation of the operation fails, k symbolic"},
			{Pkg: wtxmgrPkg, Fn: "ZzC10U4P2", Tiers: "qt", Reach: []string{"fault-hit", "c10-end"}, Bound: "U4 (coinbase), pre-states after 2 events"},
			{Pkg: wtxmgrPkg, Fn: "ZzC10U9P3", Tiers: "qt", Reach: []string{"fault-hit", "c10-end"}, Bound: "U9 after 'A confirmed, B seen, conflicting B' seen' (two unconfirmed spenders of one outpoint): every store operation with the k-th write failing"},
			{Pkg: wtxmgrPkg, Fn: "ZzC10U3P2", Tiers: "t", Reach: []string{"fault-hit", "c10-end"}, Bound: "U3 (conflicts), pre-states after 2 events"},
			{Pkg: wtxmgrPkg, Fn: "ZzC10U1P2", Tiers: "t", Reach: []string{"fault-hit", "c10-end"}, Bound: "U1, pre-states after 2 events"},
			{Pkg: wtxmgrPkg, Fn: "ZzC10U3P3", Tiers: "t", Reach: []string{"fault-hit", "c10-end"}, Bound: "U3, pre-states after 3 events"},
			{Pkg: waddrmgrPkg, Fn: "ZzC10Mgr0", Tiers: "qt", Reach: []string{"fault-hit", "c10-end", "fault-not-reached"}, Bound: "address manager, fresh unlocked: each of 19 operations (next ext/int, extend ext/int, new account, new watching-only account, rename, mark used, import private key / public key / script / witness script, set synced-to, set birthday, set birthday block, change passphrase, neuter root key, new scoped key manager, convert to watching-only) with the k-th write failing, k symbolic"},
			{Pkg: waddrmgrPkg, Fn: "ZzC10Mgr1", Tiers: "qt", Reach: []string{"fault-hit", "c10-end"}, Bound: "address manager after one issued address, same 19 operations"},
		},
		Assume:  append([]string{"a failed write is modelled as the walletdb call returning an error without effect; read-side failures and bbolt's own failure modes are not modelled", "address manager part: concrete seed, native crypto, compared with a freshly opened manager (C08's observations)"}, storeAssume...),
		Outside: "pre-states beyond the listed histories; multiple faults in one operation; wallet-level operations",
	})
	reg(&propDef{
		ID: "C19",
		Runs: []hrun{
			{Pkg: migPkg, Fn: "ZzC19N1", Tiers: "qt", Reach: []string{"c19-end", "reversion", "upgraded", "migration-failed"}, Bound: "version table of length 1, version numbers symbolic uint32, nil or failing migration, symbolic stored version, SetVersion may fail"},
			{Pkg: migPkg, Fn: "ZzC19N2", Tiers: "qt", Reach: []string{"c19-end", "two-migrations"}, Bound: "table length 2 (any declaration order, numbers symbolic and distinct)"},
			{Pkg: migPkg, Fn: "ZzC19N3", Tiers: "qt", Reach: []string{"c19-end", "two-migrations"}, Bound: "table length 3"},
			{Pkg: migPkg, Fn: "ZzC19N4", Tiers: "t", Reach: []string{"c19-end"}, Bound: "table length 4"},
			{Pkg: migPkg, Fn: "ZzC19N2R2", Tiers: "qt", Reach: []string{"c19-end", "second-upgrade-with-the-same-table", "upgraded"}, Bound: "table length 2, TWO upgrades with the same manager and table, each from its own symbolic stored version (a table damaged by the first call is noticed by the second); the table must still hold every declared version"},
			{Pkg: migPkg, Fn: "ZzC19N3R2", Tiers: "t", Reach: []string{"c19-end", "second-upgrade-with-the-same-table"}, Bound: "table length 3, two upgrades"},
			{Pkg: walletPkg, Fn: "ZzC19WalletOpen", Tiers: "qt", Reach: []string{"c19w-end", "newer", "fault-hit", "open-failed", "opened", "failed-with-pending-wtxmgr-migration"}, Bound: "wallet.Open (OpenWithRetry: both migration managers, both Opens, one database transaction) on a created wallet with one recorded transaction; stored versions of BOTH namespaces symbolic uint32 (waddrmgr >= 5: older layouts are not synthesised), optional failing write at a symbolic position: a failed Open leaves the whole database dump unchanged, a successful one records both latest versions"},
			{Pkg: wtxmgrPkg, Fn: "ZzC19Store", Tiers: "qt", Reach: []string{"c19-end", "newer", "current", "upgraded", "fault-hit", "second-upgrade-same-manager"}, Bound: "real wtxmgr.MigrationManager and Open over memdb with history present; stored version symbolic uint32; optional write fault at symbolic position inside the upgrade transaction; after a real upgrade a transaction is recorded and a second upgrade through the same manager value must be a no-op"},
		},
		Assume:  []string{"memdb for bbolt (wtxmgr part)", "waddrmgr's migrations 6..8 run (through wallet.Open) on a database of the current layout stamped with an older version; layouts older than version 5 are not synthesised"},
		Outside: "tables longer than 4; waddrmgr database layouts older than version 5; more than two upgrades with one table",
	})
	reg(&propDef{
		ID: "C07",
		Runs: []hrun{
			{Pkg: txauthorPkg, Fn: "ZzC07Out1C1", Tiers: "qt", Reach: []string{"c07-end", "insufficient", "with-change", "without-change"}, Bound: "1 output (P2PKH), 1 coin of each of 4 kinds, 4 change kinds; fee rate, amounts and signature lengths symbolic"},
			{Pkg: txauthorPkg, Fn: "ZzC07Out0C2", Tiers: "qt", Reach: []string{"c07-end", "several-inputs"}, Bound: "0 outputs, 2 coins (4x4 kinds), 4 change kinds"},
			{Pkg: txauthorPkg, Fn: "ZzC07Out251C1", Tiers: "qt", Reach: []string{"c07-end"}, Bound: "251 outputs, 1 coin"},
			{Pkg: txauthorPkg, Fn: "ZzC07Out252C1", Tiers: "qt", Reach: []string{"c07-end", "with-change"}, Bound: "252 outputs (+change = 253: compact-size boundary), 1 coin"},
			{Pkg: txauthorPkg, Fn: "ZzC07Out253C1", Tiers: "qt", Reach: []string{"c07-end"}, Bound: "253 outputs, 1 coin"},
			{Pkg: walletPkg, Fn: "ZzC07WalletSources", Tiers: "qt", Reach: []string{"c07w-end", "insufficient", "several-inputs"}, Bound: "the wallet's real input sources (makeInputSource, constantInputSource) feeding txauthor.NewUnsignedTransaction: three P2WPKH coins with symbolic amounts (largest first), one output with a symbolic amount, fee rate 1000 or 10000 sat/kvB"},
			{Pkg: walletPkg, Fn: "ZzC07WalletChangeSource", Tiers: "qt", Reach: []string{"c07w-end", "schema-override", "custom-scope"}, Bound: "the wallet's real change source for 4 default scopes + 1 custom scope (witness/taproot) x {default account, imported xpub account with one of 5 schema overrides incl. none, imported-keys account}: handed-out script size == ScriptSize told to the fee estimate == size of the effective internal address type"},
			{Pkg: txauthorPkg, Fn: "ZzC07Out2C2", Tiers: "t", Reach: []string{"c07-end", "several-inputs"}, Bound: "2 outputs with 5 script-kind rotations, 2 coins"},
			{Pkg: txauthorPkg, Fn: "ZzC07Out1C2", Tiers: "t", Reach: []string{"c07-end"}, Bound: "1 output of 5 kinds, 2 coins"},
			{Pkg: txauthorPkg, Fn: "ZzC07Out2C3", Tiers: "t", Reach: []string{"c07-end"}, Bound: "2 outputs, 3 coins"},
			{Pkg: txauthorPkg, Fn: "ZzC07Out254C2", Tiers: "t", Reach: []string{"c07-end"}, Bound: "254 outputs, 2 coins"},
			{Pkg: txauthorPkg, Fn: "ZzC07Out300C2", Tiers: "t", Reach: []string{"c07-end"}, Bound: "300 outputs, 2 coins"},
		},
		Assume: []string{
			"signer output sizes: DER signature + sighash byte 9..72 bytes (low-S), compressed public key 33, Schnorr signature 64..65, nested redeem push 23; uncompressed-key P2PKH excluded (documented BUG in the source)",
			"the input source hands out the offered coins in order until the target is met (wallet.makeInputSource's algorithm, re-implemented in the harness)",
			"queries with multiplication/division by constants are decided in an integer encoding whose equivalence to the bit-vector semantics is established per query by interval analysis (intmode.go)",
		},
		Outside: "fee rates above 10^11 sat/kvB or below 1000; more than 3 coins; signing itself (the signature bytes) is not run",
	})
	reg(&propDef{
		ID: "C17",
		Runs: []hrun{
			{Pkg: snaclPkg, Fn: "ZzC17Cipher0", Tiers: "qt", Reach: []string{"c17-end", "other-key", "tamper-nonce", "tamper-box", "trunc-short", "trunc-box", "second-encryption"}, Bound: "empty plaintext; key, nonce source, tamper position/mask, truncation length symbolic"},
			{Pkg: snaclPkg, Fn: "ZzC17Cipher1", Tiers: "qt", Reach: []string{"c17-end", "tamper-box"}, Bound: "1-byte plaintext"},
			{Pkg: snaclPkg, Fn: "ZzC17Cipher2", Tiers: "qt", Reach: []string{"c17-end"}, Bound: "2-byte plaintext"},
			{Pkg: snaclPkg, Fn: "ZzC17Cipher4", Tiers: "t", Reach: []string{"c17-end"}, Bound: "4-byte plaintext"},
			{Pkg: waddrmgrPkg, Fn: "ZzC17EncryptVsLockB2", Tiers: "qt", Sched: true, Reach: []string{"c17-end", "encrypt-refused", "encrypt-succeeded"}, Bound: "Manager.Encrypt(CKTPrivate, 3 symbolic bytes) concurrent with Manager.Lock, interleavings with at most 2 preemptive switches (one to start the encrypting goroutine, one inside it): refused with a locked error, or a ciphertext the same key decrypts to the original bytes after re-unlocking and the zeroed key does not open"},
			{Pkg: waddrmgrPkg, Fn: "ZzC17EncryptPublicVsLockB2", Tiers: "qt", Sched: true, Reach: []string{"c17-end", "encrypt-succeeded"}, Bound: "the same with the public crypto key (never locked)"},
			{Pkg: waddrmgrPkg, Fn: "ZzC17EncryptVsLockB4", Tiers: "t", Sched: true, Reach: []string{"c17-end", "encrypt-refused", "encrypt-succeeded"}, Bound: "the same with at most 4 preemptive switches"},
			{Pkg: snaclPkg, Fn: "ZzC17ShortNonce", Tiers: "qt", Reach: []string{"c17-end"}, Bound: "random source failing after a symbolic number (<24) of bytes"},
			{Pkg: snaclPkg, Fn: "ZzC17Params", Tiers: "qt", Reach: []string{"c17-end"}, Bound: "Parameters fully symbolic (salt, digest, N, R, P as 64-bit values); other lengths within 24 below / 8 above and 0..2"},
			{Pkg: snaclPkg, Fn: "ZzC17Password1", Tiers: "qt", Reach: []string{"c17-end", "near-miss-rejected", "restart-accepts", "digest-near-miss", "salt-changed", "longer"}, Bound: "1-byte symbolic passphrase"},
			{Pkg: snaclPkg, Fn: "ZzC17Password2", Tiers: "qt", Reach: []string{"c17-end", "near-miss-rejected", "restart-accepts"}, Bound: "2-byte symbolic passphrase"},
			{Pkg: snaclPkg, Fn: "ZzC17Password70", Tiers: "qt", Reach: []string{"c17-end", "differs-beyond-64-bytes"}, Bound: "a 70-byte passphrase (last byte symbolic) against a guess that differs in one byte (symbolic non-zero mask) at position 0, 31, 32, 63, 64, 65 or 69"},
			{Pkg: snaclPkg, Fn: "ZzC17Password3", Tiers: "t", Reach: []string{"c17-end"}, Bound: "3-byte symbolic passphrase"},
		},
		Assume: []string{
			"secretbox is an ideal AEAD: Seal on symbolic input returns fresh bytes of length len(m)+16, Open succeeds exactly for a recorded (box, nonce, key) triple (decided symbolically); on fully concrete input the real secretbox runs",
			"scrypt is an ideal collision-free KDF on symbolic input (equal inputs decided symbolically, otherwise fresh output different from all earlier ones); the real scrypt runs on concrete input and validates the cost parameters",
			"SHA-256 collision-free (tokenised on symbolic input)",
			"that XSalsa20-Poly1305, scrypt and SHA-256 are what they claim to be is outside",
		},
		Outside: "plaintexts longer than 4 bytes, passphrases longer than 3 bytes, strength of the primitives; waddrmgr's use of snacl is covered by C05/C04 when built",
	})
	reg(&propDef{
		ID: "C18",
		Runs: []hrun{
			{Pkg: chainPkg, Fn: "ZzC18K2B0", Tiers: "qt", Sched: true, Reach: []string{"c18-end", "producer-finished-without-consumer"}, Bound: "2 items, unbuffered output, all schedules"},
			{Pkg: chainPkg, Fn: "ZzC18K3B0", Tiers: "qt", Sched: true, Reach: []string{"c18-end", "producer-finished-without-consumer"}, Bound: "3 items, buffer 0"},
			{Pkg: chainPkg, Fn: "ZzC18K3B1", Tiers: "qt", Sched: true, Reach: []string{"c18-end", "producer-finished-without-consumer"}, Bound: "3 items, buffer 1"},
			{Pkg: chainPkg, Fn: "ZzC18K3B1Take1", Tiers: "qt", Sched: true, Reach: []string{"c18-end"}, Bound: "3 items, buffer 1, consumer takes 1 then Stop with items pending"},
			{Pkg: chainPkg, Fn: "ZzC18StepSmall", Tiers: "qt", Sched: true, Reach: []string{"c18-end", "overflow-non-empty"}, Bound: "worker started from every state with capacity<=1, overflow<=2, then <=1 send and any number of receives, all schedules"},
			{Pkg: chainPkg, Fn: "ZzC18BtcdK3", Tiers: "qt", NoNative: true, Sched: true, Reach: []string{"c18-end", "producer-finished-without-consumer"}, Bound: "the notification queue inside the btcd client (real RPCClient.handler goroutine): a producer goroutine sends 3 notifications while the consumer receives, every interleaving with at most 2 preemptions; then Stop"},
			{Pkg: chainPkg, Fn: "ZzC18NeutrinoK3", Tiers: "qt", NoNative: true, Sched: true, Reach: []string{"c18-end", "producer-finished-without-consumer"}, Bound: "the same for the neutrino client (real NeutrinoClient.notificationHandler goroutine)"},
			{Pkg: chainPkg, Fn: "ZzC18BtcdBurst", Tiers: "qt", NoNative: true, Sched: true, Reach: []string{"c18-end", "more-than-32-pending"}, Bound: "btcd client handler, one schedule (no preemptive switches): send 5, receive 3, send 36 (38 pending), receive 10, send 20, drain: 61 notifications in order"},
			{Pkg: chainPkg, Fn: "ZzC18NeutrinoBurst", Tiers: "qt", NoNative: true, Sched: true, Reach: []string{"c18-end", "more-than-32-pending"}, Bound: "neutrino client handler, the same burst pattern"},
			{Pkg: chainPkg, Fn: "ZzC18BtcdLongBurst", Tiers: "qt", NoNative: true, Sched: true, Reach: []string{"c18-end", "more-than-32-pending"}, Bound: "btcd client handler: 2100 notifications sent while the consumer reads nothing, then all drained in order; no preemptive switches"},
			{Pkg: chainPkg, Fn: "ZzC18NeutrinoLongBurst", Tiers: "qt", NoNative: true, Sched: true, Reach: []string{"c18-end", "more-than-32-pending"}, Bound: "the same for the neutrino client handler"},
			{Pkg: chainPkg, Fn: "ZzC18BtcdStopBacklog", Tiers: "qt", NoNative: true, Sched: true, Reach: []string{"c18-end", "stop-with-backlog"}, Bound: "btcd client handler: 3 notifications queued, nobody reading, then Stop: the handler ends (its wait group is released, its output channel closed)"},
			{Pkg: chainPkg, Fn: "ZzC18NeutrinoStopBacklog", Tiers: "qt", NoNative: true, Sched: true, Reach: []string{"c18-end", "stop-with-backlog"}, Bound: "the same for the neutrino client handler"},
			{Pkg: chainPkg, Fn: "ZzC18K4B1", Tiers: "t", Sched: true, Reach: []string{"c18-end"}, Bound: "4 items, buffer 1"},
			{Pkg: chainPkg, Fn: "ZzC18K4B2", Tiers: "t", Sched: true, Reach: []string{"c18-end"}, Bound: "4 items, buffer 2"},
			{Pkg: chainPkg, Fn: "ZzC18K4B0Take2", Tiers: "t", Sched: true, Reach: []string{"c18-end"}, Bound: "4 items, buffer 0, consumer takes 2"},
			{Pkg: chainPkg, Fn: "ZzC18Step", Tiers: "t", Sched: true, Reach: []string{"c18-end", "overflow-non-empty"}, Bound: "worker started from every state with capacity<=2, overflow<=3, then <=2 sends, all schedules"},
		},
		Assume:  []string{"cooperative scheduler: context switches at channel operations and selects only; the default branch of a non-blocking select and the arrival order of operations on the channels such selects mention are scheduling choices (sched.go); items are symbolic but the order property does not depend on their values"},
		Outside: "ConcurrentQueue: more than 4 items in flight, buffers larger than 2, several producers or consumers; client handlers: GetBestBlock and the rpc client's shutdown are stubbed, backlogs other than the listed burst pattern; interleavings are enumerated exhaustively (structural forks), the solver only supplies item values",
	})
	reg(&propDef{
		ID: "C16",
		Runs: []hrun{
			{Pkg: walletPkg, Fn: "ZzC16Birthday15", Tiers: "qt", Reach: []string{"c16-end", "inner-block"}, Bound: "locateBirthdayBlock over every chain of <=16 blocks with arbitrary monotone symbolic timestamps, symbolic best height and birthday"},
			{Pkg: walletPkg, Fn: "ZzC16Birthday63", Tiers: "t", Reach: []string{"c16-end", "inner-block"}, Bound: "chains of <=64 blocks"},
			{Pkg: walletPkg, Fn: "ZzC16HorizonW1", Tiers: "qt", NoNative: true, Reach: []string{"c16-end", "invalid-child"}, Bound: "recovery window 1, 3 rounds of expand + found, <=2 invalid children anywhere (symbolic), both branches"},
			{Pkg: walletPkg, Fn: "ZzC16HorizonW2", Tiers: "qt", NoNative: true, Reach: []string{"c16-end", "invalid-child", "jump"}, Bound: "window 2, 2 rounds"},
			{Pkg: walletPkg, Fn: "ZzC16HorizonW3", Tiers: "qt", NoNative: true, Reach: []string{"c16-end", "invalid-child", "jump"}, Bound: "window 3, 2 rounds"},
			{Pkg: walletPkg, Fn: "ZzC16HorizonResume", Tiers: "qt", NoNative: true, Reach: []string{"c16-end"}, Bound: "window 2, resumed recovery starting at index 7"},
			{Pkg: walletPkg, Fn: "ZzC16RecoveryW2B2", Tiers: "qt", Reach: []string{"c16-end", "resumed", "spend-with-change", "two-receipts-in-a-block", "receipt-spent-in-the-same-block", "spend-without-change", "two-wallet-outputs-in-one-transaction", "payment-at-or-below-the-highest-index"}, Bound: "the real recovery loop (Wallet.recovery, RecoveryManager incl. Resurrect, real address manager, transaction store and chain.BlockFilterer) on a wallet restored from the seed, window 2: every chain of 2 blocks whose content is chosen from {external receipt, internal receipt, two external receipts, spend of an earlier output with or without internal change, a receipt swept out of the wallet later in the same block, one transaction paying an external and an internal address, a payment to an index at or below the highest paid so far (reuse / gap)}, every index inside the window, optionally a first recovery session after block 1 (the final run resumes)"},
			{Pkg: walletPkg, Fn: "ZzC16RecoveryNestedW2B2", Tiers: "qt", Reach: []string{"c16-end", "resumed", "two-wallet-outputs-in-one-transaction"}, Bound: "the same chains with payments to the BIP0049Plus scope (nested witness external addresses, native witness change: the default scope whose branches use different address formats), window 2, 2 blocks"},
			{Pkg: walletPkg, Fn: "ZzC16RecoveryFailW2B2", Tiers: "qt", Reach: []string{"c16-end", "retried-after-backend-failure"}, Bound: "window 2, 2 blocks; the backend fails the first filter request of every recovery once, the recovery reports the error and is retried in the same process"},
			{Pkg: walletPkg, Fn: "ZzC16BatchBoundary", Tiers: "qt", MaxSteps: 400_000_000, Reach: []string{"c16-end", "payment-in-the-last-block-of-a-batch"}, Bound: "a chain of 2005 blocks after the birthday (concrete ten-minute timestamps), empty except for one payment 1999, 2000 or 2001 blocks after the birthday (around the end of the first 2000-block batch) and a changeless sweep of it in the second batch"},
			{Pkg: walletPkg, Fn: "ZzC16RecoveryW2B3", Tiers: "t", Reach: []string{"c16-end", "resumed", "spend-with-change"}, Bound: "window 2, chains of 3 blocks, a session may end after each of the first two"},
			{Pkg: walletPkg, Fn: "ZzC16RecoveryW3B3", Tiers: "t", Reach: []string{"c16-end", "resumed"}, Bound: "window 3, chains of 3 blocks"},
			{Pkg: walletPkg, Fn: "ZzC16HorizonW3R3", Tiers: "t", NoNative: true, Reach: []string{"c16-end"}, Bound: "window 3, 3 rounds"},
			{Pkg: walletPkg, Fn: "ZzC16HorizonW4", Tiers: "t", NoNative: true, Reach: []string{"c16-end"}, Bound: "window 4, 2 rounds, start index 7"},
		},
		Assume: []string{
			"three pieces: locateBirthdayBlock; BranchRecoveryState + expandScopeHorizons + extendFoundAddresses with symbolic invalid children (derivation stubbed); and the full recovery loop with real derivation, real block filterer, balances and resumption on the concrete seed (ZzC16Recovery*)",
			"the chain model's FilterBlocks runs the real chain.BlockFilterer over each requested block (what chain.RPCClient.FilterBlocks does after its compact-filter pre-check, which is skipped)",
			"payments go to BIP0084 (or, in the Nested entry, BIP0049Plus) addresses of account 0; the other default scopes are expanded and filtered but never paid",
			"ScopedKeyManager.DeriveFromKeyPath/Extend*Addresses/MarkUsed are replaced by harness stubs (verifrt.StubFunc) whose derivation declares child indexes invalid by symbolic booleans; counterexamples of these harnesses are confirmed by deterministic re-execution in the executor, not natively",
			"time.Time.Sub is replaced by its contract (saturating difference) because its body divides by 10^9",
			"the stored birthday precedes the first possible payment by two days (wallet creation subtracts 48h), so a start block with timestamp <= birthday+2h is not later than the first block that could pay",
		},
		Outside: "chains longer than 64 blocks (bounded binary search, not the inductive loop-cut of the design), windows above 4 (3 in the full loop), more than 2 invalid children, index wrap at 2^32, chains longer than 3 non-empty blocks in the full loop, forced shutdown in the middle of a batch, backend failures other than one failed filter request per recovery",
	})
	mgrAssume := []string{
		"one concrete 32-byte seed, concrete passphrases: BIP32 derivation, secp256k1, scrypt, secretbox, SHA-2, RIPEMD-160, base58 run natively (real libraries) on concrete inputs; the claim is for this seed, not for every seed",
		"memdb for bbolt", "the oracle derives m/purpose'/coin'/account'/branch/index with the same hdkeychain library applied along the statement's path (independent path composition, not an independent implementation of BIP32)",
	}
	reg(&propDef{
		ID: "C03",
		Runs: []hrun{
			{Pkg: waddrmgrPkg, Fn: "ZzC03Bip84L3", Tiers: "qt", Reach: []string{"c03-end", "extended", "privkey-checked", "restarted"}, Bound: "scope BIP0084, account 0, every history of 3 operations from {next-external(1..2), next-internal, extend-external, mark-used, lock, unlock, restart, derive-from-path}; after every step every issued address is looked up and checked"},
			{Pkg: waddrmgrPkg, Fn: "ZzC03Bip84L3Locked", Tiers: "qt", Reach: []string{"c03-end", "privkey-checked"}, Bound: "same, starting locked (keys derived on unlock)"},
			{Pkg: waddrmgrPkg, Fn: "ZzC03LegacySeedL2", Tiers: "qt", Reach: []string{"c03-end", "legacy-rule-differs-from-bip32", "privkey-checked"}, Bound: "a second concrete seed whose m/84'/0' private key has a leading zero byte (btcsuite's legacy hardened rule differs from BIP32 below it), 2 operations, account 0"},
			{Pkg: waddrmgrPkg, Fn: "ZzC03LegacyPurposeSeedL2", Tiers: "qt", Reach: []string{"c03-end", "legacy-rule-differs-from-bip32-at-the-coin-type-key", "privkey-checked"}, Bound: "a third concrete seed whose m/84' private key has a leading zero byte (the legacy rule departs from BIP32 one level higher, at the coin-type key), 2 operations, account 0"},
			{Pkg: waddrmgrPkg, Fn: "ZzC03AcctsL2", Tiers: "qt", Reach: []string{"c03b-end", "account-created", "imported", "passphrase-changed", "recreated-compared", "privkey-checked", "extended"}, Bound: "scope BIP0084, accounts 0 and a second seeded account created during the history, every history of 2 operations from {next-external(1..2), next-internal, extend-internal, lock, unlock, restart, private passphrase change, new account, import private key + script, derive-from-path} on a chosen account; additionally the address must ENCODE the expected key in the expected format (oracle built with btcutil only), imported key/script returned unchanged, and a second wallet created from the same seed must issue the same addresses"},
			{Pkg: waddrmgrPkg, Fn: "ZzC03ImportedL3", Tiers: "qt", Reach: []string{"c03b-end", "imported-account", "extended", "restarted", "passphrase-changed"}, Bound: "imported extended-public-key account (child b/i of the imported key) under scope BIP0049Plus with an overriding address schema (nested witness on both branches), histories of 3 operations from {next-external, next-internal, extend-internal, lock, unlock, restart, passphrase change}"},
			{Pkg: waddrmgrPkg, Fn: "ZzC03ImportedLegacyL2", Tiers: "qt", Reach: []string{"c03b-end", "imported-account"}, Bound: "imported account under scope BIP0084 overriding to p2pkh on both branches (the zero value of the schema type), 2 operations"},
			{Pkg: waddrmgrPkg, Fn: "ZzC03ImportedTaprootL2", Tiers: "qt", Reach: []string{"c03b-end", "imported-account"}, Bound: "imported account under scope BIP0044 overriding to taproot (external) / witness (internal) addresses, 2 operations"},
			{Pkg: waddrmgrPkg, Fn: "ZzC03TwoAcctsLockedL3", Tiers: "qt", Reach: []string{"c03b-end", "unlocked-after-issuing-while-locked", "privkey-checked", "restarted"}, Bound: "two seeded accounts, manager LOCKED at the start: histories of 3 operations from {next-external(1..2), next-internal, lock, unlock, restart} on a chosen account (addresses of both accounts issued while locked get their keys at the next Unlock)"},
			{Pkg: waddrmgrPkg, Fn: "ZzC03TwoAcctsLockedL4", Tiers: "t", Reach: []string{"c03b-end", "unlocked-after-issuing-while-locked"}, Bound: "same, 4 operations"},
			{Pkg: waddrmgrPkg, Fn: "ZzC03AcctsL3", Tiers: "t", Reach: []string{"c03b-end", "account-created", "imported", "recreated-compared"}, Bound: "several accounts, imports, passphrase change: 3 operations, scope BIP0084"},
			{Pkg: waddrmgrPkg, Fn: "ZzC03Accts86L3", Tiers: "t", Reach: []string{"c03b-end"}, Bound: "same, scope BIP0086 (taproot)"},
			{Pkg: waddrmgrPkg, Fn: "ZzC03Accts44L3", Tiers: "t", Reach: []string{"c03b-end"}, Bound: "same, scope BIP0044"},
			{Pkg: waddrmgrPkg, Fn: "ZzC03ImportedPlainL3", Tiers: "t", Reach: []string{"c03b-end", "imported-account"}, Bound: "imported account under BIP0084 without schema override, 3 operations"},
			{Pkg: waddrmgrPkg, Fn: "ZzC03Bip44L3", Tiers: "t", Reach: []string{"c03-end"}, Bound: "scope BIP0044, 3 operations"},
			{Pkg: waddrmgrPkg, Fn: "ZzC03Bip49L3", Tiers: "t", Reach: []string{"c03-end"}, Bound: "scope BIP0049Plus, 3 operations"},
			{Pkg: waddrmgrPkg, Fn: "ZzC03Bip86L3", Tiers: "t", Reach: []string{"c03-end"}, Bound: "scope BIP0086, 3 operations"},
			{Pkg: waddrmgrPkg, Fn: "ZzC03Bip84L4", Tiers: "t", Reach: []string{"c03-end"}, Bound: "scope BIP0084, 4 operations"},
		},
		Assume:  mgrAssume,
		Outside: "other seeds, more than two seeded accounts and one imported account, custom (non-default) scopes, public passphrase change, more than 4 operations; whether btcd's DeriveNonStandard equals BIP32; histories are enumerated, all data is concrete (no solver-decided data in this check)",
	})
	reg(&propDef{
		ID: "C05",
		Runs: []hrun{
			{Pkg: waddrmgrPkg, Fn: "ZzC05LockFresh", Tiers: "qt", Reach: []string{"c05-end"}, Bound: "fresh unlocked manager: Lock, then every secret field inspected and every private accessor tried"},
			{Pkg: waddrmgrPkg, Fn: "ZzC05LockIssued", Tiers: "qt", Reach: []string{"c05-end"}, Bound: "after issuing 3 addresses, a lookup and a cached derivation"},
			{Pkg: waddrmgrPkg, Fn: "ZzC05LockImports", Tiers: "qt", Reach: []string{"c05-end", "imports"}, Bound: "after importing a private key, a P2SH script, a secret witness script and a secret taproot script"},
			{Pkg: waddrmgrPkg, Fn: "ZzC05LockReloaded", Tiers: "qt", Reach: []string{"c05-end", "last-address-checked"}, Bound: "restart, unlock, account row loaded while unlocked (its cached last addresses carry private keys), then Lock"},
			{Pkg: waddrmgrPkg, Fn: "ZzC05LockWatchOnlyAccount", Tiers: "qt", Reach: []string{"c05-end", "watch-only-account-loaded"}, Bound: "seeded manager holding an imported extended-public-key account with an issued address, then Lock"},
			{Pkg: waddrmgrPkg, Fn: "ZzC05LockUntouchedScope", Tiers: "qt", Reach: []string{"c05-end", "imports-into-untouched-scope"}, Bound: "restart, unlock, private key and secret script imported into a key scope in which no account has been loaded in this session, then Lock"},
			{Pkg: waddrmgrPkg, Fn: "ZzC05LockInvalidated", Tiers: "qt", Reach: []string{"c05-end", "account-cache-invalidated"}, Bound: "cached derivation, then the account dropped from the account cache (InvalidateAccountCache), then Lock"},
			{Pkg: waddrmgrPkg, Fn: "ZzC05LockedHistoryL2", Tiers: "qt", Reach: []string{"c05-end", "issued-while-locked", "renamed-while-locked", "restarted"}, Bound: "locked manager (locked in this session or restarted): 2 operations from {issue external/internal address, rename account, account lookup, drop account from cache}, then Unlock with the current passphrase, private keys of the addresses issued while locked, wrong passphrase, wipe"},
			{Pkg: waddrmgrPkg, Fn: "ZzC05LockedHistoryL3", Tiers: "t", Reach: []string{"c05-end", "issued-while-locked", "renamed-while-locked"}, Bound: "the same with 3 operations"},
			{Pkg: waddrmgrPkg, Fn: "ZzC05LongPassphrase", Tiers: "qt", Reach: []string{"c05-end", "guess-while-unlocked"}, Bound: "a 110-byte private passphrase; Unlock from locked and while already unlocked with a guess differing in one byte (symbolic non-zero mask) at position 0, 31, 32, 63, 64, 95, 96, 97 or 109"},
			{Pkg: waddrmgrPkg, Fn: "ZzC05FailedUnlock", Tiers: "qt", Reach: []string{"c05-end"}, Bound: "Unlock with the right passphrase failing after the master and crypto keys were decrypted (damaged account key): locked and wiped afterwards"},
			{Pkg: waddrmgrPkg, Fn: "ZzC05GuessWatchOnlyAccount", Tiers: "qt", Reach: []string{"c05-end", "right-passphrase", "wrong-passphrase", "watch-only-account-loaded"}, Bound: "symbolic 8-byte passphrase guess on a manager holding an imported watch-only account"},
			{Pkg: waddrmgrPkg, Fn: "ZzC05GuessFresh", Tiers: "qt", Reach: []string{"c05-end", "right-passphrase", "wrong-passphrase"}, Bound: "Unlock with a fully symbolic 8-byte passphrase (solver decides equality with the real one)"},
			{Pkg: waddrmgrPkg, Fn: "ZzC05GuessImports", Tiers: "qt", Reach: []string{"c05-end", "right-passphrase", "wrong-passphrase"}, Bound: "same after imports and issued addresses"},
			{Pkg: waddrmgrPkg, Fn: "ZzC05Change", Tiers: "qt", Reach: []string{"c05-end", "wrong-old"}, Bound: "ChangePassphrase public/private x locked/unlocked x right/wrong old passphrase, checked immediately (with and without a Lock before the next Unlock, current and superseded passphrase in either order) and after restart"},
		},
		Assume:  append([]string{"scrypt ideal KDF / tokenised SHA-2 on the symbolic passphrase guess (real scrypt for the concrete ones)", "a secret taproot script (full-output-key form) is among the imports: its clear text must be wiped and TaprootScript() refused"}, mgrAssume...),
		Outside: "passphrases of other lengths than the real one in the symbolic guess, wallet-level DeriveFromKeyPath (its two halves, cache and derivation, are gated separately), histories beyond the listed set-up states",
	})
	reg(&propDef{
		ID: "C08",
		Runs: []hrun{
			{Pkg: waddrmgrPkg, Fn: "ZzC08L2", Tiers: "qt", Reach: []string{"c08-end", "rolled-back", "commit-failed"}, Bound: "every history of 2 transactions from {next-external, next-internal, rename, mark-used, set-synced-to, new-account, extend-external}, each committed, rolled back (dry run) or failing at commit; fresh Open compared after every transaction"},
			{Pkg: waddrmgrPkg, Fn: "ZzC08ImportedL2", Tiers: "qt", Reach: []string{"c08-end", "imported-account", "rolled-back"}, Bound: "the same 7 operations on an imported extended-public-key account that already has 2 external and 1 internal address, histories of 2 transactions"},
			{Pkg: waddrmgrPkg, Fn: "ZzC08Retry0", Tiers: "qt", Reach: []string{"c08-end", "retry-agrees", "rolled-back", "commit-failed"}, Bound: "each of the 7 operations in a transaction that does not commit (rolled back or failing at commit), then the same request again in a committed transaction: afterwards running and freshly opened manager agree"},
			{Pkg: waddrmgrPkg, Fn: "ZzC08Retry1", Tiers: "qt", Reach: []string{"c08-end", "retry-agrees"}, Bound: "the same after one committed operation"},
			{Pkg: waddrmgrPkg, Fn: "ZzC08Batch0", Tiers: "qt", Reach: []string{"c08-end", "batch-committed", "batch-agrees"}, Bound: "ONE committed transaction holding two of the 7 operations (every ordered pair), then fresh Open compared"},
			{Pkg: waddrmgrPkg, Fn: "ZzC08Batch1", Tiers: "qt", Reach: []string{"c08-end", "batch-committed", "batch-agrees"}, Bound: "the same after one committed operation"},
			{Pkg: walletPkg, Fn: "ZzC08WalletDryRun", Tiers: "qt", Reach: []string{"c08w-end", "dry-run-with-change", "dry-run-without-change"}, Bound: "wallet level: one dry-run txToOutputs on a funded watching-only wallet with a SYMBOLIC amount around the point where the change becomes dust: indices unchanged in memory and on disk, the next committed NewChangeAddress returns the address a restarted wallet would issue"},
			{Pkg: walletPkg, Fn: "ZzC08WalletDryRun2", Tiers: "t", Reach: []string{"c08w-end", "dry-run-without-change"}, Bound: "two dry runs in a row"},
			{Pkg: walletPkg, Fn: "ZzC08WalletImportDryRun", Tiers: "qt", Reach: []string{"c08w-end", "dry-run-ok", "dry-run-failed"}, Bound: "ImportAccountDryRun that succeeds or fails after the account was cached, then a committed ImportAccount of another key reusing the account number: running vs reopened wallet (name, key, key counts, next address)"},
			{Pkg: waddrmgrPkg, Fn: "ZzC08L3", Tiers: "t", Reach: []string{"c08-end", "rolled-back", "commit-failed"}, Bound: "histories of 3 transactions"},
		},
		Assume:  mgrAssume,
		Outside: "more than 3 transactions, imports, several accounts beyond the ones created",
	})
	reg(&propDef{
		ID: "C04",
		Runs: []hrun{
			{Pkg: waddrmgrPkg, Fn: "ZzC04", Tiers: "qt", NoWitness: true, Reach: []string{"c04-end", "created", "imported", "passphrase-changed", "root-key-neutered", "post-conversion-content-scanned", "taproot-address-issued", "marked-used"}, Bound: "one operation order: create, open, unlock, a taproot address (32-byte address id), 3 addresses, two of them marked used, import private key + secret P2SH script + secret witness script, new account, private passphrase change, [neuter the root key], convert to watching-only (afterwards no stored field may open under the master key or the private crypto key), reopen, import of a private key into the reopened watching-only wallet; both passphrases, the new passphrase and both secret scripts SYMBOLIC; every window of every key/value ever written compared with 40+ secrets (and, until imports, public material)"},
			{Pkg: walletPkg, Fn: "ZzC04WalletInit", Tiers: "qt", Reach: []string{"c04w-end", "accounts-existed-already"}, Bound: "wallet level: Wallet.InitAccounts(scope, watchOnly=true, 2) - the wallet's migrate-to-watching-only entry point - with none, one or all of the accounts existing beforehand: a nil result means running and reopened manager are watching-only and the private passphrase unlocks nothing"},
			{Pkg: waddrmgrPkg, Fn: "ZzC04RaceB2", Tiers: "qt", Sched: true, NoWitness: true, Reach: []string{"c04-end", "import-refused", "import-succeeded"}, Bound: "ImportPrivateKey concurrent with Manager.Lock, every interleaving of their synchronisation operations with at most 2 preemptions: the key is refused or sealed under the real crypto key, never under the zeroed one"},
		},
		Assume: append([]string{
			"'unencrypted' includes 'sealed under a key everybody knows': every length-prefixed field and whole value written is offered to the all-zero snacl.CryptoKey and must not open (this is how the zero script key of the unchanged code is found - recorded as a known finding - and how a wiped-but-still-used private crypto key is detected)",
			"granularity: the bytes handed to walletdb Put/CreateBucket (memdb write log, a superset of every commit image); bbolt's file image, page reuse and what a crash leaves in freed pages are outside",
			"a stored window 'is' a symbolic secret if equality is valid under the path condition (solver); seed-derived keys and the imported key are concrete (byte search)",
			"witness paths are not replayed natively: natively a symbolic secret takes the model's concrete value, which may coincide with ordinary database bytes",
			"ideal AEAD: a ciphertext never coincides with its plaintext",
		}, mgrAssume...),
		Outside: "other operation orders, taproot scripts, wtxmgr's namespace (public scripts are stored there once transactions are recorded), the wallet package's own buckets",
	})
	walletAssume := []string{
		"a real Wallet (wallet.Open, real address manager and transaction store, migrations) over memdb; the database is created with fast scrypt parameters instead of wallet.Create's defaults; concrete seed, native crypto",
		"the chain backend is a harness model (chain.Interface): best chain of (height, fork id) blocks with symbolic timestamps; its notifications follow btcd's order (disconnects tip-first, then connects)",
	}
	reg(&propDef{
		ID: "C15",
		Runs: []hrun{
			{Pkg: walletPkg, Fn: "ZzC15L2", Tiers: "qt", Sched: true, Reach: []string{"c15-end", "reorg-1", "reorg-2", "duplicate-disconnect", "stale-disconnect", "wallet-tx-confirmed", "wallet-tx-unconfirmed-by-reorg", "reorg-started-during-rescan", "out-of-order-connect", "reorg-entirely-during-rescan"}, Bound: "real handleChainNotifications goroutine; base height 10001; 2 evolutions from {out-of-order connect of two new blocks (second first: refused, then both in order), reorg of depth 1 entirely during a rescan (followed through the connect at the tip height), extend, extend with wallet tx, reorg depth 1, reorg depth 2, duplicate disconnect, stale disconnect, reorg depth 2 whose first disconnect arrives while a rescan is running (missed by the wallet) and whose second one is for a block below the wallet's tip}"},
			{Pkg: walletPkg, Fn: "ZzC15Startup1", Tiers: "qt", Reach: []string{"c15-end", "wallet-tx-orphaned", "birthday-block-orphaned"}, Bound: "reorg of depth 1 while stopped (new branch same length or longer), wallet tx in any of 4 blocks, birthday block any of the 6 blocks the wallet knew (possibly orphaned itself), then syncWithChain"},
			{Pkg: walletPkg, Fn: "ZzC15Startup2", Tiers: "qt", Reach: []string{"c15-end", "wallet-tx-orphaned", "birthday-block-orphaned"}, Bound: "depth 2 while stopped"},
			{Pkg: walletPkg, Fn: "ZzC15StartupRecovery1", Tiers: "qt", Reach: []string{"c15-end", "wallet-tx-orphaned", "new-branch-longer"}, Bound: "wallet started in recovery mode (window 1) after a reorg of depth 1 while stopped, new branch 0..2 blocks longer than the old one, wallet tx in any of 3 blocks"},
			{Pkg: walletPkg, Fn: "ZzC15StartupRecovery2", Tiers: "t", Reach: []string{"c15-end", "wallet-tx-orphaned", "new-branch-longer"}, Bound: "the same at depth 2"},
			{Pkg: walletPkg, Fn: "ZzC15StartupFault1", Tiers: "qt", Reach: []string{"c15-end", "fault-hit", "fault-not-reached", "wallet-tx-orphaned"}, Bound: "reorg of depth 1 while stopped; the k-th database write (k symbolic < 48) of the first syncWithChain fails, the error is reported, the process restarts (database reopened) and synchronises again: same outcome as without the fault"},
			{Pkg: walletPkg, Fn: "ZzC15StartupFault2", Tiers: "t", Reach: []string{"c15-end", "fault-hit", "wallet-tx-orphaned"}, Bound: "the same at depth 2"},
			{Pkg: walletPkg, Fn: "ZzC15StartupRetry1", Tiers: "qt", Reach: []string{"c15-end", "fault-hit", "retried-in-the-same-process", "wallet-tx-orphaned"}, Bound: "the same, but the SAME process tries again after the failed attempt (the retry loop of handleChainNotifications): what the failed, rolled-back attempt left in memory must not mislead the second one"},
			{Pkg: walletPkg, Fn: "ZzC15Startup3", Tiers: "qt", Reach: []string{"c15-end", "wallet-tx-orphaned", "birthday-block-orphaned"}, Bound: "depth 3 while stopped"},
			{Pkg: walletPkg, Fn: "ZzC15TxBelowTipL1", Tiers: "qt", Sched: true, Reach: []string{"c15-end", "reorg-2", "reorg-started-during-rescan", "wallet-tx-unconfirmed-by-reorg"}, Bound: "a wallet transaction confirmed one block below the tip (connect with tx, connect), then any 1 evolution"},
			{Pkg: walletPkg, Fn: "ZzC15RescanFinishedThenReorg", Tiers: "qt", Sched: true, Reach: []string{"c15-end", "wallet-tx-unconfirmed-by-reorg"}, Bound: "initial rescan running through the real rescan batch/RPC/progress goroutines; RescanFinished followed at once or after a pause by a depth-1 reorg of the block holding the wallet transaction; every interleaving without preemptive switches (switches at blocking points are free)"},
			{Pkg: walletPkg, Fn: "ZzC15RescanFinishedThenReorgP1", Tiers: "t", Sched: true, Reach: []string{"c15-end"}, Bound: "the same with at most one preemptive switch (55 608 interleavings)"},
			{Pkg: walletPkg, Fn: "ZzC15L3", Tiers: "t", Sched: true, Reach: []string{"c15-end"}, Bound: "3 evolutions, base 10001"},
			{Pkg: walletPkg, Fn: "ZzC15L3Low", Tiers: "t", Sched: true, Reach: []string{"c15-end"}, Bound: "3 evolutions, base height 1"},
			{Pkg: walletPkg, Fn: "ZzC15L4", Tiers: "t", Sched: true, Reach: []string{"c15-end"}, Bound: "4 evolutions"},
		},
		Assume:  append([]string{"in the start-up harness the wallet is already shutting down so that the rescan request after the rollback returns instead of waiting for the rescan goroutines"}, walletAssume...),
		Outside: "reorgs deeper than 2 by notification / 3 at start-up, several wallet transactions, neutrino/bitcoind backends, rescan and recovery after the rollback",
	})
	reg(&propDef{
		ID: "C20",
		Runs: []hrun{
			{Pkg: walletPkg, Fn: "ZzC20Publish", Tiers: "qt", Reach: []string{"c20-end", "recorded", "failed", "already-known"}, Bound: "funded wallet (one confirmed credit, symbolic amount); one send; backend answer from {accepted, already in mempool, already known, already confirmed, rejected (unclassified error or a SYMBOLIC chain.RPCErr reject code: every value except the three 'have it already' codes, decided by the solver), subscription failure}; balance compared for symbolic minconf 0..10"},
			{Pkg: walletPkg, Fn: "ZzC20PublishChained", Tiers: "qt", Reach: []string{"c20-end", "chained", "failed"}, Bound: "same with an earlier unconfirmed send whose change is spent"},
			{Pkg: walletPkg, Fn: "ZzC20Resend", Tiers: "qt", Reach: []string{"c20-end", "resent", "resend-rejected"}, Bound: "unconfirmed parent and child; resendUnminedTxs with acceptance or rejection of the parent; after acceptance a second resynchronisation offers both again"},
			{Pkg: walletPkg, Fn: "ZzC20ResendMany", Tiers: "qt", Reach: []string{"c20-end", "some-rejected", "classified-rejection"}, Bound: "three unconfirmed transactions (parent, child, independent one); on rebroadcast each is accepted or rejected independently, the reject code symbolic over every reason the chain package knows"},
		{Pkg: walletPkg, Fn: "ZzC20ResyncPipeline", Tiers: "qt", Sched: true, Reach: []string{"c20-end"}, Bound: "an accepted unconfirmed send, then two resynchronisations through the real rescan batch/RPC/progress goroutines, each finishing at the same tip; every interleaving without preemptive switches"},
		{Pkg: walletPkg, Fn: "ZzC20ResyncPipelineP1", Tiers: "t", Sched: true, Reach: []string{"c20-end"}, Bound: "three resynchronisations, at most one preemptive switch (29 952 interleavings)"},
		{Pkg: walletPkg, Fn: "ZzC20ResendIncoming", Tiers: "qt", Reach: []string{"c20-end", "resent", "some-rejected", "classified-rejection"}, Bound: "four unconfirmed wallet transactions: an incoming payment R (no wallet inputs), C spending R's output, a send X whose payment goes to a stranger, S spending that stranger's output back to the wallet (linked to X only through a non-credit output); on rebroadcast R and X are accepted or rejected independently (symbolic reject code)"},
		},
		Assume:  append([]string{"transactions are built by the harness (unsigned): publishing does not verify signatures"}, walletAssume...),
		Outside: "longer histories, several simultaneous unconfirmed chains, leases on the inputs, the real rpc error mapping of each backend (chain.MapRPCErr)",
	})
	reg(&propDef{
		ID: "C06",
		Runs: []hrun{
			{Pkg: walletPkg, Fn: "ZzC06Eligible", Tiers: "qt", Reach: []string{"c06-end", "several-eligible"}, Bound: "wallet with 9 credits (confirmed early/late, other scope, unconfirmed, coinbase, spent by an unconfirmed tx, locked, leased, other account); findEligibleOutputs for scope in {any, BIP84, BIP49+} x account in {0,1} with SYMBOLIC minconf, chain height and coinbase maturity"},
			{Pkg: walletPkg, Fn: "ZzC06CreateSmall", Tiers: "qt", Reach: []string{"c06-end", "ineligible-refused", "second-send", "several-inputs"}, Bound: "txToOutputs on the same wallet made watching-only (authored and committed, not signed): largest-first, minconf 0..1, no explicit input or the locked coin, symbolic amount; then publish and create a second transaction"},
			{Pkg: walletPkg, Fn: "ZzC06Create", Tiers: "t", Reach: []string{"c06-end", "ineligible-refused", "second-send", "insufficient"}, Bound: "both strategies (every shuffle order), explicit input from {none, eligible, leased, locked, spent}"},
			{Pkg: walletPkg, Fn: "ZzC06CreateFull", Tiers: "t", Reach: []string{"c06-end", "ineligible-refused"}, Bound: "minconf 0..2, every coin as explicit input"},
		},
		Assume: append([]string{
			"NOT covered: 'every input carries a signature that verifies under standard script rules' - ECDSA/Schnorr signing and the script VM cannot be encoded; transactions are authored on a watching-only wallet and stay unsigned",
			"the lease cannot expire within the modelled clock range (100-year lease): lease expiry is C12's subject",
			"math/rand picks (coin shuffle, change position) are explored exhaustively",
		}, walletAssume...),
		Outside: "signature validity; longer send sequences; reorgs between sends (C01/C02 cover the store side); PSBT funding paths",
	})
	reg(&propDef{
		ID: "C09",
		Runs: []hrun{
			{Pkg: walletPkg, Fn: "ZzC09B1All", Tiers: "qt", Sched: true, Reach: []string{"c09-end"}, Bound: "2 goroutines, one call each from {NewAddress, NewChangeAddress, CurrentAddress} on the same account, every interleaving of their synchronisation operations with at most 1 preemptive context switch (the database model yields between releasing the writer lock and running the commit handlers)"},
			{Pkg: walletPkg, Fn: "ZzC09B2", Tiers: "qt", Sched: true, Reach: []string{"c09-end"}, Bound: "NewAddress/NewChangeAddress pairs, at most 2 preemptions"},
			{Pkg: walletPkg, Fn: "ZzC09B2All", Tiers: "t", Sched: true, Reach: []string{"c09-end"}, Bound: "all 9 pairs, at most 2 preemptions"},
			{Pkg: walletPkg, Fn: "ZzC09B1Six", Tiers: "qt", Sched: true, Reach: []string{"c09-end", "spending-caller", "dry-run-caller"}, Bound: "all 36 pairs from {NewAddress, NewChangeAddress, CurrentAddress, txToOutputs needing change, FundPsbt with a supplied input needing change, ImportAccountDryRun of a foreign account key into the same key scope} - all six newAddrMtx sites (funded watching-only wallet for the spending callers), at most 1 preemption"},
			{Pkg: walletPkg, Fn: "ZzC09B1Imported", Tiers: "qt", Sched: true, Reach: []string{"c09-end", "spending-caller"}, Bound: "a transaction spending the coin of an IMPORTED key (its change address is issued from account 0) concurrent with NewChangeAddress(0) (both orders), txToOutputs from account 0, FundPsbt: at most 1 preemption"},
			{Pkg: walletPkg, Fn: "ZzC09B2Imported", Tiers: "t", Sched: true, Reach: []string{"c09-end", "spending-caller"}, Bound: "6 pairs with the imported-account spender, at most 2 preemptions"},
			{Pkg: walletPkg, Fn: "ZzC09B2Six", Tiers: "t", Sched: true, Reach: []string{"c09-end", "spending-caller", "dry-run-caller"}, Bound: "all 36 pairs, at most 2 preemptions"},
		},
		Assume: append([]string{
			"context switches only at synchronisation operations (mutexes, channel operations, the explicit yield in memdb.Commit); data-race freedom is assumed, not checked",
			"schedule-dependent counterexamples are confirmed natively only if the Go scheduler happens to reproduce them; otherwise by deterministic re-execution in the executor",
			"all six newAddrMtx call sites are driven (NewAddress, NewChangeAddress, CurrentAddress, txToOutputs, FundPsbt with supplied inputs, ImportAccountDryRun); removing the mutex at the dry-run site ALONE is not reported: its transaction never commits, so it has no post-commit window and no schedule within the bound makes it break the statement (tried)",
			"the spending callers run on a wallet made watching-only, so the authored transactions are not signed",
		}, walletAssume...),
		Outside: "more than 2 concurrent callers, more than 2 preemptions, recovery's unlocked ExtendExternal/InternalAddresses, real bbolt locking",
	})
	reg(&propDef{
		ID: "C11",
		Runs: []hrun{
			{Pkg: bdbPkg, Fn: "ZzC11T2O1", Tiers: "qt", Sched: true, Witnesses: 12, Reach: []string{"c11-end", "committed", "aborted", "panicked", "empty-value", "view-failed", "view-panicked", "top-level-deleted"}, Bound: "2 managed updates (committed, failed or panicking) of 1 operation each from {put top/nested, delete, delete nested bucket, sequence, incompatible put/create, create / look up + delete + look up a second top-level bucket} over keys a,b,c with symbolic 2-byte, empty or nil values; full read-back (cursor both ways, Get, Seek, nested bucket, read-only writes) after each; finally a View that succeeds, fails or panics, then close (which waits for open transactions) and reopen"},
			{Pkg: bdbPkg, Fn: "ZzC11T1O2", Tiers: "qt", Sched: true, Witnesses: 12, Reach: []string{"c11-end", "committed", "aborted", "panicked"}, Bound: "1 update of 2 operations"},
			{Pkg: bdbPkg, Fn: "ZzC11Batch", Tiers: "qt", NoNative: true, Reach: []string{"c11-end", "coalesced", "function-run-again"}, Bound: "walletdb.Batch of one put (symbolic value) coalesced by the bbolt model with no, a succeeding or a failing function of another caller, before or after it; own function succeeds or fails (model of bbolt batch.run: shared update, failing member taken out, others run again)"},
			{Pkg: bdbPkg, Fn: "ZzC11T2O2", Tiers: "t", Sched: true, Witnesses: 24, Reach: []string{"c11-end"}, Bound: "2 updates of 2 operations over keys a,b (no final read-only transaction variants): 944 784 paths"},
			{Pkg: bdbPkg, Fn: "ZzC11T3O1", Tiers: "t", Sched: true, Witnesses: 24, Reach: []string{"c11-end"}, Bound: "3 updates of 1 operation over keys a,b,c (no final read-only transaction variants)"},
		},
		Assume: []string{
			"what is decided is the ADAPTER (walletdb.Update/View, bdb.(*db).Update/View/Begin*, transaction, bucket, cursor, convertErr) over 'mbolt', a model of bbolt's documented API contract installed with verifrt.StubFunc; bbolt's own atomicity, ordering and durability (mmap, file format, fsync) cannot be encoded and are outside",
			"the model is validated on every run: witness paths are replayed natively, where the same harness runs against a real bbolt file including close/reopen (traces_validated_against_impl)",
			"a native run of a counterexample in which the adapter leaks the write transaction would block forever in bbolt; such counterexamples are confirmed by re-execution in the executor",
		},
		Outside: "keys outside {a,b,c}, more than 3 transactions, Batch, concurrent transactions, bbolt itself",
	})
}
