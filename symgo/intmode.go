package main

// Integer mode: an alternative SMT encoding for queries whose bit-vector
// arithmetic (multiplication, division by constants that are not powers of
// two) stalls bit-blasting. A term is translated to mathematical integers
// only if an interval analysis, seeded by the variable bounds asserted on the
// path, proves that no operation can leave the machine range (signed view)
// and that unsigned operations only see non-negative values; then machine
// and mathematical semantics coincide, so the verdict carries over. If any
// node cannot be bounded the translation is refused and the bit-vector
// encoding is used instead.

import (
	"bytes"
	"fmt"
	"math/big"
	"regexp"
	"runtime"
	"strings"
	"sync/atomic"
	"time"
)

type ival struct {
	lo, hi *big.Int
}

var (
	bigOne = big.NewInt(1)
)

func debugStack() string {
	buf := make([]byte, 4096)
	n := runtime.Stack(buf, false)
	ls := strings.Split(string(buf[:n]), "\n")
	if len(ls) > 12 {
		ls = ls[5:12]
	}
	return strings.Join(ls, "\n")
}

func pow2(n int) *big.Int { return new(big.Int).Lsh(bigOne, uint(n)) }

func signedRange(w int) ival {
	h := pow2(w - 1)
	return ival{new(big.Int).Neg(h), new(big.Int).Sub(h, bigOne)}
}

func (a ival) within(b ival) bool { return a.lo.Cmp(b.lo) >= 0 && a.hi.Cmp(b.hi) <= 0 }
func (a ival) nonneg() bool      { return a.lo.Sign() >= 0 }

type intCtx struct {
	tt     *TermTable
	bounds map[*Term]ival // variables
	rng    map[*Term]*ival
	expr   map[*Term]string
	ok     bool
	vars   map[*Term]bool
	defs   bytes.Buffer
	ndef   int
	rels   []varRel
}

// varRel: lo <= hi (or lo < hi when strict) between two variables, signed.
type varRel struct {
	lo, hi *Term
	strict bool
}

// propagateRelations carries constant bounds across variable-variable
// inequalities (a1 <= a0 and a0 <= 2^40 bound a1 too).
func (c *intCtx) propagateRelations() {
	for round := 0; round < 6; round++ {
		changed := false
		for _, r := range c.rels {
			bl, okl := c.bounds[r.lo]
			bh, okh := c.bounds[r.hi]
			if !okl {
				bl = signedRange(r.lo.W)
			}
			if !okh {
				bh = signedRange(r.hi.W)
			}
			hi := new(big.Int).Set(bh.hi)
			lo := new(big.Int).Set(bl.lo)
			if r.strict {
				hi.Sub(hi, bigOne)
				lo.Add(lo, bigOne)
			}
			if hi.Cmp(bl.hi) < 0 {
				c.tighten(r.lo, nil, hi)
				changed = true
			}
			if lo.Cmp(bh.lo) > 0 {
				c.tighten(r.hi, lo, nil)
				changed = true
			}
		}
		if !changed {
			return
		}
	}
}

func sval(t *Term) *big.Int { return big.NewInt(sx(t.Val, t.W)) }

// collectBounds tightens variable bounds from asserted atoms of the form
// (bvsle c x), (bvslt c x), (bvsle x c), (bvslt x c), unsigned variants with
// small constants, and conjunctions of those.
func (c *intCtx) collectBounds(t *Term) {
	switch t.Op {
	case OpBAnd:
		c.collectBounds(t.A)
		c.collectBounds(t.B)
	case OpSle, OpSlt, OpUle, OpUlt:
		strict := t.Op == OpSlt || t.Op == OpUlt
		unsigned := t.Op == OpUle || t.Op == OpUlt
		if t.A.IsConst() && c.boundable(t.B) {
			v := sval(t.A)
			if unsigned {
				// an unsigned lower bound says nothing in the signed view
				return
			}
			if strict {
				v = new(big.Int).Add(v, bigOne)
			}
			c.tighten(t.B, v, nil)
		} else if !unsigned && c.boundable(t.A) && c.boundable(t.B) {
			// x <= y / x < y between two variables: remembered, propagated
			// once the constant bounds are known (propagateRelations)
			c.rels = append(c.rels, varRel{t.A, t.B, strict})
		} else if t.B.IsConst() && c.boundable(t.A) {
			v := sval(t.B)
			if unsigned {
				if v.Sign() < 0 {
					return
				}
				c.tighten(t.A, big.NewInt(0), nil)
			}
			if strict {
				v = new(big.Int).Sub(v, bigOne)
			}
			c.tighten(t.A, nil, v)
		}
	}
}

// boundable: variables, and zero-extensions / low extracts of variables are
// tracked through their variable.
func (c *intCtx) boundable(t *Term) bool { return t.Op == OpVar }

func (c *intCtx) tighten(v *Term, lo, hi *big.Int) {
	b, ok := c.bounds[v]
	if !ok {
		b = signedRange(v.W)
	}
	if lo != nil && lo.Cmp(b.lo) > 0 {
		b.lo = lo
	}
	if hi != nil && hi.Cmp(b.hi) < 0 {
		b.hi = hi
	}
	c.bounds[v] = b
}

func (c *intCtx) fail() (string, *ival) {
	if c.ok && verbose {
		debugf("intmode refused at:\n%s", debugStack())
	}
	c.ok = false
	return "0", &ival{big.NewInt(0), big.NewInt(0)}
}

func lit(v *big.Int) string {
	if v.Sign() < 0 {
		return "(- " + new(big.Int).Neg(v).String() + ")"
	}
	return v.String()
}

func minmax(vs ...*big.Int) ival {
	lo, hi := vs[0], vs[0]
	for _, v := range vs[1:] {
		if v.Cmp(lo) < 0 {
			lo = v
		}
		if v.Cmp(hi) > 0 {
			hi = v
		}
	}
	return ival{lo, hi}
}

// tr translates a bit-vector term (signed view) to an Int expression.
func (c *intCtx) tr(t *Term) (string, *ival) {
	if e, ok := c.expr[t]; ok {
		return e, c.rng[t]
	}
	if !c.ok {
		return c.fail()
	}
	var e string
	var r ival
	mach := signedRange(max(t.W, 1))
	switch t.Op {
	case OpConst:
		v := sval(t)
		e, r = lit(v), ival{v, v}
	case OpVar:
		b, ok := c.bounds[t]
		if !ok {
			b = mach
		}
		c.vars[t] = true
		e, r = smtName(t), b
	case OpAdd, OpSub, OpMul:
		ea, ra := c.tr(t.A)
		eb, rb := c.tr(t.B)
		if !c.ok {
			return c.fail()
		}
		switch t.Op {
		case OpAdd:
			r = ival{new(big.Int).Add(ra.lo, rb.lo), new(big.Int).Add(ra.hi, rb.hi)}
			e = "(+ " + ea + " " + eb + ")"
		case OpSub:
			r = ival{new(big.Int).Sub(ra.lo, rb.hi), new(big.Int).Sub(ra.hi, rb.lo)}
			e = "(- " + ea + " " + eb + ")"
		default:
			r = minmax(new(big.Int).Mul(ra.lo, rb.lo), new(big.Int).Mul(ra.lo, rb.hi),
				new(big.Int).Mul(ra.hi, rb.lo), new(big.Int).Mul(ra.hi, rb.hi))
			e = "(* " + ea + " " + eb + ")"
		}
		if !r.within(mach) {
			debugf("intmode: possible overflow: %s range [%s,%s] operands [%s,%s] [%s,%s]", t.String(), r.lo, r.hi, ra.lo, ra.hi, rb.lo, rb.hi)
			return c.fail()
		}
	case OpNeg:
		ea, ra := c.tr(t.A)
		r = ival{new(big.Int).Neg(ra.hi), new(big.Int).Neg(ra.lo)}
		e = "(- " + ea + ")"
		if !r.within(mach) {
			return c.fail()
		}
	case OpSDiv, OpUDiv, OpSRem, OpURem:
		if !t.B.IsConst() || sval(t.B).Sign() <= 0 {
			return c.fail()
		}
		ea, ra := c.tr(t.A)
		if !c.ok {
			return c.fail()
		}
		d := sval(t.B)
		if (t.Op == OpUDiv || t.Op == OpURem) && !ra.nonneg() {
			return c.fail()
		}
		ds := lit(d)
		if t.Op == OpSDiv || t.Op == OpUDiv {
			if ra.nonneg() {
				e = "(div " + ea + " " + ds + ")"
			} else {
				// Go truncates toward zero
				e = "(ite (>= " + ea + " 0) (div " + ea + " " + ds + ") (- (div (- " + ea + ") " + ds + ")))"
			}
			r = ival{new(big.Int).Quo(ra.lo, d), new(big.Int).Quo(ra.hi, d)}
		} else {
			if !ra.nonneg() {
				return c.fail()
			}
			e = "(mod " + ea + " " + ds + ")"
			r = ival{big.NewInt(0), new(big.Int).Sub(d, bigOne)}
		}
	case OpIte:
		ec := c.trBool(t.A)
		ea, ra := c.tr(t.B)
		eb, rb := c.tr(t.C)
		if !c.ok {
			return c.fail()
		}
		e = "(ite " + ec + " " + ea + " " + eb + ")"
		r = minmax(ra.lo, ra.hi, rb.lo, rb.hi)
	case OpConcat:
		// zero extension only
		if !isZeroConst(t.A) {
			return c.fail()
		}
		ea, ra := c.tr(t.B)
		if !c.ok || !ra.nonneg() {
			return c.fail()
		}
		e, r = ea, *ra
	case OpSExt:
		ea, ra := c.tr(t.A)
		if !c.ok {
			return c.fail()
		}
		e, r = ea, *ra
	case OpExtract:
		// truncation of a value that fits
		if t.Val&0xff != 0 {
			debugf("intmode: extract with low bit != 0: %s", t.String())
			return c.fail()
		}
		ea, ra := c.tr(t.A)
		if !c.ok || !ra.within(mach) {
			return c.fail()
		}
		e, r = ea, *ra
	default:
		return c.fail()
	}
	// share big subterms through definitions
	if len(e) > 60 {
		c.ndef++
		name := fmt.Sprintf("i%d", c.ndef)
		fmt.Fprintf(&c.defs, "(define-fun %s () Int %s)\n", name, e)
		e = name
	}
	c.expr[t] = e
	rr := r
	c.rng[t] = &rr
	return e, &rr
}

func (c *intCtx) trBool(t *Term) string {
	if e, ok := c.expr[t]; ok {
		return e
	}
	if !c.ok {
		return "true"
	}
	var e string
	switch t.Op {
	case OpConst:
		if t.Val == 1 {
			e = "true"
		} else {
			e = "false"
		}
	case OpVar:
		c.vars[t] = true
		e = smtName(t)
	case OpBNot:
		e = "(not " + c.trBool(t.A) + ")"
	case OpBAnd:
		e = "(and " + c.trBool(t.A) + " " + c.trBool(t.B) + ")"
	case OpBOr:
		e = "(or " + c.trBool(t.A) + " " + c.trBool(t.B) + ")"
	case OpIte:
		e = "(ite " + c.trBool(t.A) + " " + c.trBool(t.B) + " " + c.trBool(t.C) + ")"
	case OpEq:
		if t.A.W == 0 {
			e = "(= " + c.trBool(t.A) + " " + c.trBool(t.B) + ")"
		} else {
			ea, _ := c.tr(t.A)
			eb, _ := c.tr(t.B)
			e = "(= " + ea + " " + eb + ")"
		}
	case OpSlt, OpSle, OpUlt, OpUle:
		ea, ra := c.tr(t.A)
		eb, rb := c.tr(t.B)
		if !c.ok {
			return "true"
		}
		if (t.Op == OpUlt || t.Op == OpUle) && !(ra.nonneg() && rb.nonneg()) {
			c.ok = false
			return "true"
		}
		op := "<"
		if t.Op == OpSle || t.Op == OpUle {
			op = "<="
		}
		e = "(" + op + " " + ea + " " + eb + ")"
	default:
		c.ok = false
		return "true"
	}
	if len(e) > 60 {
		c.ndef++
		name := fmt.Sprintf("b%d", c.ndef)
		fmt.Fprintf(&c.defs, "(define-fun %s () Bool %s)\n", name, e)
		e = name
	}
	c.expr[t] = e
	return e
}

var intModelRe = regexp.MustCompile(`\(\s*(\|[^|]*\|)\s+(\(-\s*\d+\)|\d+|true|false)\s*\)`)

// intMode decides pc ∧ extra in the integer encoding. ok=false means the
// translation was refused (use the bit-vector encoding).
func (s *Solver) intMode(tt *TermTable, extra *Term, timeout time.Duration) (res string, model map[string]uint64, ok bool) {
	c := &intCtx{tt: tt, bounds: map[*Term]ival{}, rng: map[*Term]*ival{}, expr: map[*Term]string{}, ok: true, vars: map[*Term]bool{}}
	all := append([]*Term{}, s.asserted...)
	if extra != nil {
		all = append(all, extra)
	}
	for _, a := range s.asserted {
		c.collectBounds(a)
	}
	c.propagateRelations()
	var asserts []string
	for _, a := range all {
		e := c.trBool(a)
		if !c.ok {
			atomic.AddInt64(&gstats.IntModeRefused, 1)
			return "unknown", nil, false
		}
		asserts = append(asserts, e)
	}
	var b bytes.Buffer
	var names []string
	for v := range c.vars {
		if v.W == 0 {
			fmt.Fprintf(&b, "(declare-const %s Bool)\n", smtName(v))
		} else {
			fmt.Fprintf(&b, "(declare-const %s Int)\n", smtName(v))
			r := signedRange(v.W)
			fmt.Fprintf(&b, "(assert (and (<= %s %s) (<= %s %s)))\n", lit(r.lo), smtName(v), smtName(v), lit(r.hi))
		}
		names = append(names, smtName(v))
	}
	b.Write(c.defs.Bytes())
	for _, e := range asserts {
		fmt.Fprintf(&b, "(assert %s)\n", e)
	}
	b.WriteString("(check-sat)\n")
	if len(names) > 0 {
		fmt.Fprintf(&b, "(get-value (%s))\n", strings.Join(names, " "))
	}
	atomic.AddInt64(&gstats.IntMode, 1)
	t0 := time.Now()
	res, _, out := oneShotRaw([]string{"z3-new", "-in", "-smt2", fmt.Sprintf("-T:%d", int(timeout.Seconds())+1)}, b.String(), timeout+5*time.Second)
	if res == "unknown" {
		res, _, out = oneShotRaw([]string{"cvc5", "--lang", "smt2", "--produce-models", fmt.Sprintf("--tlimit=%d", timeout.Milliseconds())},
			"(set-logic ALL)\n"+b.String(), timeout+5*time.Second)
	}
	atomic.AddInt64(&gstats.Nanos, int64(time.Since(t0)))
	if res == "unknown" && slowLogDir != "" {
		n := atomic.AddInt64(&slowN, 1)
		writeFileQuiet(fmt.Sprintf("%s/intmode-unknown-%d.smt2", slowLogDir, n), b.String())
	}
	if res == "sat" {
		model = map[string]uint64{}
		for _, g := range intModelRe.FindAllStringSubmatch(out, -1) {
			name := strings.Trim(g[1], "|")
			switch {
			case g[2] == "true":
				model[name] = 1
			case g[2] == "false":
				model[name] = 0
			default:
				v := new(big.Int)
				txt := strings.NewReplacer("(", "", ")", "", " ", "").Replace(g[2])
				v.SetString(txt, 10)
				model[name] = uint64(v.Int64())
			}
		}
		// mask to the variables' widths
		for v := range c.vars {
			if v.W > 0 && v.W < 64 {
				model[v.Name] &= mask(v.W)
			}
		}
	}
	switch res {
	case "sat":
		atomic.AddInt64(&gstats.Sat, 1)
	case "unsat":
		atomic.AddInt64(&gstats.Unsat, 1)
	}
	return res, model, true
}
