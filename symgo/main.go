package main

import (
	"encoding/json"
	"flag"
	"fmt"
	"os"
	"os/exec"
	"path/filepath"
	"runtime"
	"runtime/debug"
	"runtime/pprof"
	"sort"
	"strconv"
	"strings"
	"time"
)

func usage() {
	fmt.Fprintln(os.Stderr, `usage:
  symgo check <Cxx> [--tier quick|thorough]     run the registered harnesses of a property
  symgo run <pkgpath> <Func> [flags]            run one harness (development)
  symgo replay <replay.json>                    replay a recorded counterexample natively
  symgo selftest                                translator self-test (engine vs native)`)
	os.Exit(2)
}

func main() {
	debug.SetGCPercent(400)
	if len(os.Args) < 2 {
		usage()
	}
	switch os.Args[1] {
	case "check":
		os.Exit(cmdCheck(os.Args[2:]))
	case "run":
		os.Exit(cmdRun(os.Args[2:]))
	case "replay":
		os.Exit(cmdReplay(os.Args[2:]))
	case "selftest":
		os.Exit(cmdSelftest(os.Args[2:]))
	case "list":
		// the registry as JSON (used by gen_design.py / gen_manifest.py)
		ids := make([]string, 0, len(props))
		for id := range props {
			ids = append(ids, id)
		}
		sort.Strings(ids)
		var out []*propDef
		for _, id := range ids {
			out = append(out, props[id])
		}
		b, _ := json.MarshalIndent(out, "", " ")
		fmt.Println(string(b))
	default:
		usage()
	}
}

func envSeed() int64 {
	if s := os.Getenv("VERIF_SEED"); s != "" {
		if n, err := strconv.ParseInt(s, 10, 64); err == nil {
			return n
		}
	}
	return 0
}

func envWorkers() int {
	if s := os.Getenv("SYMGO_WORKERS"); s != "" {
		if n, err := strconv.Atoi(s); err == nil && n > 0 {
			return n
		}
	}
	return runtime.NumCPU()
}

func defaultConfig() Config {
	return Config{
		Workers:       envWorkers(),
		MaxSteps:      20_000_000,
		FeasTimeoutMs: 3000,
		AssertTimeout: 20000,
		MaxViolations: 8,
		Seed:          envSeed(),
	}
}

// ---------------------------------------------------------------- run

func cmdRun(args []string) int {
	fs := flag.NewFlagSet("run", flag.ExitOnError)
	workers := fs.Int("workers", runtime.NumCPU(), "workers")
	maxPaths := fs.Int64("max-paths", 0, "path budget")
	maxSteps := fs.Int64("max-steps", 20_000_000, "SSA steps per path")
	trace := fs.Bool("trace", false, "trace instructions (use with -workers 1)")
	cpuprof := fs.String("cpuprofile", "", "write cpu profile")
	fixed := fs.String("choices", "", "comma-separated choices: deterministic concrete re-execution (inputs zero)")
	if len(args) < 2 {
		usage()
	}
	fs.Parse(args[2:])
	if *cpuprof != "" {
		f, _ := os.Create(*cpuprof)
		pprof.StartCPUProfile(f)
		defer pprof.StopCPUProfile()
	}
	P, err := loadProgram([]string{args[0]})
	if err != nil {
		fmt.Fprintln(os.Stderr, err)
		return 2
	}
	fn, err := P.findFunc(args[0], args[1])
	if err != nil {
		fmt.Fprintln(os.Stderr, err)
		return 2
	}
	cfg := defaultConfig()
	cfg.Workers = *workers
	cfg.MaxPaths = *maxPaths
	cfg.MaxSteps = *maxSteps
	cfg.Harness = args[1]
	cfg.PkgPath = args[0]
	cfg.Verbose = true
	if strings.HasSuffix(*fixed, ".json") {
		b, err := os.ReadFile(*fixed)
		if err != nil {
			fmt.Fprintln(os.Stderr, err)
			return 2
		}
		var rep struct {
			Model   map[string]uint64
			Choices []int `json:"all_choices"`
		}
		json.Unmarshal(b, &rep)
		cfg.FixedModel = rep.Model
		if cfg.FixedModel == nil {
			cfg.FixedModel = map[string]uint64{}
		}
		cfg.FixedChoices = rep.Choices
		cfg.Workers = 1
	} else if *fixed != "" {
		cfg.FixedModel = map[string]uint64{}
		for _, c := range strings.Split(*fixed, ",") {
			n, _ := strconv.Atoi(strings.TrimSpace(c))
			cfg.FixedChoices = append(cfg.FixedChoices, n)
		}
		cfg.Workers = 1
	}
	traceAll = *trace
	t0 := time.Now()
	e := newExplorer(P, fn, cfg)
	e.Run()
	e.summary(os.Stdout, time.Since(t0))
	if os.Getenv("SYMGO_STUBS") != "" {
		var names []string
		for n, c := range e.stubs {
			names = append(names, fmt.Sprintf("%s x%d", n, c))
		}
		sort.Strings(names)
		fmt.Println("  stubs hit:\n    " + strings.Join(names, "\n    "))
	}
	if branchStats != nil {
		type kv struct {
			k string
			v int
		}
		var kvs []kv
		for k, v := range branchStats {
			kvs = append(kvs, kv{k, v})
		}
		sort.Slice(kvs, func(a, b int) bool { return kvs[a].v > kvs[b].v })
		for k, x := range kvs {
			if k < 40 {
				fmt.Printf("  %6d queries at %s\n", x.v, x.k)
			}
		}
	}
	lastProgram = P
	for k := range e.violations {
		ok, path, detail := confirmViolation(&e.violations[k], "DEV", args[0], k)
		fmt.Printf("  replay %s: confirmed=%v %s\n", path, ok, detail)
	}
	if len(e.violations) > 0 {
		return 1
	}
	if len(e.inconclusive) > 0 {
		return 2
	}
	return 0
}

var traceAll bool

func (e *Explorer) summary(w *os.File, d time.Duration) {
	fmt.Fprintf(w, "harness %s: paths=%d done=%d infeasible=%d solver-forks=%d forced=%d struct-forks=%d asserts=%d (trivial %d) steps=%d wall=%.1fs\n",
		e.cfg.Harness, e.paths, e.pathsDone, e.infeasible, e.solverForks, e.forcedBranches, e.structForks,
		e.assertsDischarged, e.assertsTriv, e.steps, d.Seconds())
	fmt.Fprintf(w, "  solver: sat=%d unsat=%d unknown=%d errors=%d time=%.1fs escalated=%d\n",
		gstats.Sat, gstats.Unsat, gstats.Unknown, gstats.Errors, float64(gstats.Nanos)/1e9, gstats.Escalated)
	var labels []string
	for l := range e.reach {
		labels = append(labels, fmt.Sprintf("%s=%d", l, e.reach[l]))
	}
	sort.Strings(labels)
	fmt.Fprintf(w, "  reach: %s\n", strings.Join(labels, " "))
	for _, m := range e.inconclusive {
		fmt.Fprintf(w, "  INCONCLUSIVE: %s\n", m)
	}
	for k, n := range e.knownHits {
		fmt.Fprintf(w, "  known finding hit %d times: %s\n", n, k)
	}
	for _, v := range e.violations {
		b, _ := json.Marshal(v)
		fmt.Fprintf(w, "  VIOLATION-CANDIDATE %s\n", b)
	}
}

// ---------------------------------------------------------------- replay

// nativeReplay runs the harness natively (go test -overlay) under the model
// and reports which assertion labels failed.
func nativeReplay(pkgPath, harness, replayPath string) (failed []string, mismatch []string, panicked string, out string, err error) {
	_, paths, err := overlayFor(true)
	if err != nil {
		return nil, nil, "", "", err
	}
	tmp, err := os.MkdirTemp(filepath.Join(verifRoot, "replays"), "tmp")
	if err != nil {
		return nil, nil, "", "", err
	}
	defer os.RemoveAll(tmp)
	pkgDir := repoDirOf(pkgPath)
	pkgName := filepath.Base(pkgDir)
	if P := lastProgram; P != nil {
		if p := P.pkgByPath[pkgPath]; p != nil {
			pkgName = p.Pkg.Name()
		}
	}
	testSrc := fmt.Sprintf(`package %s

import (
	"fmt"
	"os"
	"testing"

	"verif/verifrt"
)

func TestZzVerifReplay(t *testing.T) {
	if err := verifrt.Load(os.Getenv("VERIF_REPLAY")); err != nil {
		t.Fatal(err)
	}
	failed, mismatch, p := verifrt.Run(%s)
	fmt.Printf("REPLAY-RESULT failed=%%q mismatch=%%q panic=%%q\n", failed, mismatch, fmt.Sprint(p))
}
`, pkgName, harness)
	testFile := filepath.Join(tmp, "zz_verif_replay_test.go")
	if err := os.WriteFile(testFile, []byte(testSrc), 0o644); err != nil {
		return nil, nil, "", "", err
	}
	repl := map[string]string{filepath.Join(pkgDir, "zz_verif_replay_test.go"): testFile}
	for target, real := range paths {
		repl[target] = real
	}
	ovb, _ := json.Marshal(map[string]interface{}{"Replace": repl})
	ovFile := filepath.Join(tmp, "overlay.json")
	os.WriteFile(ovFile, ovb, 0o644)
	cmd := exec.Command("go", "test", "-v", "-vet=off", "-count=1", "-tags=verif", "-overlay", ovFile,
		"-run", "^TestZzVerifReplay$", "-timeout", "120s", pkgPath)
	cmd.Dir = verifRoot
	cmd.Env = append(os.Environ(), "GOFLAGS=-mod=mod", "GOPROXY=off", "GOSUMDB=off", "GOTOOLCHAIN=local",
		"VERIF_REPLAY="+replayPath)
	ob, _ := cmd.CombinedOutput()
	out = string(ob)
	if os.Getenv("VERIF_REPLAY_STACK") != "" {
		fmt.Println(out)
	}
	for _, l := range strings.Split(out, "\n") {
		if strings.HasPrefix(l, "REPLAY-RESULT ") {
			var f, m []string
			var p string
			// failed=["a" "b"] mismatch=[] panic="<nil>"
			rest := strings.TrimPrefix(l, "REPLAY-RESULT ")
			fi := strings.Index(rest, "failed=[")
			mi := strings.Index(rest, "] mismatch=[")
			pi := strings.Index(rest, "] panic=")
			if fi >= 0 && mi > fi && pi > mi {
				f = parseQuotedList(rest[fi+len("failed=[") : mi])
				m = parseQuotedList(rest[mi+len("] mismatch=[") : pi])
				p, _ = strconv.Unquote(rest[pi+len("] panic="):])
			}
			if p == "<nil>" {
				p = ""
			}
			return f, m, p, out, nil
		}
	}
	return nil, nil, "", out, fmt.Errorf("native replay produced no result line")
}

func parseQuotedList(s string) []string {
	var out []string
	s = strings.TrimSpace(s)
	for len(s) > 0 {
		if s[0] != '"' {
			break
		}
		// find the closing quote
		k := 1
		for k < len(s) {
			if s[k] == '\\' {
				k += 2
				continue
			}
			if s[k] == '"' {
				break
			}
			k++
		}
		if k >= len(s) {
			break
		}
		u, err := strconv.Unquote(s[:k+1])
		if err == nil {
			out = append(out, u)
		}
		s = strings.TrimSpace(s[k+1:])
	}
	return out
}

var lastProgram *Program

func cmdReplay(args []string) int {
	if len(args) < 1 {
		usage()
	}
	b, err := os.ReadFile(args[0])
	if err != nil {
		fmt.Fprintln(os.Stderr, err)
		return 2
	}
	var r struct {
		Property, Harness, Package, Label string
	}
	if err := json.Unmarshal(b, &r); err != nil {
		fmt.Fprintln(os.Stderr, err)
		return 2
	}
	abs, _ := filepath.Abs(args[0])
	failed, mismatch, p, out, err := nativeReplay(r.Package, r.Harness, abs)
	if err != nil {
		fmt.Println(out)
		fmt.Fprintln(os.Stderr, err)
		return 2
	}
	fmt.Printf("replay of %s (%s): failed assertions %q, panic %q, mismatch %q\n", r.Property, r.Harness, failed, p, mismatch)
	if len(failed) > 0 || p != "" {
		fmt.Printf("VIOLATION property=%s replay=%s\n", r.Property, abs)
		return 1
	}
	return 0
}

func writeReplayFile(v *Violation, property, pkgPath string, n int) string {
	os.MkdirAll(filepath.Join(verifRoot, "replays"), 0o755)
	path := filepath.Join(verifRoot, "replays", fmt.Sprintf("%s-%s-%d.json", property, v.Harness, n))
	rep := map[string]interface{}{
		"property": property, "harness": v.Harness, "package": pkgPath, "label": v.Label,
		"model": v.Model, "choices": v.Choices, "all_choices": v.AllChoices, "observe": v.Observe, "trace": v.Trace,
	}
	writeJSON(path, rep)
	v.Replay = path
	return path
}

// confirmViolation writes the replay file of v and runs it natively.
func confirmViolation(v *Violation, property, pkgPath string, n int) (bool, string, string) {
	path := writeReplayFile(v, property, pkgPath, n)
	failed, mismatch, panicked, out, err := nativeReplay(pkgPath, v.Harness, path)
	if err != nil {
		tail := out
		if len(tail) > 1500 {
			tail = tail[len(tail)-1500:]
		}
		return false, path, "native replay failed to run: " + err.Error() + "\n" + tail
	}
	detail := fmt.Sprintf("native: failed=%q panic=%q mismatch=%q", failed, panicked, mismatch)
	for _, f := range failed {
		if f == v.Label {
			return true, path, detail
		}
	}
	if panicked != "" && strings.HasPrefix(v.Label, "uncaught panic") {
		return true, path, detail
	}
	return false, path, detail
}
