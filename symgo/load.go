package main

import (
	"fmt"
	"go/types"
	"os"
	"path/filepath"
	"strings"
	"time"

	"golang.org/x/tools/go/packages"
	"golang.org/x/tools/go/ssa"
	"golang.org/x/tools/go/ssa/ssautil"
)

// verifRoot and repoRoot are /verif and /repo for every registered check. The
// environment overrides exist only so that the same machinery can be pointed at
// a scratch copy of /verif (whose go.mod replaces point at a scratch worktree
// of /repo) when seeded changes are evaluated without touching /repo itself.
var verifRoot = envOr("SYMGO_VERIF_ROOT", "/verif")
var repoRoot = envOr("SYMGO_REPO_ROOT", "/repo")

func envOr(k, d string) string {
	if v := os.Getenv(k); v != "" {
		return v
	}
	return d
}

// repoDirOf maps an import path of the repository to its directory.
func repoDirOf(pkgPath string) string {
	const root = "github.com/btcsuite/btcwallet"
	if pkgPath == root {
		return repoRoot
	}
	if strings.HasPrefix(pkgPath, root+"/") {
		return filepath.Join(repoRoot, strings.TrimPrefix(pkgPath, root+"/"))
	}
	if strings.HasPrefix(pkgPath, "verif/") {
		return filepath.Join(verifRoot, strings.TrimPrefix(pkgPath, "verif/"))
	}
	return ""
}

// overlayFor maps every file of /verif/harness/<relpkg>/*.go into the
// directory of the real package, as a virtual in-package file.
func overlayFor(native bool) (map[string][]byte, map[string]string, error) {
	ov := make(map[string][]byte)
	paths := make(map[string]string)
	base := filepath.Join(verifRoot, "harness")
	err := filepath.Walk(base, func(p string, info os.FileInfo, err error) error {
		if err != nil || info.IsDir() || !strings.HasSuffix(p, ".go") {
			return err
		}
		rel, _ := filepath.Rel(base, p)
		dir := filepath.Dir(rel)
		name := filepath.Base(rel)
		isTest := strings.HasSuffix(name, "_test.go")
		if isTest && !native {
			return nil
		}
		target := filepath.Join(repoRoot, dir, name)
		b, err := os.ReadFile(p)
		if err != nil {
			return err
		}
		ov[target] = b
		paths[target] = p
		return nil
	})
	return ov, paths, err
}

func loadProgram(patterns []string) (*Program, error) {
	t0 := time.Now()
	ov, _, err := overlayFor(false)
	if err != nil {
		return nil, err
	}
	cfg := &packages.Config{
		Mode: packages.NeedName | packages.NeedFiles | packages.NeedCompiledGoFiles | packages.NeedImports |
			packages.NeedDeps | packages.NeedTypes | packages.NeedTypesSizes | packages.NeedSyntax | packages.NeedTypesInfo,
		Dir:        verifRoot,
		Env:        append(os.Environ(), "GOFLAGS=-mod=mod", "GOPROXY=off", "GOSUMDB=off", "GOTOOLCHAIN=local", "CGO_ENABLED=0"),
		Overlay:    ov,
		BuildFlags: []string{"-tags=verif"},
	}
	pkgs, err := packages.Load(cfg, patterns...)
	if err != nil {
		return nil, err
	}
	nerr := 0
	packages.Visit(pkgs, nil, func(p *packages.Package) {
		for _, e := range p.Errors {
			fmt.Fprintf(os.Stderr, "load error: %s: %v\n", p.PkgPath, e)
			nerr++
		}
	})
	if nerr > 0 {
		return nil, fmt.Errorf("%d package load errors (the tree does not compile)", nerr)
	}
	if len(pkgs) == 0 {
		return nil, fmt.Errorf("no packages loaded for %v", patterns)
	}
	prog, _ := ssautil.AllPackages(pkgs, ssa.InstantiateGenerics|ssa.SanityCheckFunctions*0)
	prog.Build()
	P := &Program{prog: prog, pkgByPath: make(map[string]*ssa.Package)}
	for _, p := range prog.AllPackages() {
		P.pkgByPath[p.Pkg.Path()] = p
	}
	if rp := P.pkgByPath["runtime"]; rp != nil {
		P.runtimeErrorString = rp.Type("errorString").Object().Type()
	} else {
		P.runtimeErrorString = types.Typ[types.String]
	}
	P.sizes = pkgs[0].TypesSizes
	debugf("loaded %d packages in %v", len(P.pkgByPath), time.Since(t0))
	return P, nil
}

func (P *Program) findFunc(pkgPath, name string) (*ssa.Function, error) {
	p := P.pkgByPath[pkgPath]
	if p == nil {
		return nil, fmt.Errorf("package %s not loaded", pkgPath)
	}
	f := p.Func(name)
	if f == nil {
		return nil, fmt.Errorf("function %s.%s not found", pkgPath, name)
	}
	return f, nil
}

var verbose = os.Getenv("SYMGO_DEBUG") != ""

func debugf(format string, args ...interface{}) {
	if verbose {
		fmt.Fprintf(os.Stderr, "[symgo] "+format+"\n", args...)
	}
}
