package main

// Cooperative goroutines, channels, select and locks. Exactly one interpreted
// goroutine runs at a time; a context switch can happen only at a visible
// operation (channel send/receive/close, select, lock, wait). When every
// goroutine sits at a visible operation the scheduler picks one enabled
// transition; that pick is a decision point of the exploration like any
// other, so every interleaving of visible operations is explored (sound for
// data-race-free code).

import (
	"fmt"
	"go/token"
	"go/types"
	"sync"

	"golang.org/x/tools/go/ssa"
)

type gstate int

const (
	gReady gstate = iota
	gRunning
	gBlocked
	gDone
	gDelayed // reached a visible operation that is not yet visible to the others
)

type mchan struct {
	buf    []value
	cap    int
	closed bool
	id     int
	site   token.Pos // where it was made (identity across paths)
	// timer channels deliver "at any time": modelled by a token that is
	// always available
	timer bool
}

type selCase struct {
	ch   *mchan
	send bool
	val  value
}

type pendOp struct {
	cases      []selCase
	hasDefault bool
	cond       func() bool // predicate operation (lock, wait) when cases == nil
	fire       func()
	what       string
	quiesce    bool // enabled exactly when nothing else is
}

type opResult struct {
	idx       int
	v         value
	ok        bool
	sendPanic bool
}

type gor struct {
	id    int
	wake  chan struct{}
	state gstate
	pend  *pendOp
	res   opResult
	fn    value
	args  []value
	pos   token.Pos
}

type sched struct {
	i      *interpreter
	gs     []*gor
	cur    *gor
	dead   bool
	fatal  interface{}
	wg     sync.WaitGroup
	nchan  int
	locks  map[*value]*lockState
	wgs    map[*value]int
	stats  struct{ switches, transitions int }
	yieldOnUnlock bool // a lock release is a scheduling point (verifrt.YieldOnUnlock)
	preemptBound int  // -1 = unbounded
	preemptions  int
	last         *gor // goroutine that ran most recently
	labels []string
}

type lockState struct {
	writer  bool
	readers int
}

func newSched(i *interpreter) *sched {
	s := &sched{i: i, locks: make(map[*value]*lockState), wgs: make(map[*value]int), preemptBound: -1}
	main := &gor{id: 0, wake: make(chan struct{}, 1), state: gRunning}
	s.gs = []*gor{main}
	s.cur = main
	return s
}

func (i *interpreter) makeChan(n int) *mchan {
	i.sch.nchan++
	return &mchan{cap: n, id: i.sch.nchan}
}

func (i *interpreter) makeChanAt(n int, site token.Pos) *mchan {
	ch := i.makeChan(n)
	ch.site = site
	return ch
}

// Sensitivity of channels to arrival order: a non-blocking select (one with
// a default branch) observes whether a partner is already waiting. For the
// channels such selects mention, the moment another goroutine's
// complementary operation becomes visible is a scheduling choice.
const (
	sensRecvInDefault = 1 // a default-select receives from it: sends are sensitive
	sensSendInDefault = 2 // a default-select sends on it: receives are sensitive
)

func (s *sched) othersAlive(g *gor) bool {
	for _, h := range s.gs {
		if h != g && h.state != gDone {
			return true
		}
	}
	return false
}

func (s *sched) sensitiveOp(op *pendOp) bool {
	if op.hasDefault || len(op.cases) == 0 {
		return false
	}
	e := s.i.ex
	e.sensMu.Lock()
	defer e.sensMu.Unlock()
	for _, c := range op.cases {
		if c.ch == nil || c.ch.site == token.NoPos {
			continue
		}
		m := e.sensitive[c.ch.site]
		if (c.send && m&sensRecvInDefault != 0) || (!c.send && m&sensSendInDefault != 0) {
			return true
		}
	}
	return false
}

func (s *sched) noteDefaultSelect(op *pendOp) {
	e := s.i.ex
	e.sensMu.Lock()
	defer e.sensMu.Unlock()
	for _, c := range op.cases {
		if c.ch == nil || c.ch.site == token.NoPos {
			continue
		}
		bit := sensRecvInDefault
		if c.send {
			bit = sensSendInDefault
		}
		if e.sensitive[c.ch.site]&bit == 0 {
			e.sensitive[c.ch.site] |= bit
			e.sensChanged = true
		}
	}
}

// spawn creates a goroutine; it starts running when the scheduler picks it.
func (i *interpreter) spawn(fn value, args []value, pos token.Pos) {
	s := i.sch
	g := &gor{id: len(s.gs), wake: make(chan struct{}, 1), state: gReady, fn: fn, args: args, pos: pos}
	s.gs = append(s.gs, g)
	s.wg.Add(1)
	go func() {
		defer s.wg.Done()
		<-g.wake
		if s.dead {
			return
		}
		defer func() {
			r := recover()
			if r != nil {
				r = classifyPanic(r)
				if pe, ok := r.(pathEnd); ok && pe.reason == "killed" {
					return
				}
				if !isEnginePanic(r) {
					// uncaught target panic in a goroutine: the program dies
					r = func() (out interface{}) {
						defer func() { out = recover() }()
						i.violation("uncaught panic in goroutine: "+i.panicString(r), nil)
						return nil
					}()
				}
				if s.fatal == nil {
					s.fatal = r
				}
				s.dead = true
				g.state = gDone
				s.gs[0].wake <- struct{}{}
				return
			}
		}()
		call(i, nil, pos, fn, args)
		g.state = gDone
		s.dispatch(g)
	}()
}

// killAll ends all goroutines of the path (called from the main goroutine).
func (s *sched) killAll() {
	s.dead = true
	for _, g := range s.gs[1:] {
		if g.state != gDone {
			select {
			case g.wake <- struct{}{}:
			default:
			}
		}
	}
	s.wg.Wait()
}

type trans struct {
	g   *gor
	ci  int // case index; -1 default; -2 predicate
	g2  *gor
	ci2 int
	how int // 0 buffer, 1 closed, 2 rendezvous, 3 default, 4 predicate, 5 send-on-closed
}

func (s *sched) enabled() []trans {
	var ts []trans
	for _, g := range s.gs {
		if g.state != gBlocked || g.pend == nil {
			continue
		}
		op := g.pend
		if op.quiesce {
			continue
		}
		if op.cases == nil && op.cond != nil {
			if op.cond() {
				ts = append(ts, trans{g: g, ci: -2, how: 4})
			}
			continue
		}
		any := false
		for ci, c := range op.cases {
			if c.ch == nil {
				continue
			}
			if c.send {
				if c.ch.closed {
					ts = append(ts, trans{g: g, ci: ci, how: 5})
					any = true
				} else if len(c.ch.buf) < c.ch.cap {
					ts = append(ts, trans{g: g, ci: ci, how: 0})
					any = true
				} else {
					// rendezvous is listed from the receiver side; here we only
					// need to know whether a partner exists (for default)
					for _, h := range s.gs {
						if h != g && h.state == gBlocked && h.pend != nil {
							for _, c2 := range h.pend.cases {
								if !c2.send && c2.ch == c.ch && len(c.ch.buf) == 0 {
									any = true
								}
							}
						}
					}
				}
			} else {
				if len(c.ch.buf) > 0 || c.ch.timer {
					ts = append(ts, trans{g: g, ci: ci, how: 0})
					any = true
				} else if c.ch.closed {
					ts = append(ts, trans{g: g, ci: ci, how: 1})
					any = true
				} else {
					for _, h := range s.gs {
						if h != g && h.state == gBlocked && h.pend != nil {
							for ci2, c2 := range h.pend.cases {
								if c2.send && c2.ch == c.ch {
									ts = append(ts, trans{g: g, ci: ci, g2: h, ci2: ci2, how: 2})
									any = true
								}
							}
						}
					}
				}
			}
		}
		if !any && op.hasDefault {
			ts = append(ts, trans{g: g, ci: -1, how: 3})
		}
	}
	if len(ts) == 0 {
		for _, g := range s.gs {
			if g.state == gBlocked && g.pend != nil && g.pend.quiesce {
				ts = append(ts, trans{g: g, ci: -2, how: 4})
			}
		}
	}
	return ts
}

func (s *sched) fire(t trans) {
	s.stats.transitions++
	g := t.g
	switch t.how {
	case 0:
		c := g.pend.cases[t.ci]
		if c.send {
			c.ch.buf = append(c.ch.buf, c.val)
			g.res = opResult{idx: t.ci}
		} else if c.ch.timer && len(c.ch.buf) == 0 {
			g.res = opResult{idx: t.ci, v: nil, ok: true}
		} else {
			v := c.ch.buf[0]
			c.ch.buf = append([]value{}, c.ch.buf[1:]...)
			g.res = opResult{idx: t.ci, v: v, ok: true}
		}
	case 1:
		g.res = opResult{idx: t.ci, v: nil, ok: false}
	case 2:
		c2 := t.g2.pend.cases[t.ci2]
		g.res = opResult{idx: t.ci, v: c2.val, ok: true}
		t.g2.res = opResult{idx: t.ci2}
		t.g2.pend = nil
		t.g2.state = gReady
	case 3:
		g.res = opResult{idx: -1}
	case 4:
		g.pend.fire()
		g.res = opResult{}
	case 5:
		g.res = opResult{idx: t.ci, sendPanic: true}
	}
	g.pend = nil
	g.state = gReady
}

// dispatch is run by the current goroutine g when it blocks or finishes.
//
// While some goroutine is still on its way to its next visible operation
// ("ready") it is advanced first: its invisible steps commute with every
// transition. The exception is the default branch of a non-blocking select,
// whose outcome depends on who is already blocked: taking it now or only
// after a ready goroutine advanced is a scheduling choice.
func (s *sched) dispatch(g *gor) {
	for {
		var next *gor
		for _, h := range s.gs {
			if h.state == gReady {
				next = h
				break
			}
		}
		if next != nil {
			var defaults []trans
			for _, t := range s.enabled() {
				if t.how == 3 {
					defaults = append(defaults, t)
				}
			}
			if len(defaults) > 0 {
				k := s.i.choose(len(defaults)+1, "sched-default")
				if k > 0 {
					s.fire(defaults[k-1])
					continue
				}
			}
		}
		if next == nil {
			ts := s.enabled()
			// goroutines whose operation is not visible yet may arrive now
			var delayed []*gor
			for _, h := range s.gs {
				if h.state == gDelayed {
					delayed = append(delayed, h)
				}
			}
			if len(delayed) > 0 {
				k := s.i.choose(len(ts)+len(delayed), "sched-arrival")
				if k >= len(ts) {
					delayed[k-len(ts)].state = gBlocked
					continue
				}
				s.fire(ts[k])
				continue
			}
			if len(ts) == 0 {
				if g.state == gDone && s.gs[0].state == gDone {
					return
				}
				desc := ""
				for _, h := range s.gs {
					if h.state == gBlocked && h.pend != nil {
						desc += fmt.Sprintf(" g%d:%s", h.id, h.pend.what)
					}
				}
				s.i.violation("deadlock: all goroutines blocked:"+desc, nil)
			}
			k := 0
			if len(ts) > 1 {
				// context bound: once the budget of preemptions is used up,
				// the goroutine that ran last continues whenever it can
				cands := ts
				if s.preemptBound >= 0 && s.preemptions >= s.preemptBound {
					var own []trans
					for _, t := range ts {
						if t.g == g || t.g2 == g {
							own = append(own, t)
						}
					}
					if len(own) > 0 {
						cands = own
					}
				}
				if len(cands) > 1 {
					k = s.i.choose(len(cands), "sched")
				}
				t := cands[k]
				if s.preemptBound >= 0 && t.g != g && t.g2 != g && g.state == gBlocked && s.canContinue(g, ts) {
					s.preemptions++
				}
				s.fire(t)
				continue
			}
			s.fire(ts[k])
			continue
		}
		if next == g {
			g.state = gRunning
			return
		}
		s.stats.switches++
		next.state = gRunning
		s.cur = next
		next.wake <- struct{}{}
		if g.state == gDone {
			return
		}
		<-g.wake
		if s.dead {
			if g.id == 0 && s.fatal != nil {
				f := s.fatal
				s.fatal = nil
				panic(f)
			}
			panic(pathEnd{"killed"})
		}
		return
	}
}

// canContinue: g has an enabled transition of its own.
func (s *sched) canContinue(g *gor, ts []trans) bool {
	for _, t := range ts {
		if t.g == g || t.g2 == g {
			return true
		}
	}
	return false
}

// block registers op for the current goroutine and waits until it fired.
func (i *interpreter) block(op *pendOp) opResult {
	s := i.sch
	g := s.cur
	g.pend = op
	g.state = gBlocked
	if op.hasDefault && len(s.gs) > 1 {
		s.noteDefaultSelect(op)
	}
	if len(s.gs) > 1 && s.othersAlive(g) && s.sensitiveOp(op) {
		g.state = gDelayed
	}
	s.dispatch(g)
	return g.res
}

func (i *interpreter) chanSend(ch *mchan, v value) {
	r := i.block(&pendOp{cases: []selCase{{ch: ch, send: true, val: v}}, what: "send"})
	if r.sendPanic {
		panic(runtimeErr("send on closed channel"))
	}
}

func (i *interpreter) chanRecv(ch *mchan) (value, bool) {
	r := i.block(&pendOp{cases: []selCase{{ch: ch}}, what: "recv"})
	return r.v, r.ok
}

func (i *interpreter) chanClose(ch *mchan) {
	if ch == nil {
		panic(runtimeErr("close of nil channel"))
	}
	if ch.closed {
		panic(runtimeErr("close of closed channel"))
	}
	ch.closed = true
}

func (i *interpreter) doSelect(fr *frame, instr *ssa.Select) value {
	op := &pendOp{hasDefault: !instr.Blocking, what: "select"}
	for _, st := range instr.States {
		c := selCase{ch: fr.get(st.Chan).(*mchan)}
		if st.Dir == types.SendOnly {
			c.send = true
			c.val = fr.get(st.Send)
		}
		op.cases = append(op.cases, c)
	}
	res := i.block(op)
	if res.sendPanic {
		panic(runtimeErr("send on closed channel"))
	}
	r := tuple{res.idx, res.ok}
	for k, st := range instr.States {
		if st.Dir == types.RecvOnly {
			var v value
			if k == res.idx && res.ok && res.v != nil {
				v = res.v
			} else {
				v = zero(st.Chan.Type().Underlying().(*types.Chan).Elem())
			}
			r = append(r, v)
		}
	}
	return r
}

// ---------------------------------------------------------------- locks

func (s *sched) lock(m *value) *lockState {
	l := s.locks[m]
	if l == nil {
		l = &lockState{}
		s.locks[m] = l
	}
	return l
}

func (i *interpreter) mutexLock(m *value) {
	l := i.sch.lock(m)
	i.block(&pendOp{what: "Lock", cond: func() bool { return !l.writer && l.readers == 0 }, fire: func() { l.writer = true }})
}

func (i *interpreter) mutexTryLock(m *value) bool {
	l := i.sch.lock(m)
	if !l.writer && l.readers == 0 {
		l.writer = true
		return true
	}
	return false
}

func (i *interpreter) mutexUnlock(m *value) {
	l := i.sch.lock(m)
	if !l.writer {
		panic(runtimeErr("sync: unlock of unlocked mutex"))
	}
	l.writer = false
	i.afterUnlock()
}

// afterUnlock: with YieldOnUnlock the release of a lock is a scheduling
// point of its own. For data-race-free code this adds nothing (until its
// next visible operation the releasing goroutine touches only its own data);
// it is what exposes code that keeps using shared data after it has released
// the lock that protects it.
func (i *interpreter) afterUnlock() {
	if i.sch.yieldOnUnlock && len(i.sch.gs) > 1 {
		i.block(&pendOp{what: "after-unlock", cond: func() bool { return true }, fire: func() {}})
	}
}

func (i *interpreter) rwRLock(m *value) {
	l := i.sch.lock(m)
	i.block(&pendOp{what: "RLock", cond: func() bool { return !l.writer }, fire: func() { l.readers++ }})
}

func (i *interpreter) rwRUnlock(m *value) {
	l := i.sch.lock(m)
	if l.readers <= 0 {
		panic(runtimeErr("sync: RUnlock of unlocked RWMutex"))
	}
	l.readers--
	i.afterUnlock()
}

func (i *interpreter) wgAdd(w *value, n int) {
	i.sch.wgs[w] += n
	if i.sch.wgs[w] < 0 {
		panic(runtimeErr("sync: negative WaitGroup counter"))
	}
}

func (i *interpreter) wgWait(w *value) {
	s := i.sch
	i.block(&pendOp{what: "WaitGroup.Wait", cond: func() bool { return s.wgs[w] == 0 }, fire: func() {}})
}
