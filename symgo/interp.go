// Copyright 2013 The Go Authors. All rights reserved.
// Use of this source code is governed by a BSD-style
// license that can be found in the LICENSE file.
//
// symgo: a symbolic executor for Go SSA, derived from
// golang.org/x/tools/go/ssa/interp (v0.29.0). Integer and bool values may
// be SMT terms (*Term); control flow on them forks by re-execution with a
// decision prefix (see explore.go); goroutines are scheduled cooperatively
// (sched.go); maps are insertion-ordered (value.go).

package main

import (
	"fmt"
	"go/token"
	"go/types"
	"os"
	"runtime"
	"runtime/debug"
	"slices"
	"strings"
	"sync"

	"golang.org/x/tools/go/ssa"
)

var branchStats map[string]int
var branchStatsMu sync.Mutex

func init() {
	if os.Getenv("SYMGO_BRANCHSTATS") != "" {
		branchStats = make(map[string]int)
	}
}

type continuation int

const (
	kNext continuation = iota
	kReturn
	kJump
)

// Program is the immutable, shared part: SSA plus lookup tables.
type Program struct {
	prog               *ssa.Program
	runtimeErrorString types.Type
	sizes              types.Sizes
	extCache           sync.Map // *ssa.Function -> externalFn (or nil)
	funcByName         sync.Map // string -> *ssa.Function
	fnInfos            sync.Map // *ssa.Function -> *fnInfo
	pkgByPath          map[string]*ssa.Package
}

// State of one path execution.
type interpreter struct {
	P             *Program
	prog          *ssa.Program
	globals       map[*ssa.Global]*value
	inited        map[*ssa.Package]bool
	tt            *TermTable
	solver        *Solver
	run           *pathRun
	sch           *sched
	permuteRanges bool
	steps         int64
	maxSteps      int64
	unwind        int
	funcInstrs    map[*ssa.Function]int64
	stubsHit      map[string]int
	tracing       bool
	store         map[string]value // engine-side per-path storage for stubs
	depth         int
	ex            *Explorer
	hashInputs    []hashRec
	seals         []sealRec
	kdfs          []kdfRec
	scopes        []int
	scopePC       [][]*Term
	pcSet         map[*Term]bool
	model         map[string]uint64
	memo          map[*Term]uint64
	impliedCache  map[*Term]int
	symbolicRand  bool
	native        map[*value]interface{}
	syncMaps      map[*value]*omap
	inInit        int
	stubs         map[string]value
	pcHard        int
	scopeHard     []int
	randCtr       int
}

type deferred struct {
	fn    value
	args  []value
	instr *ssa.Defer
	tail  *deferred
}

type frame struct {
	i                *interpreter
	caller           *frame
	fn               *ssa.Function
	block, prevBlock *ssa.BasicBlock
	env              []value // dynamic values of SSA variables, indexed by info.index
	info             *fnInfo
	locals           []value
	defers           *deferred
	result           value
	panicking        bool
	panic            interface{}
	phitemps         []value // temporaries for parallel phi assignment
	g                *gor
	loopCount        map[*ssa.BasicBlock]int
	cur              ssa.Instruction
}

// targetStack renders the interpreted call stack.
func (fr *frame) targetStack() string {
	var sb strings.Builder
	for f := fr; f != nil; f = f.caller {
		pos := ""
		if f.cur != nil {
			pos = f.fn.Prog.Fset.Position(f.cur.Pos()).String()
		}
		fmt.Fprintf(&sb, "    %s  %s\n", f.fn, pos)
	}
	return sb.String()
}

// fnInfo numbers the SSA values of a function (shared, read-only).
type fnInfo struct {
	index map[ssa.Value]int
	n     int
}

func (P *Program) fnInfoOf(fn *ssa.Function) *fnInfo {
	if v, ok := P.fnInfos.Load(fn); ok {
		return v.(*fnInfo)
	}
	info := &fnInfo{index: make(map[ssa.Value]int)}
	add := func(v ssa.Value) {
		if _, ok := info.index[v]; !ok {
			info.index[v] = info.n
			info.n++
		}
	}
	for _, p := range fn.Params {
		add(p)
	}
	for _, fv := range fn.FreeVars {
		add(fv)
	}
	for _, l := range fn.Locals {
		add(l)
	}
	for _, b := range fn.Blocks {
		for _, instr := range b.Instrs {
			if v, ok := instr.(ssa.Value); ok {
				add(v)
			}
		}
	}
	P.fnInfos.Store(fn, info)
	return info
}

func (fr *frame) set(v ssa.Value, x value) {
	fr.env[fr.info.index[v]] = x
}

// engine-level panics that must cross all target frames untouched
type pathEnd struct{ reason string }
type engineBug string
type unsupportedErr string

func (i *interpreter) unsupported(msg string) {
	panic(unsupportedErr(msg))
}

func isEnginePanic(r interface{}) bool {
	switch r.(type) {
	case pathEnd, engineBug, unsupportedErr:
		return true
	}
	return false
}

func (fr *frame) get(key ssa.Value) value {
	switch key := key.(type) {
	case nil:
		// Hack; simplifies handling of optional attributes
		// such as ssa.Slice.{Low,High}.
		return nil
	case *ssa.Function, *ssa.Builtin:
		return key
	case *ssa.Const:
		return constValue(key)
	case *ssa.Global:
		return fr.i.globalAddr(key)
	}
	if k, ok := fr.info.index[key]; ok {
		if r := fr.env[k]; r != nil {
			return r
		}
	}
	panic(engineBug(fmt.Sprintf("get: no value for %T: %v", key, key.Name())))
}

// packages whose init is never run (their globals stay zero); functions of
// these packages that are needed are stubbed in external.go.
func noInitPkg(path string) bool {
	switch path {
	case "errors", "runtime", "os", "syscall", "reflect", "sync", "sync/atomic", "unsafe", "testing",
		"time", "fmt", "log", "net", "os/signal", "runtime/debug", "runtime/pprof",
		"crypto/rand", "math/rand", "math/rand/v2", "crypto/sha256", "crypto/sha512",
		"crypto/sha1", "crypto/md5", "crypto", "hash/crc32", "math/big",
		"crypto/subtle", "encoding/json", "path/filepath", "io/fs", "io/ioutil", "bufio",
		"compress/gzip", "compress/flate", "flag", "text/tabwriter",
		"github.com/btcsuite/btcd/btcec/v2", "github.com/decred/dcrd/dcrec/secp256k1/v4",
		"github.com/btcsuite/btcd/btcec/v2/ecdsa", "github.com/btcsuite/btcd/btcec/v2/schnorr",
		"github.com/decred/dcrd/dcrec/secp256k1/v4/ecdsa", "github.com/decred/dcrd/dcrec/secp256k1/v4/schnorr",
		"golang.org/x/sys/unix", "golang.org/x/crypto/ripemd160",
		"github.com/davecgh/go-spew/spew", "github.com/lightninglabs/neutrino",
		"github.com/btcsuite/btcd/rpcclient", "github.com/btcsuite/websocket", "net/http":
		return true
	}
	return strings.HasPrefix(path, "internal/") || strings.HasPrefix(path, "runtime/") ||
		strings.HasPrefix(path, "vendor/") || strings.HasPrefix(path, "golang.org/x/sys") ||
		strings.HasPrefix(path, "net/") || strings.HasPrefix(path, "crypto/")
}

func (i *interpreter) globalAddr(g *ssa.Global) *value {
	if g.Pkg != nil && !i.inited[g.Pkg] {
		i.initPkg(g.Pkg)
	}
	if r, ok := i.globals[g]; ok {
		return r
	}
	cell := zero(mustDeref(g.Type()))
	i.globals[g] = &cell
	return &cell
}

func (i *interpreter) initPkg(p *ssa.Package) {
	if i.inited[p] {
		return
	}
	i.inited[p] = true
	if noInitPkg(p.Pkg.Path()) {
		if f := pkgInitStubs[p.Pkg.Path()]; f != nil {
			f(i, p)
		}
		return
	}
	if init := p.Func("init"); init != nil {
		saved := i.permuteRanges
		i.permuteRanges = false
		i.inInit++
		callSSA(i, nil, token.NoPos, init, nil, nil)
		i.inInit--
		i.permuteRanges = saved
	}
}

// runDefer runs a deferred call d.
// It always returns normally, but may set or clear fr.panic.
func (fr *frame) runDefer(d *deferred) {
	var ok bool
	defer func() {
		if !ok {
			r := recover()
			if isEnginePanic(r) {
				panic(r)
			}
			// Deferred call created a new state of panic.
			fr.panicking = true
			fr.panic = classifyPanic(r)
		}
	}()
	call(fr.i, fr, d.instr.Pos(), d.fn, d.args)
	ok = true
}

// runDefers executes fr's deferred function calls in LIFO order.
func (fr *frame) runDefers() {
	for d := fr.defers; d != nil; d = d.tail {
		fr.runDefer(d)
	}
	fr.defers = nil
	if fr.panicking {
		panic(fr.panic) // new panic, or still panicking
	}
}

// classifyPanic separates target-level run-time errors from engine bugs.
func classifyPanic(r interface{}) interface{} {
	if isEnginePanic(r) {
		return r
	}
	switch p := r.(type) {
	case targetPanic, runtimeErr:
		return r
	case runtime.Error:
		msg := p.Error()
		if strings.Contains(msg, "nil pointer dereference") ||
			strings.Contains(msg, "index out of range") ||
			strings.Contains(msg, "slice bounds out of range") ||
			strings.Contains(msg, "integer divide by zero") ||
			strings.Contains(msg, "out of range") {
			return runtimeErr(strings.TrimPrefix(msg, "runtime error: "))
		}
		return engineBug(fmt.Sprintf("engine run-time error: %s\n%s", msg, shortStack()))
	case string:
		return engineBug(fmt.Sprintf("engine panic: %s\n%s", p, shortStack()))
	}
	return engineBug(fmt.Sprintf("engine panic: %T %v\n%s", r, r, shortStack()))
}

// lookupMethod returns the method set for type typ.
func lookupMethod(i *interpreter, typ types.Type, meth *types.Func) *ssa.Function {
	return i.prog.LookupMethod(typ, meth.Pkg(), meth.Name())
}

// visitInstr interprets a single ssa.Instruction within the activation
// record frame.  It returns a continuation value indicating where to
// read the next instruction from.
func visitInstr(fr *frame, instr ssa.Instruction) continuation {
	i := fr.i
	switch instr := instr.(type) {
	case *ssa.DebugRef:
		// no-op

	case *ssa.UnOp:
		fr.set(instr, i.unop(instr, fr.get(instr.X)))

	case *ssa.BinOp:
		fr.set(instr, i.binop(instr.Op, instr.X.Type(), instr.Y.Type(), fr.get(instr.X), fr.get(instr.Y)))

	case *ssa.Call:
		fn, args := prepareCall(fr, &instr.Call)
		fr.set(instr, call(fr.i, fr, instr.Pos(), fn, args))

	case *ssa.ChangeInterface:
		fr.set(instr, fr.get(instr.X))

	case *ssa.ChangeType:
		fr.set(instr, fr.get(instr.X)) // (can't fail)

	case *ssa.Convert:
		fr.set(instr, i.conv(instr.Type(), instr.X.Type(), fr.get(instr.X)))

	case *ssa.SliceToArrayPointer:
		fr.set(instr, sliceToArrayPointer(instr.Type(), instr.X.Type(), fr.get(instr.X)))

	case *ssa.MakeInterface:
		fr.set(instr, iface{t: instr.X.Type(), v: fr.get(instr.X)})

	case *ssa.Extract:
		fr.set(instr, fr.get(instr.Tuple).(tuple)[instr.Index])

	case *ssa.Slice:
		fr.set(instr, i.slice(fr.get(instr.X), fr.get(instr.Low), fr.get(instr.High), fr.get(instr.Max)))

	case *ssa.Return:
		switch len(instr.Results) {
		case 0:
		case 1:
			fr.result = fr.get(instr.Results[0])
		default:
			var res []value
			for _, r := range instr.Results {
				res = append(res, fr.get(r))
			}
			fr.result = tuple(res)
		}
		fr.block = nil
		return kReturn

	case *ssa.RunDefers:
		fr.runDefers()

	case *ssa.Panic:
		panic(targetPanic{fr.get(instr.X)})

	case *ssa.Send:
		i.chanSend(fr.get(instr.Chan).(*mchan), fr.get(instr.X))

	case *ssa.Store:
		store(mustDeref(instr.Addr.Type()), fr.get(instr.Addr).(*value), fr.get(instr.Val))

	case *ssa.If:
		succ := 1
		cv := fr.get(instr.Cond)
		if branchStats != nil {
			if _, ok := cv.(*Term); ok {
				q0 := i.run.queries
				r := i.truth(cv)
				if i.run.queries > q0 {
					branchStatsMu.Lock()
					branchStats[fr.fn.String()+" "+fr.fn.Prog.Fset.Position(instr.Cond.Pos()).String()] += i.run.queries - q0
					branchStatsMu.Unlock()
				}
				cv = r
			}
		}
		if i.truth(cv) {
			succ = 0
		}
		fr.prevBlock, fr.block = fr.block, fr.block.Succs[succ]
		return kJump

	case *ssa.Jump:
		fr.prevBlock, fr.block = fr.block, fr.block.Succs[0]
		return kJump

	case *ssa.Defer:
		fn, args := prepareCall(fr, &instr.Call)
		defers := &fr.defers
		if into := fr.get(instr.DeferStack); into != nil {
			defers = into.(**deferred)
		}
		*defers = &deferred{
			fn:    fn,
			args:  args,
			instr: instr,
			tail:  *defers,
		}

	case *ssa.Go:
		fn, args := prepareCall(fr, &instr.Call)
		i.spawn(fn, args, instr.Pos())

	case *ssa.MakeChan:
		fr.set(instr, i.makeChanAt(int(i.concInt(fr.get(instr.Size), "chan-size")), instr.Pos()))

	case *ssa.Alloc:
		var addr *value
		if instr.Heap {
			// new
			addr = new(value)
			fr.set(instr, addr)
		} else {
			// local
			addr = fr.env[fr.info.index[instr]].(*value)
		}
		*addr = zero(mustDeref(instr.Type()))

	case *ssa.MakeSlice:
		c := i.concInt(fr.get(instr.Cap), "makeslice-cap")
		l := i.concInt(fr.get(instr.Len), "makeslice-len")
		if l < 0 || c < l || c > 1<<26 {
			panic(runtimeErr("makeslice: len out of range"))
		}
		slice := make([]value, c)
		tElt := instr.Type().Underlying().(*types.Slice).Elem()
		z := zero(tElt)
		switch z.(type) {
		case structure, array:
			for k := range slice {
				slice[k] = zero(tElt)
			}
		default:
			for k := range slice {
				slice[k] = z
			}
		}
		fr.set(instr, slice[:l])

	case *ssa.MakeMap:
		fr.set(instr, i.makeMap(instr.Type().Underlying().(*types.Map).Key()))

	case *ssa.Range:
		fr.set(instr, i.rangeIter(fr.get(instr.X), instr.X.Type()))

	case *ssa.Next:
		fr.set(instr, fr.get(instr.Iter).(iter).next())

	case *ssa.FieldAddr:
		fr.set(instr, &(*fr.get(instr.X).(*value)).(structure)[instr.Field])

	case *ssa.Field:
		fr.set(instr, fr.get(instr.X).(structure)[instr.Field])

	case *ssa.IndexAddr:
		x := fr.get(instr.X)
		idx := fr.get(instr.Index)
		switch x := x.(type) {
		case []value:
			fr.set(instr, &x[i.indexIn(idx, instr.Index.Type(), len(x))])
		case *value: // *array
			a := (*x).(array)
			fr.set(instr, &a[i.indexIn(idx, instr.Index.Type(), len(a))])
		case *opaqueBytes:
			i.unsupported("element of opaque bytes")
		default:
			panic(engineBug(fmt.Sprintf("unexpected x type in IndexAddr: %T", x)))
		}

	case *ssa.Index:
		x := fr.get(instr.X)
		idx := fr.get(instr.Index)

		switch x := x.(type) {
		case array:
			fr.set(instr, x[i.indexIn(idx, instr.Index.Type(), len(x))])
		case string:
			fr.set(instr, x[i.indexIn(idx, instr.Index.Type(), len(x))])
		default:
			panic(engineBug(fmt.Sprintf("unexpected x type in Index: %T", x)))
		}

	case *ssa.Lookup:
		if s, ok := fr.get(instr.X).(string); ok {
			fr.set(instr, s[i.indexIn(fr.get(instr.Index), instr.Index.Type(), len(s))])
		} else {
			fr.set(instr, lookup(instr, fr.get(instr.X), fr.get(instr.Index)))
		}

	case *ssa.MapUpdate:
		fr.get(instr.Map).(*omap).insert(fr.get(instr.Key), fr.get(instr.Value))

	case *ssa.TypeAssert:
		fr.set(instr, typeAssert(fr.i, instr, fr.get(instr.X).(iface)))

	case *ssa.MakeClosure:
		var bindings []value
		for _, binding := range instr.Bindings {
			bindings = append(bindings, fr.get(binding))
		}
		fr.set(instr, &closure{instr.Fn.(*ssa.Function), bindings})

	case *ssa.Phi:
		panic(engineBug("unreachable phi")) // phis are processed at block entry

	case *ssa.Select:
		fr.set(instr, i.doSelect(fr, instr))

	default:
		panic(engineBug(fmt.Sprintf("unexpected instruction: %T", instr)))
	}

	return kNext
}

// indexIn checks a (possibly symbolic) index against a concrete length and
// returns a concrete index, forking over feasible values.
func (i *interpreter) indexIn(idx value, tIdx types.Type, n int) int64 {
	if t, ok := idx.(*Term); ok {
		// bounds check first: the out-of-range side is explored as a panic
		// compare at 64 bits: the length may not fit the index type (a
		// [256]T indexed by a uint8), and a negative signed index is out
		// of range
		wide := t
		if t.W < 64 {
			if b, ok := tIdx.Underlying().(*types.Basic); ok && b.Info()&types.IsUnsigned == 0 {
				wide = i.tt.SExt(t, 64)
			} else {
				wide = i.tt.ZExt(t, 64)
			}
		}
		inb := i.tt.Cmp(OpUlt, wide, i.tt.Const(64, uint64(n)))
		if !i.decide(inb) {
			panic(runtimeErr("index out of range (symbolic index)"))
		}
		return int64(i.concretize(t, "index"))
	}
	k := asInt64(idx)
	if k < 0 || k >= int64(n) {
		panic(runtimeErr(fmt.Sprintf("index out of range [%d] with length %d", k, n)))
	}
	return k
}

// prepareCall determines the function value and argument values for a
// function call in a Call, Go or Defer instruction, performing
// interface method lookup if needed.
func prepareCall(fr *frame, call *ssa.CallCommon) (fn value, args []value) {
	v := fr.get(call.Value)
	if call.Method == nil {
		// Function call.
		fn = v
	} else {
		// Interface method invocation.
		recv := v.(iface)
		if recv.t == nil {
			panic(runtimeErr("invalid memory address or nil pointer dereference (method on nil interface)"))
		}
		if f := lookupMethod(fr.i, recv.t, call.Method); f == nil {
			// Unreachable in well-typed programs.
			panic(engineBug(fmt.Sprintf("method set for dynamic type %v does not contain %s", recv.t, call.Method)))
		} else {
			fn = f
		}
		args = append(args, recv.v)
	}
	for _, arg := range call.Args {
		args = append(args, fr.get(arg))
	}
	return
}

// call interprets a call to a function (function, builtin or closure)
// fn with arguments args, returning its result.
// callpos is the position of the callsite.
func call(i *interpreter, caller *frame, callpos token.Pos, fn value, args []value) value {
	switch fn := fn.(type) {
	case *ssa.Function:
		if fn == nil {
			panic(runtimeErr("invalid memory address or nil pointer dereference (call of nil func)"))
		}
		return callSSA(i, caller, callpos, fn, args, nil)
	case *closure:
		return callSSA(i, caller, callpos, fn.Fn, args, fn.Env)
	case *ssa.Builtin:
		return callBuiltin(caller, callpos, fn, args)
	}
	panic(engineBug(fmt.Sprintf("cannot call %T", fn)))
}

func loc(fset *token.FileSet, pos token.Pos) string {
	if pos == token.NoPos {
		return ""
	}
	return " at " + fset.Position(pos).String()
}

func (P *Program) external(fn *ssa.Function) externalFn {
	if e, ok := P.extCache.Load(fn); ok {
		if e == nil {
			return nil
		}
		return e.(externalFn)
	}
	var ext externalFn
	name := fn.String()
	if fn.Parent() == nil {
		if e := externals[name]; e != nil {
			ext = e
		} else if o := fn.Origin(); o != nil && o != fn {
			if e := externals[o.String()]; e != nil {
				ext = e
			}
		}
	}
	if ext == nil {
		P.extCache.Store(fn, nil)
		return nil
	}
	P.extCache.Store(fn, ext)
	return ext
}

const maxDepth = 3000

// callSSA interprets a call to function fn with arguments args,
// and lexical environment env, returning its result.
// callpos is the position of the callsite.
func callSSA(i *interpreter, caller *frame, callpos token.Pos, fn *ssa.Function, args []value, env []value) value {
	if i.tracing {
		fset := fn.Prog.Fset
		fmt.Fprintf(os.Stderr, "%*sEntering %s%s.\n", i.depth, "", fn, loc(fset, fn.Pos()))
		i.depth++
		defer func() { i.depth--; fmt.Fprintf(os.Stderr, "%*sLeaving %s.\n", i.depth, "", fn) }()
	}
	fr := &frame{
		i:      i,
		caller: caller, // for panic/recover
		fn:     fn,
	}
	if caller != nil {
		fr.g = caller.g
	} else {
		fr.g = i.sch.cur
	}
	if fn.Synthetic == "package initializer" {
		if caller != nil && caller.fn.Synthetic == "package initializer" {
			// dependency initialisation is lazy: skip
			return nil
		}
	}
	if i.stubs != nil {
		if impl, ok := i.stubs[fn.String()]; ok {
			i.stubsHit["harness stub: "+fn.String()]++
			return call(i, caller, callpos, impl, args)
		}
	}
	if ext := i.P.external(fn); ext != nil {
		i.stubsHit[fn.String()]++
		return ext(fr, args)
	}
	if fn.Synthetic != "package initializer" && fn.Pkg != nil && !i.inited[fn.Pkg] {
		i.initPkg(fn.Pkg)
	}
	if fn.Blocks == nil {
		i.unsupported("no code for function: " + fn.String())
	}

	// generic function body?
	if fn.TypeParams().Len() > 0 && len(fn.TypeArgs()) == 0 {
		panic(engineBug("generic function body not instantiated: " + fn.String()))
	}

	fr.info = i.P.fnInfoOf(fn)
	fr.env = make([]value, fr.info.n)
	fr.block = fn.Blocks[0]
	fr.locals = make([]value, len(fn.Locals))
	for k, l := range fn.Locals {
		fr.locals[k] = zero(mustDeref(l.Type()))
		fr.env[fr.info.index[l]] = &fr.locals[k]
	}
	for k, p := range fn.Params {
		fr.env[fr.info.index[p]] = args[k]
	}
	for k, fv := range fn.FreeVars {
		fr.env[fr.info.index[fv]] = env[k]
	}
	for fr.block != nil {
		runFrame(fr)
	}
	return fr.result
}

// runFrame executes SSA instructions starting at fr.block and
// continuing until a return, a panic, or a recovered panic.
func runFrame(fr *frame) {
	defer func() {
		if fr.block == nil {
			return // normal return
		}
		r := recover()
		r = classifyPanic(r)
		if isEnginePanic(r) {
			switch p := r.(type) {
			case unsupportedErr:
				if !strings.Contains(string(p), "\n    ") {
					r = unsupportedErr(string(p) + "\n" + fr.targetStack())
				}
			case engineBug:
				if !strings.Contains(string(p), "\n    ") {
					r = engineBug(string(p) + "\n" + fr.targetStack())
				}
			}
			panic(r)
		}
		if verbose && !fr.panicking {
			fmt.Fprintf(os.Stderr, "[symgo] target panic %v in\n%s", fr.i.panicString(r), fr.targetStack())
		}
		fr.panicking = true
		fr.panic = r
		fr.runDefers()
		fr.block = fr.fn.Recover
	}()

	i := fr.i
	for {
		if i.unwind > 0 && len(fr.block.Preds) > 1 {
			if fr.loopCount == nil {
				fr.loopCount = make(map[*ssa.BasicBlock]int)
			}
			fr.loopCount[fr.block]++
			if fr.loopCount[fr.block] > i.unwind {
				i.unsupported(fmt.Sprintf("unwinding assertion: block %s of %s entered more than %d times", fr.block, fr.fn, i.unwind))
			}
		}
		nonPhis := executePhis(fr)
		n := int64(len(nonPhis))
		i.steps += n
		i.funcInstrs[fr.fn] += n
		if i.steps > i.maxSteps {
			if os.Getenv("SYMGO_DEBUG_BUDGET") != "" {
				var tail []string
				tr := i.run.trace
				if len(tr) > 40 {
					tr = tr[len(tr)-40:]
				}
				for _, d := range tr {
					tail = append(tail, fmt.Sprintf("%c%d", d.Kind, d.V))
				}
				fmt.Fprintf(os.Stderr, "[budget] decisions=%d last=%v model=%v\n", len(i.run.trace), tail, i.model)
			}
			i.unsupported(fmt.Sprintf("step budget of %d SSA instructions exhausted", i.maxSteps))
		}
		for _, instr := range nonPhis {
			if i.tracing {
				if v, ok := instr.(ssa.Value); ok {
					fmt.Fprintln(os.Stderr, "\t", v.Name(), "=", instr)
				} else {
					fmt.Fprintln(os.Stderr, "\t", instr)
				}
			}
			fr.cur = instr
			if visitInstr(fr, instr) == kReturn {
				return
			}
			// Inv: kNext (continue) or kJump (last instr)
		}
	}
}

// executePhis executes the phi-nodes at the start of the current
// block and returns the non-phi instructions.
func executePhis(fr *frame) []ssa.Instruction {
	firstNonPhi := -1
	for i, instr := range fr.block.Instrs {
		if _, ok := instr.(*ssa.Phi); !ok {
			firstNonPhi = i
			break
		}
	}
	// Inv: 0 <= firstNonPhi; every block contains a non-phi.

	nonPhis := fr.block.Instrs[firstNonPhi:]
	if firstNonPhi > 0 {
		phis := fr.block.Instrs[:firstNonPhi]
		// Execute parallel assignment of phis.
		predIndex := slices.Index(fr.block.Preds, fr.prevBlock)
		fr.phitemps = fr.phitemps[:0]
		for _, phi := range phis {
			phi := phi.(*ssa.Phi)
			fr.phitemps = append(fr.phitemps, fr.get(phi.Edges[predIndex]))
		}
		for i, phi := range phis {
			fr.env[fr.info.index[phi.(*ssa.Phi)]] = fr.phitemps[i]
		}
	}
	return nonPhis
}

// doRecover implements the recover() built-in.
func doRecover(caller *frame) value {
	// recover() must be exactly one level beneath the deferred
	// function (two levels beneath the panicking function) to
	// have any effect.  Thus we ignore both "defer recover()" and
	// "defer f() -> g() -> recover()".
	if caller != nil && !caller.panicking &&
		caller.caller != nil && caller.caller.panicking {
		caller.caller.panicking = false
		p := caller.caller.panic
		caller.caller.panic = nil

		switch p := p.(type) {
		case targetPanic:
			// The target program explicitly called panic().
			return p.v
		case runtimeErr:
			return iface{caller.i.P.runtimeErrorString, p.Error()}
		case runtime.Error:
			// The interpreter encountered a runtime error.
			return iface{caller.i.P.runtimeErrorString, p.Error()}
		case string:
			// The interpreter explicitly called panic().
			return iface{caller.i.P.runtimeErrorString, p}
		default:
			panic(engineBug(fmt.Sprintf("unexpected panic type %T in target call to recover()", p)))
		}
	}
	return iface{}
}

// panicString renders a target panic value for reports.
func (i *interpreter) panicString(p interface{}) string {
	switch p := p.(type) {
	case targetPanic:
		if itf, ok := p.v.(iface); ok && itf.t != nil {
			// error or Stringer?
			if s, ok := itf.v.(string); ok {
				return s
			}
			if m := i.findMethod(itf.t, "Error"); m != nil {
				func() {
					defer func() { recover() }()
					if s, ok := call(i, nil, token.NoPos, m, []value{itf.v}).(string); ok {
						p.v = s
					}
				}()
			}
		}
		return toString(p.v)
	case runtimeErr:
		return p.Error()
	case error:
		return p.Error()
	}
	return fmt.Sprint(p)
}

// shortStack returns the innermost frames of the Go stack (engine bugs).
func shortStack() string {
	ls := strings.Split(string(debug.Stack()), "\n")
	if len(ls) > 22 {
		ls = ls[7:22]
	}
	for k := range ls {
		ls[k] = strings.TrimSpace(ls[k])
	}
	return strings.Join(ls, " | ")
}
