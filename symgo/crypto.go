package main

// Hash functions: real hash on concrete input; for input with symbolic bytes
// a "tokenised" digest (the real hash of the input in which every symbolic
// byte is replaced by the identity of its term). Equal tokens imply equal
// inputs for every valuation; for different tokens over the same concrete
// skeleton the solver is asked whether the inputs can coincide, and if they
// can the path is abandoned as inconclusive. Collision-freeness is assumed.

import (
	"crypto/sha1"
	"crypto/sha256"
	"crypto/sha512"
	"fmt"
	"go/types"
	"hash"
	"os"

	"golang.org/x/crypto/ripemd160"
)

type hashRec struct {
	kind  int
	input []value
}

func newHash(kind int) hash.Hash {
	switch kind {
	case 512:
		return sha512.New()
	case 160:
		return ripemd160.New()
	case 1:
		return sha1.New()
	}
	return sha256.New()
}

func (i *interpreter) hashBytes(kind int, in []value) []value {
	h := newHash(kind)
	symbolic := false
	for _, e := range in {
		switch e := e.(type) {
		case uint8:
			h.Write([]byte{0, e})
		case *Term:
			symbolic = true
			fmt.Fprintf(h, "\x01<%d>", e.id)
		default:
			panic(engineBug(fmt.Sprintf("hash of %T", e)))
		}
	}
	if !symbolic {
		b, _ := bytesOf(in)
		h2 := newHash(kind)
		h2.Write(b)
		return valuesOf(h2.Sum(nil))
	}
	i.stubsHit["hash(tokenised)"]++
	// possible coincidence with an earlier, differently tokenised input?
	for _, old := range i.hashInputs {
		if old.kind != kind || len(old.input) != len(in) {
			continue
		}
		same := true
		var eq *Term = i.tt.Bool(true)
		for k := range in {
			a, b := in[k], old.input[k]
			ab, aok := a.(uint8)
			bb, bok := b.(uint8)
			if aok && bok {
				if ab != bb {
					eq = i.tt.Bool(false)
					break
				}
				continue
			}
			at, bt := i.lift(a), i.lift(b)
			if at != bt {
				same = false
				eq = i.tt.BAnd(eq, i.tt.Cmp(OpEq, at, bt))
			}
		}
		if same || eq.IsFalse() {
			continue
		}
		res, _ := i.solver.Check(eq, i.ex.cfg.FeasTimeoutMs, nil)
		if res != "unsat" {
			i.unsupported("two hash inputs with symbolic bytes may coincide (tokenised hash cannot decide)")
		}
	}
	i.hashInputs = append(i.hashInputs, hashRec{kind, append([]value{}, in...)})
	return valuesOf(h.Sum(nil))
}

func init() {
	newDigest := func(kind int) externalFn {
		return func(fr *frame, a []value) value {
			f, err := fr.i.P.findFunc("verif/verifrt", "NewDigest")
			if err != nil {
				fr.i.unsupported("verifrt not loaded")
			}
			d := callSSA(fr.i, fr, 0, f, []value{kind}, nil)
			return ifaceOf(fr.i, f.Signature.Results().At(0).Type(), d)
		}
	}
	sum := func(kind int) externalFn {
		return func(fr *frame, a []value) value {
			return array(fr.i.hashBytes(kind, a[0].([]value)))
		}
	}
	for k, v := range map[string]externalFn{
		rt + "HashBytes": func(fr *frame, a []value) value {
			return fr.i.hashBytes(int(asInt64(a[0])), a[1].([]value))
		},
		"crypto/sha256.New":                 newDigest(256),
		"crypto/sha512.New":                 newDigest(512),
		"crypto/sha1.New":                   newDigest(1),
		"golang.org/x/crypto/ripemd160.New": newDigest(160),
		"crypto/sha256.Sum256":              sum(256),
		"crypto/sha512.Sum512":              sum(512),
		"crypto/sha1.Sum":                   sum(1),
	} {
		externals[k] = v
	}
}

// ---------------------------------------------------------------- AEAD / KDF models

type sealRec struct {
	box, nonce, key, msg []value
}

type kdfRec struct {
	in  []value // password ‖ 0xff.. ‖ salt with lengths
	lp  int
	out []value
	par string
}

func allConcrete(vs ...[]value) bool {
	for _, v := range vs {
		for _, e := range v {
			if _, ok := e.(uint8); !ok {
				return false
			}
		}
	}
	return true
}

// bytesEqTerm builds the conjunction a == b (lengths equal).
func (i *interpreter) bytesEqTerm(a, b []value) *Term {
	acc := i.tt.Bool(true)
	for k := range a {
		acc = i.tt.BAnd(acc, i.tt.Cmp(OpEq, i.lift(a[k]), i.lift(b[k])))
		if acc.IsFalse() {
			return acc
		}
	}
	return acc
}

// kdfIndependentOf: an ideal KDF's output on symbolic input never equals a
// key that was chosen independently of it (here: a fully concrete AEAD key -
// the random source of the model hands out concrete bytes). Without this
// axiom "does this box open under the passphrase-derived key?" is satisfiable
// for every box sealed under a random key, by letting the fresh KDF output
// collide with that key.
func (i *interpreter) kdfIndependentOf(key []value) {
	if !allConcrete(key) {
		return
	}
	for _, rec := range i.kdfs {
		if len(rec.out) == len(key) && !allConcrete(rec.out) {
			i.assume(i.tt.BNot(i.bytesEqTerm(rec.out, key)))
		}
	}
}

// isSymbolicKdfOut: is key (element for element) the symbolic output of a
// recorded ideal-KDF call?
func (i *interpreter) isSymbolicKdfOut(key []value) bool {
	if allConcrete(key) {
		return false
	}
	for _, rec := range i.kdfs {
		if len(rec.out) != len(key) {
			continue
		}
		same := true
		for k := range key {
			if rec.out[k] != key[k] {
				same = false
				break
			}
		}
		if same {
			return true
		}
	}
	return false
}

func init() {
	externals["golang.org/x/crypto/nacl/secretbox.Seal"] = func(fr *frame, a []value) value {
		i := fr.i
		out, _ := a[0].([]value)
		msg := a[1].([]value)
		nonce := []value((*a[2].(*value)).(array))
		key := []value((*a[3].(*value)).(array))
		i.kdfIndependentOf(key)
		var box []value
		if allConcrete(msg, nonce, key) {
			m, _ := bytesOf(msg)
			var n [24]byte
			var k [32]byte
			nb, _ := bytesOf(nonce)
			kb, _ := bytesOf(key)
			copy(n[:], nb)
			copy(k[:], kb)
			box = valuesOf(nativeSeal(m, &n, &k))
		} else {
			// ideal AEAD: fresh bytes of length len(m)+16
			box = make([]value, len(msg)+16)
			for k := range box {
				box[k] = unliftV(i.nondet("box", 8), types.Typ[types.Uint8])
			}
		}
		i.seals = append(i.seals, sealRec{box: box, nonce: append([]value{}, nonce...), key: append([]value{}, key...), msg: append([]value{}, msg...)})
		return appendValues(out, box)
	}
	externals["golang.org/x/crypto/nacl/secretbox.Open"] = func(fr *frame, a []value) value {
		i := fr.i
		out, _ := a[0].([]value)
		box := a[1].([]value)
		nonce := []value((*a[2].(*value)).(array))
		key := []value((*a[3].(*value)).(array))
		if len(box) < 16 {
			return tuple{[]value(nil), false}
		}
		i.kdfIndependentOf(key)
		// is box, element for element, the very output of one recorded seal?
		// Then only that seal can match: an ideal AEAD never produces the
		// same box for two different seals (fresh symbolic boxes carry no
		// other constraint that would tell them apart)
		same := -1
		for k, r := range i.seals {
			if len(r.box) != len(box) {
				continue
			}
			id := true
			for j := range box {
				if box[j] != r.box[j] {
					id = false
					break
				}
			}
			if id {
				same = k
				break
			}
		}
		// a recorded seal with the same (box, nonce, key)? decided symbolically
		for k, r := range i.seals {
			if len(r.box) != len(box) || (same >= 0 && k != same) {
				continue
			}
			// the independence axiom applied structurally (no solver call):
			// a symbolic KDF output never equals an independently chosen
			// concrete key
			if (allConcrete(key) && i.isSymbolicKdfOut(r.key)) || (allConcrete(r.key) && i.isSymbolicKdfOut(key)) {
				continue
			}
			eq := i.tt.BAnd(i.bytesEqTerm(box, r.box), i.tt.BAnd(i.bytesEqTerm(nonce, r.nonce), i.bytesEqTerm(key, r.key)))
			if i.decide(eq) {
				if os.Getenv("SYMGO_DEBUG_SEAL") != "" {
					fmt.Fprintf(os.Stderr, "[seal] Open matched a recorded seal: key concrete=%v (record %v) nonce concrete=%v (record %v) box concrete=%v (record %v) msglen=%d eq=%s\n",
						allConcrete(key), allConcrete(r.key), allConcrete(nonce), allConcrete(r.nonce), allConcrete(box), allConcrete(r.box), len(r.msg), eq.String())
				}
				return tuple{appendValues(out, r.msg), true}
			}
		}
		if allConcrete(box, nonce, key) {
			bb, _ := bytesOf(box)
			var n [24]byte
			var k [32]byte
			nb, _ := bytesOf(nonce)
			kb, _ := bytesOf(key)
			copy(n[:], nb)
			copy(k[:], kb)
			if m, ok := nativeOpen(bb, &n, &k); ok {
				return tuple{appendValues(out, valuesOf(m)), true}
			}
		}
		// ideal AEAD: anything that was not sealed does not authenticate
		return tuple{[]value(nil), false}
	}
	externals["golang.org/x/crypto/scrypt.Key"] = func(fr *frame, a []value) value {
		i := fr.i
		pw, _ := a[0].([]value)
		salt, _ := a[1].([]value)
		N, okN := a[2].(int)
		r, okR := a[3].(int)
		p, okP := a[4].(int)
		keyLen, okL := a[5].(int)
		if !okN || !okR || !okP || !okL {
			i.unsupported("scrypt with symbolic cost parameters")
		}
		if allConcrete(pw, salt) {
			pb, _ := bytesOf(pw)
			sb, _ := bytesOf(salt)
			out, err := nativeScrypt(pb, sb, N, r, p, keyLen)
			if err != nil {
				return tuple{[]value(nil), i.nativeErr(err)}
			}
			res := valuesOf(out)
			i.kdfs = append(i.kdfs, kdfRec{in: append(append([]value{}, pw...), salt...), lp: len(pw), out: append([]value{}, res...), par: fmt.Sprint(N, r, p, keyLen)})
			return tuple{res, iface{}}
		}
		if _, err := nativeScrypt(nil, nil, N, r, p, keyLen); err != nil {
			return tuple{[]value(nil), i.nativeErr(err)}
		}
		in := append(append([]value{}, pw...), salt...)
		par := fmt.Sprint(N, r, p, keyLen)
		// same input as an earlier call? decided symbolically
		for _, rec := range i.kdfs {
			if rec.par != par || rec.lp != len(pw) || len(rec.in) != len(in) {
				continue
			}
			if i.decide(i.bytesEqTerm(in, rec.in)) {
				return tuple{append([]value{}, rec.out...), iface{}}
			}
		}
		out := make([]value, keyLen)
		for k := range out {
			out[k] = unliftV(i.nondet("kdf", 8), types.Typ[types.Uint8])
		}
		// an ideal KDF does not output the one string everybody knows
		zeros := make([]value, keyLen)
		for k := range zeros {
			zeros[k] = uint8(0)
		}
		i.assume(i.tt.BNot(i.bytesEqTerm(out, zeros)))
		// collision-freeness: differs from every earlier output
		for _, rec := range i.kdfs {
			if len(rec.out) == len(out) {
				i.assume(i.tt.BNot(i.bytesEqTerm(out, rec.out)))
			}
		}
		// ... and from every independently chosen (concrete) key already in use
		for _, r := range i.seals {
			if len(r.key) == len(out) && allConcrete(r.key) {
				i.assume(i.tt.BNot(i.bytesEqTerm(out, r.key)))
			}
		}
		i.kdfs = append(i.kdfs, kdfRec{in: in, lp: len(pw), out: append([]value{}, out...), par: par})
		i.stubsHit["scrypt(ideal KDF on symbolic input)"]++
		return tuple{append([]value{}, out...), iface{}}
	}
}
