package main

// Hash functions: real hash on concrete input; for input with symbolic bytes
// a "tokenised" digest (the real hash of the input in which every symbolic
// byte is replaced by the identity of its term). Equal tokens imply equal
// inputs for every valuation; for different tokens over the same concrete
// skeleton the solver is asked whether the inputs can coincide, and if they
// can the path is abandoned as inconclusive. Collision-freeness is assumed.

import (
	"crypto/sha1"
	"crypto/sha256"
	"crypto/sha512"
	"fmt"
	"hash"

	"golang.org/x/crypto/ripemd160"
)

type hashRec struct {
	kind  int
	input []value
}

func newHash(kind int) hash.Hash {
	switch kind {
	case 512:
		return sha512.New()
	case 160:
		return ripemd160.New()
	case 1:
		return sha1.New()
	}
	return sha256.New()
}

func (i *interpreter) hashBytes(kind int, in []value) []value {
	h := newHash(kind)
	symbolic := false
	for _, e := range in {
		switch e := e.(type) {
		case uint8:
			h.Write([]byte{0, e})
		case *Term:
			symbolic = true
			fmt.Fprintf(h, "\x01<%d>", e.id)
		default:
			panic(engineBug(fmt.Sprintf("hash of %T", e)))
		}
	}
	if !symbolic {
		b, _ := bytesOf(in)
		h2 := newHash(kind)
		h2.Write(b)
		return valuesOf(h2.Sum(nil))
	}
	i.stubsHit["hash(tokenised)"]++
	// possible coincidence with an earlier, differently tokenised input?
	for _, old := range i.hashInputs {
		if old.kind != kind || len(old.input) != len(in) {
			continue
		}
		same := true
		var eq *Term = i.tt.Bool(true)
		for k := range in {
			a, b := in[k], old.input[k]
			ab, aok := a.(uint8)
			bb, bok := b.(uint8)
			if aok && bok {
				if ab != bb {
					eq = i.tt.Bool(false)
					break
				}
				continue
			}
			at, bt := i.lift(a), i.lift(b)
			if at != bt {
				same = false
				eq = i.tt.BAnd(eq, i.tt.Cmp(OpEq, at, bt))
			}
		}
		if same || eq.IsFalse() {
			continue
		}
		res, _ := i.solver.Check(eq, i.ex.cfg.FeasTimeoutMs, nil)
		if res != "unsat" {
			i.unsupported("two hash inputs with symbolic bytes may coincide (tokenised hash cannot decide)")
		}
	}
	i.hashInputs = append(i.hashInputs, hashRec{kind, append([]value{}, in...)})
	return valuesOf(h.Sum(nil))
}

func init() {
	newDigest := func(kind int) externalFn {
		return func(fr *frame, a []value) value {
			f, err := fr.i.P.findFunc("verif/verifrt", "NewDigest")
			if err != nil {
				fr.i.unsupported("verifrt not loaded")
			}
			d := callSSA(fr.i, fr, 0, f, []value{kind}, nil)
			return ifaceOf(fr.i, f.Signature.Results().At(0).Type(), d)
		}
	}
	sum := func(kind int) externalFn {
		return func(fr *frame, a []value) value {
			return array(fr.i.hashBytes(kind, a[0].([]value)))
		}
	}
	for k, v := range map[string]externalFn{
		rt + "HashBytes": func(fr *frame, a []value) value {
			return fr.i.hashBytes(int(asInt64(a[0])), a[1].([]value))
		},
		"crypto/sha256.New":                  newDigest(256),
		"crypto/sha512.New":                  newDigest(512),
		"crypto/sha1.New":                    newDigest(1),
		"golang.org/x/crypto/ripemd160.New":  newDigest(160),
		"crypto/sha256.Sum256":               sum(256),
		"crypto/sha512.Sum512":               sum(512),
		"crypto/sha1.Sum":                    sum(1),
	} {
		externals[k] = v
	}
}
