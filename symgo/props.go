package main

import (
	"encoding/json"
	"flag"
	"fmt"
	"os"
	"path/filepath"
	"sort"
	"strings"
	"sync/atomic"
	"time"
)

const (
	wtxmgrPkg   = "github.com/btcsuite/btcwallet/wtxmgr"
	waddrmgrPkg = "github.com/btcsuite/btcwallet/waddrmgr"
	walletPkg   = "github.com/btcsuite/btcwallet/wallet"
	chainPkg    = "github.com/btcsuite/btcwallet/chain"
	snaclPkg    = "github.com/btcsuite/btcwallet/snacl"
	migPkg      = "github.com/btcsuite/btcwallet/walletdb/migration"
	bdbPkg      = "github.com/btcsuite/btcwallet/walletdb/bdb"
	txauthorPkg = "github.com/btcsuite/btcwallet/wallet/txauthor"
)

// hrun is one harness execution of a property check.
type hrun struct {
	Pkg       string
	Fn        string
	Tiers     string   // "q", "t" or "qt"
	Reach     []string // labels that must be reached on some feasible path
	MaxSteps  int64
	Bound     string // human-readable bound of this harness
	NoNative  bool   // uses verifrt.StubFunc: cannot run natively
	Sched     bool   // schedule-dependent: a native run cannot force the interleaving
	MapOrder  bool   // explores map iteration orders (PermuteRanges): a native run draws a random one
	NoWitness bool   // witness paths are not replayed natively (see the bound text)
	Witnesses int    // number of witness paths replayed natively (default 3)
}

// engineReplay re-executes one counterexample deterministically in the
// executor with the model's concrete values and the recorded choices
// (schedule included); it must hit the same assertion.
func engineReplay(P *Program, r hrun, v *Violation) (bool, string) {
	fn, err := P.findFunc(r.Pkg, r.Fn)
	if err != nil {
		return false, err.Error()
	}
	cfg := defaultConfig()
	cfg.Harness = r.Fn
	cfg.PkgPath = r.Pkg
	cfg.Workers = 1
	cfg.FixedModel = v.Model
	if cfg.FixedModel == nil {
		cfg.FixedModel = map[string]uint64{}
	}
	cfg.FixedChoices = v.AllChoices
	if r.MaxSteps > 0 {
		cfg.MaxSteps = r.MaxSteps
	}
	e := newExplorer(P, fn, cfg)
	e.Run()
	for _, got := range e.violations {
		if got.Label == v.Label {
			return true, fmt.Sprintf("deterministic re-execution in the executor (concrete inputs from the model, recorded choices/schedule) hit %q again", v.Label)
		}
	}
	var labels []string
	for _, got := range e.violations {
		labels = append(labels, got.Label)
	}
	return false, fmt.Sprintf("re-execution did not hit %q (hit %q; inconclusive notes %q)", v.Label, labels, e.inconclusive)
}

type propDef struct {
	ID      string
	Runs    []hrun
	Assume  []string // assumptions / trusted base beyond the stubs actually hit
	Outside string   // what lies outside the bounds
	Rule    string
}

var props = map[string]*propDef{}

func reg(p *propDef) { props[p.ID] = p }

func (r hrun) inTier(tier string) bool {
	if tier == "quick" {
		return strings.Contains(r.Tiers, "q")
	}
	return strings.Contains(r.Tiers, "t")
}

type knownFile struct {
	Findings []KnownFinding `json:"findings"`
}

func loadKnown() []KnownFinding {
	b, err := os.ReadFile(filepath.Join(verifRoot, "known_findings.json"))
	if err != nil {
		return nil
	}
	var kf knownFile
	if err := json.Unmarshal(b, &kf); err != nil {
		fmt.Fprintln(os.Stderr, "known_findings.json:", err)
		return nil
	}
	return kf.Findings
}

func cmdCheck(args []string) int {
	if len(args) < 1 {
		usage()
	}
	id := args[0]
	fs := flag.NewFlagSet("check", flag.ExitOnError)
	tier := fs.String("tier", "", "quick|thorough")
	only := fs.String("only", "", "run only the harness with this function name")
	budget := fs.Duration("budget", 0, "wall-clock budget for the whole check")
	fs.Parse(args[1:])
	if *tier == "" {
		*tier = os.Getenv("VERIF_TIER")
	}
	if *tier == "" {
		*tier = "quick"
	}
	p := props[id]
	if p == nil {
		fmt.Fprintf(os.Stderr, "unknown property %s\n", id)
		return 2
	}
	t0 := time.Now()
	var patterns []string
	seen := map[string]bool{}
	for _, r := range p.Runs {
		if r.inTier(*tier) && !seen[r.Pkg] {
			seen[r.Pkg] = true
			patterns = append(patterns, r.Pkg)
		}
	}
	P, err := loadProgram(patterns)
	if err != nil {
		fmt.Fprintln(os.Stderr, "cannot load /repo:", err)
		writeEvidenceFailure(id, *tier, "load error: "+err.Error(), time.Since(t0))
		return 2
	}
	lastProgram = P
	known := loadKnown()
	var myKnown []KnownFinding
	for _, k := range known {
		if k.Property == id {
			myKnown = append(myKnown, k)
		}
	}

	ev := newEvidence(id, *tier)
	exit := 0
	nViol := 0
	var deadline time.Time
	if *budget > 0 {
		deadline = t0.Add(*budget)
	}
	for _, r := range p.Runs {
		if !r.inTier(*tier) || (*only != "" && *only != r.Fn) {
			continue
		}
		fn, err := P.findFunc(r.Pkg, r.Fn)
		if err != nil {
			fmt.Fprintln(os.Stderr, err)
			exit = 2
			continue
		}
		cfg := defaultConfig()
		cfg.Harness = r.Fn
		cfg.PkgPath = r.Pkg
		cfg.Known = myKnown
		cfg.Witnesses = r.Witnesses
		cfg.Deadline = deadline
		if *tier == "thorough" {
			cfg.CrossEvery = 50
		}
		if r.MaxSteps > 0 {
			cfg.MaxSteps = r.MaxSteps
		}
		h0 := time.Now()
		e := newExplorer(P, fn, cfg)
		e.Run()
		e.summary(os.Stdout, time.Since(h0))
		ev.add(e, r, time.Since(h0))
		for _, l := range r.Reach {
			if e.reach[l] == 0 && len(e.violations) == 0 {
				fmt.Printf("INCONCLUSIVE: harness %s is vacuous: label %q reached on no feasible path\n", r.Fn, l)
				ev.note("vacuous: label " + l + " not reached in " + r.Fn)
				exit = max(exit, 2)
			}
		}
		if len(e.inconclusive) > 0 {
			exit = max(exit, 2)
		}
		for k := range e.violations {
			v := &e.violations[k]
			var ok bool
			var path, detail string
			if r.NoNative {
				path = writeReplayFile(v, id, r.Pkg, nViol)
			} else {
				ok, path, detail = confirmViolation(v, id, r.Pkg, nViol)
				for try := 0; !ok && r.MapOrder && try < 3; try++ {
					// the native run iterates maps in a random order
					ok, path, detail = confirmViolation(v, id, r.Pkg, nViol)
				}
			}
			if !ok && (r.NoNative || r.Sched || r.MapOrder) {
				var d2 string
				ok, d2 = engineReplay(P, r, v)
				detail = strings.TrimSpace(detail + "; " + d2)
			}
			nViol++
			if ok {
				fmt.Printf("VIOLATION property=%s replay=%s\n", id, path)
				fmt.Printf("  assertion %q in %s; %s; trace: %s\n", v.Label, v.Harness, detail, v.Trace)
				ev.Violations++
				exit = 1
			} else {
				fmt.Printf("INCONCLUSIVE: solver model for %q in %s did not reproduce natively (%s); encoder/stub discrepancy, replay kept at %s\n", v.Label, v.Harness, detail, path)
				ev.note("model did not replay: " + v.Label)
				if exit == 0 {
					exit = 2
				}
			}
		}
		for what, n := range e.knownHits {
			fmt.Printf("KNOWN-FINDING: property=%s %s (hit on %d paths of %s)\n", id, what, n, r.Fn)
			ev.Known = append(ev.Known, what)
		}
		if os.Getenv("SYMGO_FAIL_FAST") != "" && ev.Violations > 0 {
			// evaluation of seeded changes: the verdict is known
			fmt.Println("fail-fast: remaining harnesses skipped after a confirmed violation")
			break
		}
		// validate a few witness paths natively (engine vs real build)
		if !r.NoNative && !r.NoWitness {
			ev.validateWitnesses(e, r, id)
		}
	}
	if atomic.LoadInt64(&gstats.CrossDiffs) > 0 {
		fmt.Println("INCONCLUSIVE: z3 and cvc5 disagreed on a query")
		exit = max(exit, 2)
	}
	if ev.WitnessMismatch > 0 {
		fmt.Println("INCONCLUSIVE: a witness path did not replay natively (engine and real build disagree)")
		exit = max(exit, 2)
	}
	if ev.Violations > 0 {
		// a confirmed violation is the verdict, whatever else was inconclusive
		exit = 1
	}
	ev.finish(p, time.Since(t0), exit)
	if exit == 0 {
		fmt.Printf("OK property=%s tier=%s paths=%d assertions=%d wall=%.1fs\n", id, *tier, ev.States, ev.Discharged, time.Since(t0).Seconds())
	}
	return exit
}

// ---------------------------------------------------------------- evidence

type evidence struct {
	ID, Tier        string
	States          int64
	Transitions     int64
	Discharged      int64
	Trivial         int64
	Infeasible      int64
	SolverForks     int64
	StructForks     int64
	Forced          int64
	Steps           int64
	Validated       int
	WitnessMismatch int
	Violations      int
	Known           []string
	Samples         []interface{}
	Harnesses       []map[string]interface{}
	Funcs           map[string]int64
	Stubs           map[string]int
	ReachAll        map[string]int64
	Notes           []string
	Bounds          []string
	Exhaustive      bool
}

func newEvidence(id, tier string) *evidence {
	return &evidence{ID: id, Tier: tier, Funcs: map[string]int64{}, Stubs: map[string]int{}, ReachAll: map[string]int64{}, Exhaustive: true}
}

func (ev *evidence) note(s string) { ev.Notes = append(ev.Notes, s) }

func (ev *evidence) add(e *Explorer, r hrun, d time.Duration) {
	ev.States += e.pathsDone
	ev.Transitions += e.decisions
	ev.Discharged += e.assertsDischarged
	ev.Trivial += e.assertsTriv
	ev.Infeasible += e.infeasible
	ev.SolverForks += e.solverForks
	ev.StructForks += e.structForks
	ev.Forced += e.forcedBranches
	ev.Steps += e.steps
	for f, n := range e.funcInstrs {
		ev.Funcs[f] += n
	}
	for s, n := range e.stubs {
		ev.Stubs[s] += n
	}
	for l, n := range e.reach {
		ev.ReachAll[r.Fn+":"+l] += n
	}
	for _, s := range e.samples {
		if len(ev.Samples) < 12 {
			ev.Samples = append(ev.Samples, map[string]interface{}{"harness": r.Fn, "path": s})
		}
	}
	if len(e.inconclusive) > 0 || atomic.LoadInt32(&e.stop) != 0 {
		ev.Exhaustive = false
	}
	for _, m := range e.inconclusive {
		ev.note(r.Fn + ": " + firstLine(m))
	}
	ev.Bounds = append(ev.Bounds, r.Fn+": "+r.Bound)
	ev.Harnesses = append(ev.Harnesses, map[string]interface{}{
		"harness": r.Fn, "package": r.Pkg, "bound": r.Bound, "paths": e.pathsDone, "infeasible_paths": e.infeasible,
		"assertions_discharged": e.assertsDischarged, "of_which_concretely_true": e.assertsTriv,
		"solver_decided_branches": e.solverForks, "forced_branches": e.forcedBranches,
		"structural_forks": e.structForks, "ssa_steps": e.steps, "wall_s": round1(d.Seconds()),
		"sched_switches": e.schedSwitches, "sched_transitions": e.schedTransitions,
	})
}

func firstLine(s string) string {
	if k := strings.IndexByte(s, '\n'); k >= 0 {
		return s[:k]
	}
	return s
}

func round1(f float64) float64 { return float64(int(f*10+0.5)) / 10 }

// validateWitnesses replays up to three completed paths natively: the real
// build, run on the solver's witness for that path, must pass every assertion
// and satisfy every assumption.
func (ev *evidence) validateWitnesses(e *Explorer, r hrun, id string) {
	e.mu.Lock()
	ws := e.witnesses
	e.mu.Unlock()
	maxW := 3
	if r.Witnesses > 0 {
		maxW = r.Witnesses
	}
	for k, w := range ws {
		if k >= maxW {
			break
		}
		v := Violation{Label: "(witness)", Harness: r.Fn, Model: w.Model, Choices: w.Choices, AllChoices: w.AllChoices, Trace: w.Trace}
		path := filepath.Join(verifRoot, "replays", fmt.Sprintf("witness-%s-%s-%d.json", id, r.Fn, k))
		rep := map[string]interface{}{"property": id, "harness": r.Fn, "package": r.Pkg, "label": "(witness)",
			"model": v.Model, "choices": v.Choices, "trace": v.Trace}
		if err := writeJSON(path, rep); err != nil {
			continue
		}
		failed, mismatch, panicked, out, err := nativeReplay(r.Pkg, r.Fn, path)
		if err != nil {
			ev.note("witness replay could not run: " + err.Error() + " " + lastLines(out, 5))
			ev.WitnessMismatch++
			continue
		}
		if len(failed) == 0 && len(mismatch) == 0 && panicked == "" {
			ev.Validated++
			os.Remove(path)
		} else {
			ev.WitnessMismatch++
			ev.note(fmt.Sprintf("witness %s disagreed natively: failed=%q mismatch=%q panic=%q", path, failed, mismatch, panicked))
			fmt.Printf("  witness %s disagreed natively: failed=%q mismatch=%q panic=%q\n", path, failed, mismatch, panicked)
		}
	}
}

func lastLines(s string, n int) string {
	ls := strings.Split(strings.TrimSpace(s), "\n")
	if len(ls) > n {
		ls = ls[len(ls)-n:]
	}
	return strings.Join(ls, " | ")
}

func (ev *evidence) finish(p *propDef, d time.Duration, exit int) {
	type fc struct {
		Name  string `json:"function"`
		Steps int64  `json:"ssa_instructions_executed"`
	}
	var funcs []fc
	for f, n := range ev.Funcs {
		if strings.Contains(f, "btcsuite/btcwallet") && !strings.Contains(f, "zz") && !strings.Contains(f, "Zz") {
			funcs = append(funcs, fc{f, n})
		}
	}
	sort.Slice(funcs, func(a, b int) bool { return funcs[a].Steps > funcs[b].Steps })
	var stubs []string
	for s := range ev.Stubs {
		if !strings.HasPrefix(s, "verif/verifrt.") {
			stubs = append(stubs, s)
		}
	}
	sort.Strings(stubs)
	assumptions := append([]string{}, p.Assume...)
	assumptions = append(assumptions,
		"symgo executes the SSA (golang.org/x/tools v0.29.0) of /repo's current sources; Go semantics as implemented by the executor (validated by `symgo selftest` and by native replay of witness paths)",
		"intercepted functions (stubs/models) actually hit in this run: "+strings.Join(stubs, ", "),
		"data-race freedom of the code under check (context switches only at synchronisation operations)",
	)
	cov := map[string]interface{}{
		"states":                        max64(ev.States, 0),
		"transitions":                   ev.Transitions,
		"traces_validated_against_impl": ev.Validated,
		"samples":                       ev.Samples,
		"exhaustive":                    ev.Exhaustive && exit == 0,
		"explanation": "states = feasible paths explored to completion (each stands for all values of its symbolic inputs); " +
			"transitions = decisions taken along them; traces_validated = witness paths whose solver model was replayed natively against the real build with every assertion passing",
		"functions_encoded":               funcs,
		"bounds":                          ev.Bounds,
		"outside_bound":                   p.Outside,
		"assertions_discharged":           ev.Discharged,
		"assertions_concretely_true":      ev.Trivial,
		"assertions_discharged_by_solver": ev.Discharged - ev.Trivial,
		"solver_decided_branches":         ev.SolverForks,
		"forced_branches":                 ev.Forced,
		"structural_forks":                ev.StructForks,
		"infeasible_paths_pruned":         ev.Infeasible,
		"ssa_instructions_executed":       ev.Steps,
		"queries": map[string]interface{}{
			"z3_sat": gstats.Sat, "z3_unsat": gstats.Unsat, "z3_unknown": gstats.Unknown, "solver_errors": gstats.Errors,
			"escalated": gstats.Escalated, "feasibility_unknown_decided_in_integer_mode": gstats.IntRescued, "escalated_sat": gstats.EscSat, "escalated_unsat": gstats.EscUnsat, "escalated_unknown": gstats.EscUnk,
			"cross_checked_with_cvc5": gstats.CrossChecked, "cross_solver_disagreements": gstats.CrossDiffs,
		},
		"solver_s":       round1(float64(gstats.Nanos) / 1e9),
		"reach_labels":   ev.ReachAll,
		"harnesses":      ev.Harnesses,
		"known_findings": ev.Known,
		"notes":          ev.Notes,
		"exit":           exit,
	}
	out := map[string]interface{}{
		"property_id": ev.ID,
		"tier":        ev.Tier,
		"seed":        envSeed(),
		"level":       "model_checking",
		"coverage":    cov,
		"assumptions": assumptions,
		"wall_s":      round1(d.Seconds()),
		"violations":  ev.Violations,
	}
	os.MkdirAll(filepath.Join(verifRoot, "evidence"), 0o755)
	if err := writeJSON(filepath.Join(verifRoot, "evidence", ev.ID+".json"), out); err != nil {
		fmt.Fprintln(os.Stderr, "cannot write evidence:", err)
	}
}

func max64(a, b int64) int64 {
	if a > b {
		return a
	}
	return b
}

func writeEvidenceFailure(id, tier, msg string, d time.Duration) {
	ev := newEvidence(id, tier)
	ev.note(msg)
	ev.Exhaustive = false
	p := props[id]
	if p == nil {
		p = &propDef{ID: id}
	}
	ev.finish(p, d, 2)
}

func cmdSelftest(args []string) int { return runSelftest() }
