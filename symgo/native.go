package main

// Native bridges: real cryptographic functions applied to concrete inputs.

import (
	"golang.org/x/crypto/nacl/secretbox"
	"golang.org/x/crypto/scrypt"
)

func nativeSeal(m []byte, n *[24]byte, k *[32]byte) []byte { return secretbox.Seal(nil, m, n, k) }
func nativeOpen(b []byte, n *[24]byte, k *[32]byte) ([]byte, bool) {
	return secretbox.Open(nil, b, n, k)
}
func nativeScrypt(pw, salt []byte, N, r, p, keyLen int) ([]byte, error) {
	return scrypt.Key(pw, salt, N, r, p, keyLen)
}
