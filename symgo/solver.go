package main

// One long-lived `z3 -in` process per worker; text SMT-LIB2, no set-logic.
// Any "(error" line in the output of a query makes that query inconclusive.

import (
	"bufio"
	"bytes"
	"context"
	"fmt"
	"io"
	"os"
	"os/exec"
	"regexp"
	"strconv"
	"strings"
	"sync/atomic"
	"time"
)

type SolverStats struct {
	Sat, Unsat, Unknown, Errors int64
	Nanos                       int64
	Escalated                   int64
	EscSat, EscUnsat, EscUnk    int64
	IntRescued                  int64 // feasibility queries unknown as bit-vectors, decided in integer mode
	CrossChecked, CrossDiffs    int64
	IntBlast                    int64
	IntMode, IntModeRefused     int64
}

var gstats SolverStats

type Solver struct {
	cmd          *exec.Cmd
	in           io.WriteCloser
	out          *bufio.Reader
	defined      map[*Term]bool
	asserted     []*Term
	buf          bytes.Buffer
	marker       int
	dead         bool
	bin          string
	frames       []solverFrame
	curTimeoutMs int
	flattened    int // number of innermost open frames that exist only on our side
}

type solverFrame struct {
	nAsserted int
	defs      []*Term
}

// Push opens a frame whose assertions and definitions Pop discards.
func (s *Solver) Push() {
	s.buf.WriteString("(push 1)\n")
	s.frames = append(s.frames, solverFrame{nAsserted: len(s.asserted)})
}

func (s *Solver) Pop() {
	f := s.frames[len(s.frames)-1]
	s.frames = s.frames[:len(s.frames)-1]
	if s.flattened > 0 {
		// the solver process was restarted inside this frame: rebuild it
		// without the frame's assertions
		s.flattened = 0
		s.asserted = s.asserted[:f.nAsserted]
		s.dead = true
		return
	}
	s.buf.WriteString("(pop 1)\n")
	for _, t := range f.defs {
		delete(s.defined, t)
	}
	s.asserted = s.asserted[:f.nAsserted]
}

var solverBin = func() string {
	if b := os.Getenv("SYMGO_SOLVER"); b != "" {
		return b
	}
	return "/usr/bin/z3"
}()
var slowLogDir = os.Getenv("SYMGO_SLOWLOG")
var slowN int64
var dumpStdin = func() *os.File {
	if p := os.Getenv("SYMGO_DUMPSTDIN"); p != "" {
		f, _ := os.Create(p)
		return f
	}
	return nil
}()

func newSolver() *Solver {
	s := &Solver{bin: solverBin}
	s.start()
	return s
}

func (s *Solver) start() {
	s.cmd = exec.Command(s.bin, "-in", "-smt2")
	in, err := s.cmd.StdinPipe()
	if err != nil {
		panic(err)
	}
	out, err := s.cmd.StdoutPipe()
	if err != nil {
		panic(err)
	}
	s.cmd.Stderr = nil
	if err := s.cmd.Start(); err != nil {
		panic(err)
	}
	s.in = in
	s.out = bufio.NewReaderSize(out, 1<<16)
	s.defined = make(map[*Term]bool)
	s.asserted = nil
	s.frames = nil
	s.dead = false
	s.buf.Reset()
}

func (s *Solver) Close() {
	if s.cmd != nil && s.cmd.Process != nil {
		s.in.Close()
		s.cmd.Process.Kill()
		s.cmd.Wait()
	}
}

// Reset forgets everything (new path).
func (s *Solver) Reset() {
	if s.dead {
		s.Close()
		s.start()
		return
	}
	s.buf.WriteString("(reset)\n")
	s.defined = make(map[*Term]bool)
	s.asserted = s.asserted[:0]
	s.frames = s.frames[:0]
	s.flattened = 0
}

// define emits declarations/definitions for all subterms of t not yet known.
func (s *Solver) define(t *Term) {
	var log *[]*Term
	if n := len(s.frames); n > 0 {
		log = &s.frames[n-1].defs
	}
	defineInto(&s.buf, s.defined, t, log)
}

func defineInto(buf *bytes.Buffer, defined map[*Term]bool, t *Term, log *[]*Term) {
	if defined[t] || t.Op == OpConst {
		return
	}
	type fr struct {
		t *Term
		k int
	}
	stack := []fr{{t, 0}}
	for len(stack) > 0 {
		top := &stack[len(stack)-1]
		x := top.t
		if defined[x] || x.Op == OpConst {
			stack = stack[:len(stack)-1]
			continue
		}
		kids := [3]*Term{x.A, x.B, x.C}
		if top.k < 3 {
			c := kids[top.k]
			top.k++
			if c != nil && !defined[c] && c.Op != OpConst {
				stack = append(stack, fr{c, 0})
			}
			continue
		}
		if x.Op == OpVar {
			fmt.Fprintf(buf, "(declare-const %s %s)\n", smtName(x), sortOf(x.W))
		} else {
			fmt.Fprintf(buf, "(define-fun t%d () %s %s)\n", x.id, sortOf(x.W), body(x))
		}
		defined[x] = true
		if log != nil {
			*log = append(*log, x)
		}
		stack = stack[:len(stack)-1]
	}
}

// Assert adds t to the path condition permanently (until Reset).
func (s *Solver) Assert(t *Term) {
	if t.IsTrue() {
		return
	}
	s.define(t)
	fmt.Fprintf(&s.buf, "(assert %s)\n", ref(t))
	s.asserted = append(s.asserted, t)
}

var modelRe = regexp.MustCompile(`\(\s*(\|[^|]*\||[^\s()]+)\s+(#x[0-9a-fA-F]+|#b[01]+|true|false)\s*\)`)

// Check asks whether pc ∧ extra is satisfiable. If wantModel (and sat) the
// values of vars are returned. res is "sat", "unsat" or "unknown".
func (s *Solver) Check(extra *Term, timeoutMs int, vars []*Term) (res string, model map[string]uint64) {
	if extra != nil {
		if extra.IsFalse() {
			return "unsat", nil
		}
		s.define(extra)
	}
	for _, v := range vars {
		s.define(v)
	}
	if s.dead {
		s.restartAndReplay()
	}
	s.curTimeoutMs = timeoutMs
	s.marker++
	mk := fmt.Sprintf("done-%d", s.marker)
	fmt.Fprintf(&s.buf, "(set-option :timeout %d)\n(push 1)\n", timeoutMs)
	if extra != nil && !extra.IsTrue() {
		fmt.Fprintf(&s.buf, "(assert %s)\n", ref(extra))
	}
	s.buf.WriteString("(check-sat)\n")
	fmt.Fprintf(&s.buf, "(echo \"%s\")\n", mk)
	t0 := time.Now()
	lines := s.flushAndRead(mk)
	res = "unknown"
	for _, l := range lines {
		if strings.HasPrefix(l, "(error") {
			atomic.AddInt64(&gstats.Errors, 1)
			res = "unknown"
			debugf("solver error: %s", l)
			goto pop
		}
	}
	for _, l := range lines {
		switch l {
		case "sat", "unsat", "unknown":
			res = l
		}
	}
	if res == "sat" && len(vars) > 0 {
		s.marker++
		mk2 := fmt.Sprintf("done-%d", s.marker)
		s.buf.WriteString("(get-value (")
		for _, v := range vars {
			s.buf.WriteString(ref(v))
			s.buf.WriteByte(' ')
		}
		s.buf.WriteString("))\n")
		fmt.Fprintf(&s.buf, "(echo \"%s\")\n", mk2)
		ml := s.flushAndRead(mk2)
		model = parseModel(strings.Join(ml, " "))
	}
pop:
	s.buf.WriteString("(pop 1)\n")
	atomic.AddInt64(&gstats.Nanos, int64(time.Since(t0)))
	if d := time.Since(t0); slowLogDir != "" && d > 300*time.Millisecond {
		n := atomic.AddInt64(&slowN, 1)
		if n < 40 {
			os.WriteFile(fmt.Sprintf("%s/slow-%d-%s-%dms.smt2", slowLogDir, n, res, d.Milliseconds()), []byte(s.Script(extra, nil)), 0o644)
		}
	}
	switch res {
	case "sat":
		atomic.AddInt64(&gstats.Sat, 1)
	case "unsat":
		atomic.AddInt64(&gstats.Unsat, 1)
	default:
		atomic.AddInt64(&gstats.Unknown, 1)
	}
	return
}

func parseModel(txt string) map[string]uint64 {
	m := make(map[string]uint64)
	for _, g := range modelRe.FindAllStringSubmatch(txt, -1) {
		name := strings.Trim(g[1], "|")
		var v uint64
		switch {
		case g[2] == "true":
			v = 1
		case g[2] == "false":
			v = 0
		case strings.HasPrefix(g[2], "#x"):
			v, _ = strconv.ParseUint(g[2][2:], 16, 64)
		case strings.HasPrefix(g[2], "#b"):
			v, _ = strconv.ParseUint(g[2][2:], 2, 64)
		}
		m[name] = v
	}
	return m
}

func (s *Solver) flushAndRead(marker string) []string {
	if s.dead {
		s.buf.Reset()
		return []string{"unknown"}
	}
	// hard watchdog: z3 4.8.12 does not always honour :timeout
	wd := time.AfterFunc(time.Duration(s.curTimeoutMs+5000)*time.Millisecond, func() {
		if s.cmd != nil && s.cmd.Process != nil {
			s.cmd.Process.Kill()
		}
	})
	defer wd.Stop()
	if dumpStdin != nil {
		dumpStdin.Write(s.buf.Bytes())
	}
	if _, err := s.in.Write(s.buf.Bytes()); err != nil {
		s.dead = true
		s.buf.Reset()
		return []string{"unknown"}
	}
	s.buf.Reset()
	var lines []string
	for {
		l, err := s.out.ReadString('\n')
		l = strings.TrimSpace(l)
		if strings.Trim(l, "\"") == marker {
			return lines
		}
		if l != "" {
			lines = append(lines, l)
		}
		if err != nil {
			s.dead = true
			return append(lines, "unknown")
		}
	}
}

// restartAndReplay starts a fresh solver process and re-asserts the path
// condition (scope frames are flattened; they are all still open).
func (s *Solver) restartAndReplay() {
	asserted := append([]*Term{}, s.asserted...)
	frames := s.frames
	s.Close()
	s.start()
	s.frames = frames
	for k := range s.frames {
		s.frames[k].defs = nil
	}
	for _, a := range asserted {
		defineInto(&s.buf, s.defined, a, nil)
		fmt.Fprintf(&s.buf, "(assert %s)\n", ref(a))
	}
	s.asserted = asserted
	// frames were flattened: popping one must not emit (pop) for the lost level
	s.flattened = len(s.frames)
}

// Script renders the current path condition plus extra as a standalone
// SMT-LIB2 script (for one-shot runs of other solvers).
func (s *Solver) Script(extra *Term, vars []*Term) string {
	var b bytes.Buffer
	def := make(map[*Term]bool)
	for _, a := range s.asserted {
		defineInto(&b, def, a, nil)
		fmt.Fprintf(&b, "(assert %s)\n", ref(a))
	}
	if extra != nil {
		defineInto(&b, def, extra, nil)
		fmt.Fprintf(&b, "(assert %s)\n", ref(extra))
	}
	for _, v := range vars {
		defineInto(&b, def, v, nil)
	}
	b.WriteString("(check-sat)\n")
	if len(vars) > 0 {
		b.WriteString("(get-value (")
		for _, v := range vars {
			b.WriteString(ref(v) + " ")
		}
		b.WriteString("))\n")
	}
	return b.String()
}

func writeFileQuiet(path, txt string) { os.WriteFile(path, []byte(txt), 0o644) }

// oneShotRaw is oneShot returning the raw output as well.
func oneShotRaw(argv []string, script string, timeout time.Duration) (string, map[string]uint64, string) {
	ctx, cancel := context.WithTimeout(context.Background(), timeout)
	defer cancel()
	cmd := exec.CommandContext(ctx, argv[0], argv[1:]...)
	cmd.Stdin = strings.NewReader(script)
	out, _ := cmd.Output()
	txt := string(out)
	res := "unknown"
	for _, l := range strings.Split(txt, "\n") {
		l = strings.TrimSpace(l)
		if strings.HasPrefix(l, "(error") {
			return "unknown", nil, txt
		}
		if l == "sat" || l == "unsat" {
			res = l
			break
		}
	}
	return res, nil, txt
}

// oneShot runs an external solver on a script.
func oneShot(argv []string, script string, timeout time.Duration) (string, map[string]uint64) {
	ctx, cancel := context.WithTimeout(context.Background(), timeout)
	defer cancel()
	cmd := exec.CommandContext(ctx, argv[0], argv[1:]...)
	cmd.Stdin = strings.NewReader(script)
	out, _ := cmd.Output()
	txt := string(out)
	lines := strings.Split(txt, "\n")
	res := "unknown"
	for _, l := range lines {
		l = strings.TrimSpace(l)
		if strings.HasPrefix(l, "(error") {
			// an error before the verdict makes it inconclusive (an error
			// after "unsat" is only the refused get-value)
			return "unknown", nil
		}
		if l == "sat" || l == "unsat" {
			res = l
			break
		}
	}
	var m map[string]uint64
	if res == "sat" {
		m = parseModel(txt)
	}
	return res, m
}

// escalate tries the other solvers on pc ∧ extra.
func (s *Solver) escalate(extra *Term, vars []*Term) (string, map[string]uint64) {
	atomic.AddInt64(&gstats.Escalated, 1)
	script := s.Script(extra, vars)
	for _, argv := range [][]string{
		{"z3-new", "-in", "-smt2", "-T:30"},
		{"cvc5", "--lang", "smt2", "--produce-models", "--solve-bv-as-int=sum", "--tlimit=60000"},
		{"cvc5", "--lang", "smt2", "--produce-models", "--tlimit=60000"},
	} {
		sc := script
		if argv[0] == "cvc5" {
			sc = "(set-logic ALL)\n" + script
		}
		res, m := oneShot(argv, sc, 70*time.Second)
		if res == "sat" {
			atomic.AddInt64(&gstats.EscSat, 1)
			return res, m
		}
		if res == "unsat" {
			atomic.AddInt64(&gstats.EscUnsat, 1)
			return res, m
		}
	}
	atomic.AddInt64(&gstats.EscUnk, 1)
	return "unknown", nil
}

// crossCheck sends the same query to cvc5 and compares verdicts.
func (s *Solver) crossCheck(extra *Term, got string) {
	script := "(set-logic ALL)\n" + s.Script(extra, nil)
	res, _ := oneShot([]string{"cvc5", "--lang", "smt2", "--tlimit=20000"}, script, 25*time.Second)
	if res == "unknown" {
		return
	}
	atomic.AddInt64(&gstats.CrossChecked, 1)
	if res != got {
		atomic.AddInt64(&gstats.CrossDiffs, 1)
		debugf("CROSS-SOLVER DIFF: z3=%s cvc5=%s", got, res)
	}
}

// hardArith reports whether t contains multiplication/division that
// bit-blasting handles badly (symbolic*symbolic, division by a non power of
// two); such queries go to cvc5's integer encoding first.
func hardArith(t *Term, seen map[*Term]bool) bool {
	if t == nil || seen[t] {
		return false
	}
	seen[t] = true
	switch t.Op {
	case OpMul:
		if !t.A.IsConst() && !t.B.IsConst() {
			return true
		}
		if t.W >= 32 {
			return true
		}
	case OpUDiv, OpSDiv, OpURem, OpSRem:
		if !t.B.IsConst() || t.B.Val&(t.B.Val-1) != 0 {
			if t.W >= 32 {
				return true
			}
		}
	}
	return hardArith(t.A, seen) || hardArith(t.B, seen) || hardArith(t.C, seen)
}

// intBlast runs cvc5 with the integer encoding on pc ∧ extra.
func (s *Solver) intBlast(extra *Term, vars []*Term, timeout time.Duration) (string, map[string]uint64) {
	script := "(set-logic ALL)\n" + s.Script(extra, vars)
	res, m := oneShot([]string{"cvc5", "--lang", "smt2", "--produce-models", "--solve-bv-as-int=sum",
		fmt.Sprintf("--tlimit=%d", timeout.Milliseconds())}, script, timeout+5*time.Second)
	n := atomic.AddInt64(&gstats.IntBlast, 1)
	if res == "unknown" && slowLogDir != "" {
		os.WriteFile(fmt.Sprintf("%s/intblast-unknown-%d.smt2", slowLogDir, n), []byte(script), 0o644)
	}
	return res, m
}
