// Copyright 2013 The Go Authors. All rights reserved.
// Use of this source code is governed by a BSD-style
// license that can be found in the LICENSE file.

package main

// Values
//
// All interpreter values are "boxed" in the empty interface, value.
// The range of possible dynamic types within value are:
//
// - bool
// - numbers (all built-in int/float/complex types are distinguished)
// - string
// - map[value]value --- maps for which  usesBuiltinMap(keyType)
//   *hashmap        --- maps for which !usesBuiltinMap(keyType)
// - chan value
// - []value --- slices
// - iface --- interfaces.
// - structure --- structs.  Fields are ordered and accessed by numeric indices.
// - array --- arrays.
// - *value --- pointers.  Careful: *value is a distinct type from *array etc.
// - *ssa.Function \
//   *ssa.Builtin   } --- functions.  A nil 'func' is always of type *ssa.Function.
//   *closure      /
// - tuple --- as returned by Return, Next, "value,ok" modes, etc.
// - iter --- iterators from 'range' over map or string.
// - bad --- a poison pill for locals that have gone out of scope.
// - rtype -- the interpreter's concrete implementation of reflect.Type
// - **deferred -- the address of a frame's defer stack for a Defer._Stack.
//
// Note that nil is not on this list.
//
// Pay close attention to whether or not the dynamic type is a pointer.
// The compiler cannot help you since value is an empty interface.

import (
	"bytes"
	"fmt"
	"go/types"
	"io"
	"strings"
	"unsafe"

	"golang.org/x/tools/go/ssa"
)

type value interface{}

type tuple []value

type array []value

type iface struct {
	t types.Type // never an "untyped" type
	v value
}

type structure []value

// For map, array, *array, slice, string or channel.
type iter interface {
	// next returns a Tuple (key, value, ok).
	// key and value are unaliased, e.g. copies of the sequence element.
	next() tuple
}

type closure struct {
	Fn  *ssa.Function
	Env []value
}

type bad struct{}


// ------------------------------------------------------------------------
// Equality. eqv returns a bool or, when symbolic scalars are involved, a
// *Term of sort Bool.

// nil-tolerant variant of types.Identical.
func sameType(x, y types.Type) bool {
	if x == nil {
		return y == nil
	}
	return y != nil && types.Identical(x, y)
}

func (i *interpreter) eqv(t types.Type, x, y value) value {
	if xt, ok := x.(*Term); ok {
		return unlift(i.tt.Cmp(OpEq, xt, i.lift(y)), boolType)
	}
	if yt, ok := y.(*Term); ok {
		return unlift(i.tt.Cmp(OpEq, i.lift(x), yt), boolType)
	}
	switch x := x.(type) {
	case bool:
		return x == y.(bool)
	case int:
		return x == y.(int)
	case int8:
		return x == y.(int8)
	case int16:
		return x == y.(int16)
	case int32:
		return x == y.(int32)
	case int64:
		return x == y.(int64)
	case uint:
		return x == y.(uint)
	case uint8:
		return x == y.(uint8)
	case uint16:
		return x == y.(uint16)
	case uint32:
		return x == y.(uint32)
	case uint64:
		return x == y.(uint64)
	case uintptr:
		return x == y.(uintptr)
	case float32:
		return x == y.(float32)
	case float64:
		return x == y.(float64)
	case complex64:
		return x == y.(complex64)
	case complex128:
		return x == y.(complex128)
	case string:
		return x == y.(string)
	case *value:
		return x == y.(*value)
	case *mchan:
		return x == y.(*mchan)
	case unsafe.Pointer:
		return x == y.(unsafe.Pointer)
	case structure:
		y := y.(structure)
		tStruct := t.Underlying().(*types.Struct)
		var acc value = true
		for k, n := 0, tStruct.NumFields(); k < n; k++ {
			if f := tStruct.Field(k); f.Name() != "_" {
				acc = i.andv(acc, i.eqv(f.Type(), x[k], y[k]))
				if b, ok := acc.(bool); ok && !b {
					return false
				}
			}
		}
		return acc
	case array:
		y := y.(array)
		tElt := t.Underlying().(*types.Array).Elem()
		var acc value = true
		for k, xi := range x {
			acc = i.andv(acc, i.eqv(tElt, xi, y[k]))
			if b, ok := acc.(bool); ok && !b {
				return false
			}
		}
		return acc
	case iface:
		y := y.(iface)
		if !sameType(x.t, y.t) {
			return false
		}
		if x.t == nil {
			return true
		}
		return i.eqv(x.t, x.v, y.v)
	case *opaque:
		return x == y.(*opaque)
	}

	// Since map, func and slice don't support comparison, this
	// case is only reachable if one of x or y is literally nil
	// (handled in eqnil) or via interface{} values.
	panic(targetPanic{iface{types.Typ[types.String], fmt.Sprintf("runtime error: comparing uncomparable type %s", t)}})
}

// opaque wraps a native Go object handed around by stubs (never inspected
// by interpreted code).
type opaque struct {
	v    interface{}
	kind string
}

// ------------------------------------------------------------------------
// Ordered maps. Iteration order is insertion order (deterministic, which
// re-execution needs); a harness may ask for every order to be explored.

type omap struct {
	i       *interpreter
	keyType types.Type
	keys    []value
	vals    []value
	live    []bool
	n       int
	index   map[string]int // canonical key string -> position, concrete keys only
	symKeys int            // live entries whose key has symbolic parts
}

func (i *interpreter) makeMap(kt types.Type) *omap {
	return &omap{i: i, keyType: kt, index: make(map[string]int)}
}

// keyString renders a canonical string for a concrete key; ok=false when the
// key contains symbolic scalars.
func keyString(sb *strings.Builder, v value) bool {
	switch v := v.(type) {
	case *Term:
		return false
	case bool, int, int8, int16, int32, int64, uint, uint16, uint32, uint64, uintptr, float32, float64, complex64, complex128:
		fmt.Fprintf(sb, "%T:%v;", v, v)
	case uint8:
		sb.WriteByte('b')
		sb.WriteByte("0123456789abcdef"[v>>4])
		sb.WriteByte("0123456789abcdef"[v&15])
	case string:
		fmt.Fprintf(sb, "s%d:%s;", len(v), v)
	case *value:
		fmt.Fprintf(sb, "p%p;", v)
	case *mchan:
		fmt.Fprintf(sb, "c%p;", v)
	case *opaque:
		fmt.Fprintf(sb, "o%p;", v)
	case unsafe.Pointer:
		fmt.Fprintf(sb, "u%p;", v)
	case structure:
		sb.WriteByte('{')
		for _, f := range v {
			if !keyString(sb, f) {
				return false
			}
		}
		sb.WriteByte('}')
	case array:
		sb.WriteByte('[')
		for _, f := range v {
			if !keyString(sb, f) {
				return false
			}
		}
		sb.WriteByte(']')
	case iface:
		if v.t == nil {
			sb.WriteString("nil;")
			return true
		}
		sb.WriteString("i(")
		sb.WriteString(v.t.String())
		sb.WriteString(")")
		return keyString(sb, v.v)
	default:
		panic(targetPanic{iface{types.Typ[types.String], fmt.Sprintf("runtime error: hash of unhashable type %T", v)}})
	}
	return true
}

// find returns the position of key k or -1.
func (m *omap) find(k value) int {
	if m == nil {
		return -1
	}
	var sb strings.Builder
	conc := keyString(&sb, k)
	if conc {
		if p, ok := m.index[sb.String()]; ok {
			return p
		}
		if m.symKeys == 0 {
			return -1
		}
	}
	// symbolic comparison against the candidates
	for p := range m.keys {
		if !m.live[p] {
			continue
		}
		if conc {
			var sb2 strings.Builder
			if keyString(&sb2, m.keys[p]) {
				continue // concrete vs concrete already decided by index
			}
		}
		if m.i.truth(m.i.eqv(m.keyType, k, m.keys[p])) {
			return p
		}
	}
	return -1
}

func (m *omap) lookup(k value) (value, bool) {
	p := m.find(k)
	if p < 0 {
		return nil, false
	}
	return m.vals[p], true
}

func (m *omap) insert(k, v value) {
	if m == nil {
		panic(runtimeErr("assignment to entry in nil map"))
	}
	if p := m.find(k); p >= 0 {
		m.vals[p] = v
		return
	}
	var sb strings.Builder
	if keyString(&sb, k) {
		m.index[sb.String()] = len(m.keys)
	} else {
		m.symKeys++
	}
	m.keys = append(m.keys, k)
	m.vals = append(m.vals, v)
	m.live = append(m.live, true)
	m.n++
}

func (m *omap) delete(k value) {
	if m == nil {
		return
	}
	p := m.find(k)
	if p < 0 {
		return
	}
	var sb strings.Builder
	if keyString(&sb, m.keys[p]) {
		delete(m.index, sb.String())
	} else {
		m.symKeys--
	}
	m.live[p] = false
	m.n--
}

func (m *omap) len() int {
	if m == nil {
		return 0
	}
	return m.n
}

type omapIter struct {
	m     *omap
	order []int
	k     int
}

func (it *omapIter) next() tuple {
	for it.k < len(it.order) {
		p := it.order[it.k]
		it.k++
		if it.m.live[p] {
			return tuple{true, it.m.keys[p], it.m.vals[p]}
		}
	}
	return tuple{false, nil, nil}
}

func (i *interpreter) rangeMap(m *omap) iter {
	it := &omapIter{m: m}
	if m == nil {
		return it
	}
	for p := range m.keys {
		if m.live[p] {
			it.order = append(it.order, p)
		}
	}
	if i.permuteRanges && len(it.order) > 1 {
		// choose a permutation: successive choices of the next element
		rest := it.order
		var out []int
		for len(rest) > 1 {
			c := i.choose(len(rest), "range-order")
			out = append(out, rest[c])
			rest = append(append([]int{}, rest[:c]...), rest[c+1:]...)
		}
		it.order = append(out, rest...)
	}
	return it
}

// reflect.Value struct values don't have a fixed shape, since the
// payload can be a scalar or an aggregate depending on the instance.
// So store (and load) can't simply use recursion over the shape of the
// rhs value, or the lhs, to copy the value; we need the static type
// information.  (We can't make reflect.Value a new basic data type
// because its "structness" is exposed to Go programs.)

// load returns the value of type T in *addr.
func load(T types.Type, addr *value) value {
	switch T := T.Underlying().(type) {
	case *types.Struct:
		v := (*addr).(structure)
		a := make(structure, len(v))
		for i := range a {
			a[i] = load(T.Field(i).Type(), &v[i])
		}
		return a
	case *types.Array:
		v := (*addr).(array)
		a := make(array, len(v))
		for i := range a {
			a[i] = load(T.Elem(), &v[i])
		}
		return a
	default:
		return *addr
	}
}

// store stores value v of type T into *addr.
func store(T types.Type, addr *value, v value) {
	switch T := T.Underlying().(type) {
	case *types.Struct:
		lhs := (*addr).(structure)
		rhs := v.(structure)
		for i := range lhs {
			store(T.Field(i).Type(), &lhs[i], rhs[i])
		}
	case *types.Array:
		lhs := (*addr).(array)
		rhs := v.(array)
		for i := range lhs {
			store(T.Elem(), &lhs[i], rhs[i])
		}
	default:
		*addr = v
	}
}

// Prints in the style of built-in println.
// (More or less; in gc println is actually a compiler intrinsic and
// can distinguish println(1) from println(interface{}(1)).)
func writeValue(buf *bytes.Buffer, v value) {
	switch v := v.(type) {
	case nil, bool, int, int8, int16, int32, int64, uint, uint8, uint16, uint32, uint64, uintptr, float32, float64, complex64, complex128, string:
		fmt.Fprintf(buf, "%v", v)

	case *omap:
		buf.WriteString("map[")
		if v != nil {
			for p := range v.keys {
				if v.live[p] {
					writeValue(buf, v.keys[p])
					buf.WriteString(":")
					writeValue(buf, v.vals[p])
					buf.WriteString(" ")
				}
			}
		}
		buf.WriteString("]")

	case *Term:
		buf.WriteString(v.String())

	case *mchan:
		fmt.Fprintf(buf, "chan%p", v)

	case *value:
		if v == nil {
			buf.WriteString("<nil>")
		} else {
			fmt.Fprintf(buf, "%p", v)
		}

	case iface:
		fmt.Fprintf(buf, "(%s, ", v.t)
		writeValue(buf, v.v)
		buf.WriteString(")")

	case structure:
		buf.WriteString("{")
		for i, e := range v {
			if i > 0 {
				buf.WriteString(" ")
			}
			writeValue(buf, e)
		}
		buf.WriteString("}")

	case array:
		buf.WriteString("[")
		for i, e := range v {
			if i > 0 {
				buf.WriteString(" ")
			}
			writeValue(buf, e)
		}
		buf.WriteString("]")

	case []value:
		buf.WriteString("[")
		for i, e := range v {
			if i > 0 {
				buf.WriteString(" ")
			}
			writeValue(buf, e)
		}
		buf.WriteString("]")

	case *ssa.Function, *ssa.Builtin, *closure:
		fmt.Fprintf(buf, "%p", v) // (an address)

	case tuple:
		// Unreachable in well-formed Go programs
		buf.WriteString("(")
		for i, e := range v {
			if i > 0 {
				buf.WriteString(", ")
			}
			writeValue(buf, e)
		}
		buf.WriteString(")")

	default:
		fmt.Fprintf(buf, "<%T>", v)
	}
}

// Implements printing of Go values in the style of built-in println.
func toString(v value) string {
	var b bytes.Buffer
	writeValue(&b, v)
	return b.String()
}

// ------------------------------------------------------------------------
// Iterators

type stringIter struct {
	*strings.Reader
	i int
}

func (it *stringIter) next() tuple {
	okv := make(tuple, 3)
	ch, n, err := it.ReadRune()
	ok := err != io.EOF
	okv[0] = ok
	if ok {
		okv[1] = it.i
		okv[2] = ch
	}
	it.i += n
	return okv
}

