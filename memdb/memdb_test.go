package memdb

import (
	"testing"

	"github.com/btcsuite/btcd/chaincfg"
	"github.com/btcsuite/btcwallet/walletdb"
	"github.com/btcsuite/btcwallet/wtxmgr"
)

func TestCreateOpen(t *testing.T) {
	db := New()
	ns := []byte("wtxmgr")
	err := walletdb.Update(db, func(tx walletdb.ReadWriteTx) error {
		b, err := tx.CreateTopLevelBucket(ns)
		if err != nil {
			return err
		}
		return wtxmgr.Create(b)
	})
	if err != nil {
		t.Fatal(err)
	}
	err = walletdb.View(db, func(tx walletdb.ReadTx) error {
		_, err := wtxmgr.Open(tx.ReadBucket(ns), &chaincfg.MainNetParams)
		return err
	})
	if err != nil {
		t.Fatal(err)
	}
}
