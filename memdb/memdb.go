// Package memdb is an in-memory walletdb.DB used as the database model of
// the symbolic checks (it is plain Go: interpreted by symgo, compiled for
// native replay and for differential tests against walletdb/bdb).
//
// Contract modelled (measured against bbolt through walletdb/bdb):
// byte-ordered keys; nested buckets; Get of a missing key, of a bucket key and
// of a key with an empty value returns nil; cursors yield (key, nil) for
// nested buckets; Seek positions on the first key >= seek; Put/Delete on a
// bucket key, CreateBucket on a value key, DeleteNestedBucket on a value key
// fail with ErrIncompatibleValue; writes in a read transaction fail with
// ErrTxNotWritable; one writer at a time; commit handlers run after the
// writer lock is released; a rolled-back transaction leaves no trace.
// Stepping a cursor after it ran off either end, or after Delete, is not
// modelled (panics): the code under check does not do it.
package memdb

import (
	"bytes"
	"errors"
	"io"
	"sync"

	"github.com/btcsuite/btcwallet/walletdb"

	"verif/verifrt"
)

// ErrFault is the error returned by an injected write fault.
var ErrFault = errors.New("memdb: injected write fault")

// ErrCommitFault is returned by an injected commit failure.
var ErrCommitFault = errors.New("memdb: injected commit failure")

type entry struct {
	key []byte
	val []byte
	sub *node // non-nil for nested buckets
}

type node struct {
	ents []entry
	seq  uint64
}

func (n *node) clone() *node {
	c := &node{seq: n.seq, ents: make([]entry, len(n.ents))}
	for i, e := range n.ents {
		c.ents[i] = entry{key: e.key, val: e.val}
		if e.sub != nil {
			c.ents[i].sub = e.sub.clone()
		}
	}
	return c
}

// find returns the index of the first entry with key >= k and whether it is
// an exact match.
func (n *node) find(k []byte) (int, bool) {
	for i := range n.ents {
		c := bytes.Compare(n.ents[i].key, k)
		if c == 0 {
			return i, true
		}
		if c > 0 {
			return i, false
		}
	}
	return len(n.ents), false
}

func (n *node) insertAt(i int, e entry) {
	n.ents = append(n.ents, entry{})
	copy(n.ents[i+1:], n.ents[i:])
	n.ents[i] = e
}

func (n *node) removeAt(i int) {
	n.ents = append(n.ents[:i:i], n.ents[i+1:]...)
}

func cp(b []byte) []byte {
	if b == nil {
		return nil
	}
	c := make([]byte, len(b))
	copy(c, b)
	return c
}

// PutRec is one record of the write log.
type PutRec struct {
	Op         string // "put", "bucket"
	Key, Value []byte
}

// DB is the in-memory database.
type DB struct {
	root   *node
	wlock  sync.Mutex
	closed bool

	// LogWrites makes the database record every key and value handed to it.
	LogWrites bool
	Log       []PutRec
	// Commits counts successful commits of write transactions.
	Commits int
	// FailNextCommit makes the next Commit fail (and roll back).
	FailNextCommit bool
	// AfterUnlock, if set, is called by Commit after the writer lock was
	// released and before the commit handlers run (a scheduling point for
	// concurrency harnesses).
	AfterUnlock func()
}

// New returns an empty database.
func New() *DB { return &DB{root: &node{}} }

var _ walletdb.DB = (*DB)(nil)

type tx struct {
	db       *DB
	root     *node
	writable bool
	done     bool
	handlers []func()
}

func (d *DB) begin(writable bool) (*tx, error) {
	if d.closed {
		return nil, walletdb.ErrDbNotOpen
	}
	if writable {
		d.wlock.Lock()
		return &tx{db: d, root: d.root.clone(), writable: true}, nil
	}
	return &tx{db: d, root: d.root}, nil
}

func (d *DB) BeginReadTx() (walletdb.ReadTx, error) {
	t, err := d.begin(false)
	if err != nil {
		return nil, err
	}
	return t, nil
}

func (d *DB) BeginReadWriteTx() (walletdb.ReadWriteTx, error) {
	t, err := d.begin(true)
	if err != nil {
		return nil, err
	}
	return t, nil
}

func (d *DB) Copy(w io.Writer) error { return nil }
func (d *DB) Close() error {
	if d.closed {
		return walletdb.ErrDbNotOpen
	}
	d.closed = true
	return nil
}

// Reopen models closing and reopening the database file.
func (d *DB) Reopen() { d.closed = false }

func (d *DB) PrintStats() string { return "memdb" }

func (d *DB) View(f func(tx walletdb.ReadTx) error, reset func()) error {
	reset()
	t, err := d.BeginReadTx()
	if err != nil {
		return err
	}
	defer func() {
		if t != nil {
			_ = t.Rollback()
		}
	}()
	err = f(t)
	rollbackErr := t.Rollback()
	if err != nil {
		return err
	}
	if rollbackErr != nil {
		return rollbackErr
	}
	return nil
}

func (d *DB) Update(f func(tx walletdb.ReadWriteTx) error, reset func()) error {
	reset()
	t, err := d.BeginReadWriteTx()
	if err != nil {
		return err
	}
	defer func() {
		if t != nil {
			_ = t.Rollback()
		}
	}()
	err = f(t)
	if err != nil {
		_ = t.Rollback()
		return err
	}
	return t.Commit()
}

// Batch is Update (bbolt's Batch coalesces; the semantics are the same).
func (d *DB) Batch(f func(tx walletdb.ReadWriteTx) error) error {
	return d.Update(f, func() {})
}

func (t *tx) ReadBucket(key []byte) walletdb.ReadBucket {
	b := t.bucket(key)
	if b == nil {
		return nil
	}
	return b
}

func (t *tx) ReadWriteBucket(key []byte) walletdb.ReadWriteBucket {
	b := t.bucket(key)
	if b == nil {
		return nil
	}
	return b
}

func (t *tx) bucket(key []byte) *bucket {
	if t.done {
		panic("memdb: use of closed transaction")
	}
	i, ok := t.root.find(key)
	if !ok || t.root.ents[i].sub == nil {
		return nil
	}
	return &bucket{t: t, n: t.root.ents[i].sub}
}

func (t *tx) ForEachBucket(fn func(key []byte) error) error {
	for _, e := range t.root.ents {
		if e.sub != nil {
			if err := fn(cp(e.key)); err != nil {
				return err
			}
		}
	}
	return nil
}

func (t *tx) CreateTopLevelBucket(key []byte) (walletdb.ReadWriteBucket, error) {
	rb := &bucket{t: t, n: t.root}
	b, err := rb.createBucket(key, true)
	if err != nil {
		return nil, err
	}
	return b, nil
}

func (t *tx) DeleteTopLevelBucket(key []byte) error {
	rb := &bucket{t: t, n: t.root}
	return rb.DeleteNestedBucket(key)
}

func (t *tx) Commit() error {
	if t.done {
		return walletdb.ErrTxClosed
	}
	if !t.writable {
		return walletdb.ErrTxNotWritable
	}
	if t.db.FailNextCommit {
		t.db.FailNextCommit = false
		t.done = true
		t.db.wlock.Unlock()
		return ErrCommitFault
	}
	t.db.root = t.root
	t.db.Commits++
	t.done = true
	t.db.wlock.Unlock()
	// bbolt runs the commit handlers after releasing the writer lock: another
	// writer may run in between
	verifrt.Yield()
	if t.db.AfterUnlock != nil {
		t.db.AfterUnlock()
	}
	for _, h := range t.handlers {
		h()
	}
	return nil
}

func (t *tx) Rollback() error {
	if t.done {
		return walletdb.ErrTxClosed
	}
	t.done = true
	if t.writable {
		t.db.wlock.Unlock()
	}
	return nil
}

func (t *tx) OnCommit(f func()) { t.handlers = append(t.handlers, f) }

type bucket struct {
	t *tx
	n *node
}

var _ walletdb.ReadWriteBucket = (*bucket)(nil)

func (b *bucket) check() {
	if b.t.done {
		panic("memdb: use of bucket after its transaction ended")
	}
}

func (b *bucket) NestedReadWriteBucket(key []byte) walletdb.ReadWriteBucket {
	b.check()
	i, ok := b.n.find(key)
	if !ok || b.n.ents[i].sub == nil {
		return nil
	}
	return &bucket{t: b.t, n: b.n.ents[i].sub}
}

func (b *bucket) NestedReadBucket(key []byte) walletdb.ReadBucket {
	nb := b.NestedReadWriteBucket(key)
	if nb == nil {
		return nil
	}
	return nb
}

func (b *bucket) mutable() error {
	if !b.t.writable {
		return walletdb.ErrTxNotWritable
	}
	if verifrt.FaultHere() {
		return ErrFault
	}
	return nil
}

func (b *bucket) createBucket(key []byte, ifNotExists bool) (*bucket, error) {
	b.check()
	if !b.t.writable {
		return nil, walletdb.ErrTxNotWritable
	}
	if len(key) == 0 {
		return nil, walletdb.ErrBucketNameRequired
	}
	i, ok := b.n.find(key)
	if ok {
		if b.n.ents[i].sub == nil {
			return nil, walletdb.ErrIncompatibleValue
		}
		if ifNotExists {
			return &bucket{t: b.t, n: b.n.ents[i].sub}, nil
		}
		return nil, walletdb.ErrBucketExists
	}
	if verifrt.FaultHere() {
		return nil, ErrFault
	}
	sub := &node{}
	b.n.insertAt(i, entry{key: cp(key), sub: sub})
	if b.t.db.LogWrites {
		b.t.db.Log = append(b.t.db.Log, PutRec{Op: "bucket", Key: cp(key)})
	}
	return &bucket{t: b.t, n: sub}, nil
}

func (b *bucket) CreateBucket(key []byte) (walletdb.ReadWriteBucket, error) {
	nb, err := b.createBucket(key, false)
	if err != nil {
		return nil, err
	}
	return nb, nil
}

func (b *bucket) CreateBucketIfNotExists(key []byte) (walletdb.ReadWriteBucket, error) {
	nb, err := b.createBucket(key, true)
	if err != nil {
		return nil, err
	}
	return nb, nil
}

func (b *bucket) DeleteNestedBucket(key []byte) error {
	b.check()
	if !b.t.writable {
		return walletdb.ErrTxNotWritable
	}
	i, ok := b.n.find(key)
	if !ok {
		return walletdb.ErrBucketNotFound
	}
	if b.n.ents[i].sub == nil {
		return walletdb.ErrIncompatibleValue
	}
	if verifrt.FaultHere() {
		return ErrFault
	}
	b.n.removeAt(i)
	return nil
}

func (b *bucket) ForEach(fn func(k, v []byte) error) error {
	b.check()
	// iterate over a snapshot of the keys; the code under check only ever
	// re-puts the key being visited
	keys := make([][]byte, len(b.n.ents))
	for i, e := range b.n.ents {
		keys[i] = e.key
	}
	for _, k := range keys {
		i, ok := b.n.find(k)
		if !ok {
			continue
		}
		e := b.n.ents[i]
		var v []byte
		if e.sub == nil {
			v = cp(e.val)
			if v == nil {
				v = []byte{}
			}
		}
		if err := fn(cp(e.key), v); err != nil {
			return err
		}
	}
	return nil
}

func (b *bucket) Put(key, value []byte) error {
	b.check()
	if !b.t.writable {
		return walletdb.ErrTxNotWritable
	}
	if len(key) == 0 {
		return walletdb.ErrKeyRequired
	}
	i, ok := b.n.find(key)
	if ok && b.n.ents[i].sub != nil {
		return walletdb.ErrIncompatibleValue
	}
	if verifrt.FaultHere() {
		return ErrFault
	}
	if b.t.db.LogWrites {
		b.t.db.Log = append(b.t.db.Log, PutRec{Op: "put", Key: cp(key), Value: cp(value)})
	}
	if ok {
		b.n.ents[i].val = cp(value)
		return nil
	}
	b.n.insertAt(i, entry{key: cp(key), val: cp(value)})
	return nil
}

func (b *bucket) Get(key []byte) []byte {
	b.check()
	i, ok := b.n.find(key)
	if !ok || b.n.ents[i].sub != nil {
		return nil
	}
	v := b.n.ents[i].val
	if len(v) == 0 {
		return nil
	}
	return cp(v)
}

func (b *bucket) Delete(key []byte) error {
	b.check()
	if !b.t.writable {
		return walletdb.ErrTxNotWritable
	}
	i, ok := b.n.find(key)
	if !ok {
		return nil
	}
	if b.n.ents[i].sub != nil {
		return walletdb.ErrIncompatibleValue
	}
	if verifrt.FaultHere() {
		return ErrFault
	}
	b.n.removeAt(i)
	return nil
}

func (b *bucket) ReadCursor() walletdb.ReadCursor { return b.ReadWriteCursor() }

func (b *bucket) ReadWriteCursor() walletdb.ReadWriteCursor {
	b.check()
	return &cursor{b: b, pos: -2}
}

func (b *bucket) Tx() walletdb.ReadWriteTx { return b.t }

func (b *bucket) Sequence() uint64 { return b.n.seq }

func (b *bucket) NextSequence() (uint64, error) {
	if err := b.mutable(); err != nil {
		return 0, err
	}
	b.n.seq++
	return b.n.seq, nil
}

func (b *bucket) SetSequence(v uint64) error {
	if err := b.mutable(); err != nil {
		return err
	}
	b.n.seq = v
	return nil
}

// cursor positions: -2 unpositioned, -1 ran off the front, len ran off the
// end, -3 invalidated by Delete.
type cursor struct {
	b   *bucket
	pos int
	off bool // ran off an end: further stepping is not modelled
}

func (c *cursor) kv() ([]byte, []byte) {
	n := c.b.n
	if c.pos < 0 || c.pos >= len(n.ents) {
		return nil, nil
	}
	e := n.ents[c.pos]
	if e.sub != nil {
		return cp(e.key), nil
	}
	v := cp(e.val)
	if v == nil {
		v = []byte{}
	}
	return cp(e.key), v
}

func (c *cursor) First() ([]byte, []byte) {
	c.b.check()
	c.pos, c.off = 0, false
	if len(c.b.n.ents) == 0 {
		c.off = true
	}
	return c.kv()
}

func (c *cursor) Last() ([]byte, []byte) {
	c.b.check()
	c.pos, c.off = len(c.b.n.ents)-1, false
	if len(c.b.n.ents) == 0 {
		c.off = true
	}
	return c.kv()
}

func (c *cursor) Next() ([]byte, []byte) {
	c.b.check()
	if c.pos == -2 || c.pos == -3 {
		panic("memdb: Next on an unpositioned cursor is not modelled")
	}
	if c.off {
		if c.pos >= len(c.b.n.ents) {
			// bbolt stays on the last element and keeps returning nil
			return nil, nil
		}
		panic("memdb: Next after running off the front is not modelled")
	}
	c.pos++
	if c.pos >= len(c.b.n.ents) {
		c.off = true
	}
	return c.kv()
}

func (c *cursor) Prev() ([]byte, []byte) {
	c.b.check()
	if c.pos == -2 || c.pos == -3 {
		panic("memdb: Prev on an unpositioned cursor is not modelled")
	}
	if c.off {
		if c.pos >= len(c.b.n.ents) && len(c.b.n.ents) > 0 {
			// Seek past the end followed by Prev lands on the last key
			c.pos = len(c.b.n.ents) - 1
			c.off = false
			return c.kv()
		}
		if c.pos < 0 || len(c.b.n.ents) == 0 {
			return nil, nil
		}
	}
	c.pos--
	if c.pos < 0 {
		c.off = true
	}
	return c.kv()
}

func (c *cursor) Seek(seek []byte) ([]byte, []byte) {
	c.b.check()
	i, _ := c.b.n.find(seek)
	c.pos, c.off = i, false
	if i >= len(c.b.n.ents) {
		c.off = true
	}
	return c.kv()
}

func (c *cursor) Delete() error {
	c.b.check()
	if !c.b.t.writable {
		return walletdb.ErrTxNotWritable
	}
	if c.pos < 0 || c.pos >= len(c.b.n.ents) {
		panic("memdb: Delete on an unpositioned cursor is not modelled")
	}
	if c.b.n.ents[c.pos].sub != nil {
		return walletdb.ErrIncompatibleValue
	}
	if verifrt.FaultHere() {
		return ErrFault
	}
	c.b.n.removeAt(c.pos)
	c.pos = -3
	return nil
}

// ---------------------------------------------------------------- dumps

// Dump renders the committed content canonically (for equality checks of
// whole databases). Values are written through put so symbolic bytes stay
// symbolic.
func (d *DB) Dump() [][]byte {
	var out [][]byte
	dumpNode(d.root, nil, &out)
	return out
}

func dumpNode(n *node, prefix []byte, out *[][]byte) {
	for _, e := range n.ents {
		k := append(append(cp(prefix), byte(len(e.key))), e.key...)
		if e.sub != nil {
			*out = append(*out, append(k, 'B'), seqBytes(e.sub.seq))
			dumpNode(e.sub, append(k, '/'), out)
		} else {
			*out = append(*out, append(k, 'V'), cp(e.val))
		}
	}
}

func seqBytes(s uint64) []byte {
	b := make([]byte, 8)
	for i := 0; i < 8; i++ {
		b[7-i] = byte(s >> (8 * uint(i)))
	}
	return b
}

// Snapshot returns a deep copy of the committed state.
func (d *DB) Snapshot() *DB { return &DB{root: d.root.clone()} }

// EqualDumps compares two dumps byte for byte.
func EqualDumps(a, b [][]byte) bool {
	if len(a) != len(b) {
		return false
	}
	eq := true
	for i := range a {
		eq = verifrt.And(eq, verifrt.BytesEq(a[i], b[i]))
	}
	return eq
}

// ---------------------------------------------------------------- Tree API
// A small exported view of the sorted bucket tree, reused by the bbolt model
// of the C11 harness.

type Tree struct{ n *node }

func NewTree() *Tree          { return &Tree{&node{}} }
func (t *Tree) Clone() *Tree  { return &Tree{t.n.clone()} }
func (t *Tree) Len() int      { return len(t.n.ents) }
func (t *Tree) Seq() uint64   { return t.n.seq }
func (t *Tree) SetSeq(s uint64) { t.n.seq = s }

// At returns the i-th entry in key order.
func (t *Tree) At(i int) (key, val []byte, sub *Tree) {
	e := t.n.ents[i]
	if e.sub != nil {
		return e.key, nil, &Tree{e.sub}
	}
	return e.key, e.val, nil
}

// Seek returns the index of the first key >= k and whether it is k itself.
func (t *Tree) Seek(k []byte) (int, bool) { return t.n.find(k) }

func (t *Tree) Put(k, v []byte) {
	i, ok := t.n.find(k)
	if ok {
		t.n.ents[i].val = cp(v)
		return
	}
	t.n.insertAt(i, entry{key: cp(k), val: cp(v)})
}

func (t *Tree) PutBucket(k []byte) *Tree {
	i, _ := t.n.find(k)
	sub := &node{}
	t.n.insertAt(i, entry{key: cp(k), sub: sub})
	return &Tree{sub}
}

func (t *Tree) RemoveAt(i int) { t.n.removeAt(i) }
