package main

import (
	"fmt"

	"github.com/btcsuite/btcd/btcutil/hdkeychain"
	"github.com/btcsuite/btcd/chaincfg"
)

func main() {
	h := uint32(hdkeychain.HardenedKeyStart)
	for i := 0; i < 100000; i++ {
		seed := make([]byte, 32)
		seed[1] = byte(i >> 16)
		seed[2] = byte(i >> 8)
		seed[3] = byte(i)
		seed[31] = 2
		root, err := hdkeychain.NewMaster(seed, &chaincfg.MainNetParams)
		if err != nil {
			continue
		}
		k, err := root.DeriveNonStandard(84 + h)
		if err != nil {
			continue
		}
		if k.IsAffectedByIssue172() {
			// also want the coin-type key to be ordinary, to isolate the case
			c, _ := k.DeriveNonStandard(h)
			c2, _ := k.Derive(h)
			p1, _ := c.ECPubKey()
			p2, _ := c2.ECPubKey()
			fmt.Printf("seed i=%d %x purposeAffected coinAffected=%v deriveDiffers=%v\n", i, seed, c.IsAffectedByIssue172(), string(p1.SerializeCompressed()) != string(p2.SerializeCompressed()))
			break
		}
	}
}
