module verif

go 1.23

require golang.org/x/tools v0.29.0

require (
	golang.org/x/mod v0.22.0 // indirect
	golang.org/x/sync v0.10.0 // indirect
)

replace (
	github.com/btcsuite/btcwallet => /repo
	github.com/btcsuite/btcwallet/wallet/txauthor => /repo/wallet/txauthor
	github.com/btcsuite/btcwallet/wallet/txrules => /repo/wallet/txrules
	github.com/btcsuite/btcwallet/wallet/txsizes => /repo/wallet/txsizes
	github.com/btcsuite/btcwallet/walletdb => /repo/walletdb
	github.com/btcsuite/btcwallet/wtxmgr => /repo/wtxmgr
)
