module verif

go 1.23

require (
	github.com/aead/siphash v1.0.1
	github.com/btcsuite/btcd v0.24.3-0.20250318170759-4f4ea81776d6
	github.com/btcsuite/btcd/btcec/v2 v2.3.4
	github.com/btcsuite/btcd/btcutil v1.1.5
	github.com/btcsuite/btcd/btcutil/psbt v1.1.8
	github.com/btcsuite/btcd/chaincfg/chainhash v1.1.0
	github.com/btcsuite/btclog v0.0.0-20170628155309-84c8d2346e9f
	github.com/btcsuite/btcwallet v0.0.0
	github.com/btcsuite/btcwallet/wallet/txauthor v1.3.5
	github.com/btcsuite/btcwallet/wallet/txrules v1.2.2
	github.com/btcsuite/btcwallet/wallet/txsizes v1.2.5
	github.com/btcsuite/btcwallet/walletdb v1.5.1
	github.com/btcsuite/btcwallet/wtxmgr v1.5.6
	github.com/btcsuite/go-socks v0.0.0-20170105172521-4720035b7bfd
	github.com/btcsuite/websocket v0.0.0-20150119174127-31079b680792
	github.com/davecgh/go-spew v1.1.1
	github.com/decred/dcrd/crypto/blake256 v1.0.1
	github.com/decred/dcrd/dcrec/secp256k1/v4 v4.3.0
	github.com/decred/dcrd/lru v1.1.2
	github.com/golang/protobuf v1.5.3
	github.com/google/go-cmp v0.6.0
	github.com/jessevdk/go-flags v1.4.0
	github.com/jrick/logrotate v1.0.0
	github.com/kkdai/bstream v1.0.0
	github.com/kr/pretty v0.3.0
	github.com/lightninglabs/gozmq v0.0.0-20191113021534-d20a764486bf
	github.com/lightninglabs/neutrino v0.16.0
	github.com/lightninglabs/neutrino/cache v1.1.2
	github.com/lightningnetwork/lnd/clock v1.0.1
	github.com/lightningnetwork/lnd/queue v1.0.1
	github.com/lightningnetwork/lnd/ticker v1.0.0
	github.com/lightningnetwork/lnd/tlv v1.0.2
	github.com/pmezard/go-difflib v1.0.0
	github.com/rogpeppe/go-internal v1.12.0
	github.com/stretchr/objx v0.5.2
	github.com/stretchr/testify v1.9.0
	go.etcd.io/bbolt v1.3.11
	golang.org/x/crypto v0.22.0
	golang.org/x/net v0.34.0
	golang.org/x/sync v0.10.0
	golang.org/x/sys v0.29.0
	golang.org/x/term v0.19.0
	golang.org/x/text v0.14.0
	golang.org/x/tools v0.29.0
	google.golang.org/genproto/googleapis/rpc v0.0.0-20231030173426-d783a09b4405
	google.golang.org/grpc v1.59.0
	google.golang.org/protobuf v1.33.0
	gopkg.in/check.v1 v1.0.0-20201130134442-10cb98267c6c
	gopkg.in/yaml.v3 v3.0.1
)

require golang.org/x/mod v0.22.0 // indirect

replace (
	github.com/btcsuite/btcwallet => /repo
	github.com/btcsuite/btcwallet/wallet/txauthor => /repo/wallet/txauthor
	github.com/btcsuite/btcwallet/wallet/txrules => /repo/wallet/txrules
	github.com/btcsuite/btcwallet/wallet/txsizes => /repo/wallet/txsizes
	github.com/btcsuite/btcwallet/walletdb => /repo/walletdb
	github.com/btcsuite/btcwallet/wtxmgr => /repo/wtxmgr
	golang.org/x/crypto => golang.org/x/crypto v0.22.0
	golang.org/x/net => golang.org/x/net v0.24.0
	golang.org/x/sys => golang.org/x/sys v0.19.0
	golang.org/x/term => golang.org/x/term v0.19.0
	golang.org/x/text => golang.org/x/text v0.14.0
)
