package selftest

import (
	"bytes"
	"encoding/binary"
	"errors"
	"fmt"
	"sort"
	"unicode"

	"verif/verifrt"
)

var errSentinel = errors.New("sentinel")

type pair struct {
	a, b uint32
}

// Basic exercises symbolic arithmetic, branching, maps, slices, errors.
func Basic() {
	x := verifrt.U32("x")
	y := verifrt.U32("y")
	verifrt.Assume(x < 1000 && y < 1000)
	s := x + y
	verifrt.Assert(s < 2000, "sum-bounded")
	if x > y {
		verifrt.Reach("x>y")
		verifrt.Assert(x-y > 0, "diff-pos")
	} else {
		verifrt.Reach("x<=y")
		verifrt.Assert(y-x < 1000, "diff-small")
	}
	// byte round trip
	var buf [8]byte
	v := verifrt.U64("v")
	binary.BigEndian.PutUint64(buf[:], v)
	w := binary.BigEndian.Uint64(buf[:])
	verifrt.Assert(v == w, "be-roundtrip")
	binary.LittleEndian.PutUint32(buf[:4], x)
	verifrt.Assert(binary.LittleEndian.Uint32(buf[:4]) == x, "le-roundtrip")
	// map with concrete keys, symbolic values
	m := map[string]uint32{"a": x, "b": y}
	verifrt.Assert(m["a"]+m["b"] == s, "map-sum")
	// struct compare
	p, q := pair{x, y}, pair{x, y}
	verifrt.Assert(p == q, "struct-eq")
	// errors
	err := fmt.Errorf("wrap: %w", errSentinel)
	verifrt.Assert(errors.Is(err, errSentinel), "errors-is")
	// sort with symbolic keys
	xs := []uint32{x, y, 500}
	sort.Slice(xs, func(i, j int) bool { return xs[i] < xs[j] })
	verifrt.Assert(xs[0] <= xs[1] && xs[1] <= xs[2], "sorted")
	verifrt.Reach("end")
}

// Index: a table as long as the index type is wide (a [256]T indexed by a
// byte: never out of range), a shorter table (out of range possible and
// explored as a panic), a negative signed index.
func Index() {
	var tab [256]uint8
	tab[' '], tab['\n'] = 1, 1
	c := verifrt.U8("c")
	verifrt.Assume(c == ' ' || c == 'x')
	if tab[c] == 1 {
		verifrt.Assert(c == ' ', "table-hit")
		verifrt.Reach("space")
	} else {
		verifrt.Assert(c == 'x', "table-miss")
		verifrt.Reach("other")
	}
	short := []uint8{7, 8, 9}
	k := verifrt.U8("k")
	verifrt.Assume(k < 4)
	func() {
		defer func() {
			if recover() != nil {
				verifrt.Assert(k == 3, "panic-only-out-of-range")
				verifrt.Reach("index-panic")
			}
		}()
		verifrt.Assert(short[k] == 7+k, "short-table")
	}()
	j := int8(verifrt.U8("j"))
	verifrt.Assume(j == -1 || j == 1)
	func() {
		defer func() {
			if recover() != nil {
				verifrt.Assert(j == -1, "panic-only-negative")
				verifrt.Reach("negative-index-panic")
			}
		}()
		verifrt.Assert(short[j] == 8, "signed-index")
	}()
}

// Buggy has a violation the solver must find: x*2 == 14 && x > 3.
func Buggy() {
	x := verifrt.U32("x")
	if x*2 == 14 {
		verifrt.Assert(x <= 3, "bug")
	}
}

// Unicode: package-level tables of a dependency (unicode.White_Space) are
// initialised before use; bytes.TrimSpace on a non-ASCII byte takes that path.
func Unicode() {
	verifrt.Assert(unicode.IsSpace(rune(0x2003)) && !unicode.IsSpace('x') && unicode.IsSpace(rune(0x85)), "unicode-isspace")
	b := []byte{0x80, ' '}
	verifrt.Assert(len(bytes.TrimSpace(b)) == 1, "trimspace-non-ascii")
	c := verifrt.U8("c")
	verifrt.Assume(c == 0x80 || c == ' ')
	t := bytes.TrimSpace([]byte{c})
	verifrt.Assert((len(t) == 0) == (c == ' '), "trimspace-symbolic")
}

type wrapAlias struct {
	inner alias
	tags  []byte
}

type alias struct {
	h [4]byte
	n int
}

// Alias: append writes in place while the capacity suffices, so pointers and
// sub-slices taken earlier observe the new elements; once the capacity is
// exceeded a new backing array is used and they do not. (The shape of
// wtxmgr's rangeBlockTransactions reusing its details slice and a caller
// keeping &details[i].)
func Alias() {
	s := make([]alias, 0, 2)
	s = append(s, alias{n: 1})
	p := &s[0]
	keep := s
	s = s[:0]
	s = append(s, alias{n: 2})
	verifrt.Assert(p.n == 2, "append-within-capacity-writes-in-place")
	// ... also seen through a pointer to a FIELD of the element, and of a
	// nested struct inside it
	w := make([]wrapAlias, 0, 2)
	w = append(w, wrapAlias{inner: alias{h: [4]byte{1}, n: 1}})
	ph, pn, pi := &w[0].inner.h, &w[0].inner.n, &w[0].inner
	w = w[:0]
	nv := &wrapAlias{inner: alias{h: [4]byte{2}, n: 2}}
	w = append(w, *nv)
	verifrt.Assert(ph[0] == 2 && *pn == 2 && pi.n == 2, "field-pointers-see-the-element-overwritten-in-place")
	verifrt.Assert(keep[0].n == 2, "sub-slice-shares-backing-array")
	s = append(s, alias{n: 3})
	s = append(s, alias{n: 4}) // exceeds the capacity
	s[0].n = 9
	verifrt.Assert(p.n == 2, "append-beyond-capacity-copies")
	// the same through a loop that reuses the slice per round
	var ptrs []*alias
	buf := make([]alias, 0, 4)
	for round := 0; round < 3; round++ {
		buf = buf[:0]
		buf = append(buf, alias{n: 10 + round})
		ptrs = append(ptrs, &buf[0])
	}
	verifrt.Assert(ptrs[0].n == 12 && ptrs[1].n == 12 && ptrs[2].n == 12, "reused-buffer-aliases-earlier-rounds")
	// copying first (what a careful caller does) keeps the values apart
	var kept [][]alias
	for round := 0; round < 2; round++ {
		buf = buf[:0]
		buf = append(buf, alias{n: 20 + round})
		c := make([]alias, len(buf))
		copy(c, buf)
		kept = append(kept, c)
	}
	verifrt.Assert(kept[0][0].n == 20 && kept[1][0].n == 21, "copied-rounds-stay-apart")
	verifrt.Reach("end")
}

type binKind uint8

type binRow struct {
	A binKind
	B binKind
	N uint16
}

// BinStruct: encoding/binary.Read into a struct of fixed-size fields (named
// scalar types included) fills the fields in declaration order.
func BinStruct() {
	raw := []byte{verifrt.U8("a"), verifrt.U8("b"), 0x34, 0x12}
	var row binRow
	err := binary.Read(bytes.NewReader(raw), binary.LittleEndian, &row)
	verifrt.Assert(err == nil, "bin-struct-read")
	verifrt.Assert(row.A == binKind(raw[0]) && row.B == binKind(raw[1]) && row.N == 0x1234, "bin-struct-fields-in-order")
	var short binRow
	err = binary.Read(bytes.NewReader(raw[:1]), binary.LittleEndian, &short)
	verifrt.Assert(err != nil, "bin-struct-short-input")
	verifrt.Reach("end")
}
