package selftest

import (
	"bytes"
	"encoding/binary"
	"errors"
	"fmt"
	"sort"
	"unicode"

	"verif/verifrt"
)

var errSentinel = errors.New("sentinel")

type pair struct {
	a, b uint32
}

// Basic exercises symbolic arithmetic, branching, maps, slices, errors.
func Basic() {
	x := verifrt.U32("x")
	y := verifrt.U32("y")
	verifrt.Assume(x < 1000 && y < 1000)
	s := x + y
	verifrt.Assert(s < 2000, "sum-bounded")
	if x > y {
		verifrt.Reach("x>y")
		verifrt.Assert(x-y > 0, "diff-pos")
	} else {
		verifrt.Reach("x<=y")
		verifrt.Assert(y-x < 1000, "diff-small")
	}
	// byte round trip
	var buf [8]byte
	v := verifrt.U64("v")
	binary.BigEndian.PutUint64(buf[:], v)
	w := binary.BigEndian.Uint64(buf[:])
	verifrt.Assert(v == w, "be-roundtrip")
	binary.LittleEndian.PutUint32(buf[:4], x)
	verifrt.Assert(binary.LittleEndian.Uint32(buf[:4]) == x, "le-roundtrip")
	// map with concrete keys, symbolic values
	m := map[string]uint32{"a": x, "b": y}
	verifrt.Assert(m["a"]+m["b"] == s, "map-sum")
	// struct compare
	p, q := pair{x, y}, pair{x, y}
	verifrt.Assert(p == q, "struct-eq")
	// errors
	err := fmt.Errorf("wrap: %w", errSentinel)
	verifrt.Assert(errors.Is(err, errSentinel), "errors-is")
	// sort with symbolic keys
	xs := []uint32{x, y, 500}
	sort.Slice(xs, func(i, j int) bool { return xs[i] < xs[j] })
	verifrt.Assert(xs[0] <= xs[1] && xs[1] <= xs[2], "sorted")
	verifrt.Reach("end")
}

// Index: a table as long as the index type is wide (a [256]T indexed by a
// byte: never out of range), a shorter table (out of range possible and
// explored as a panic), a negative signed index.
func Index() {
	var tab [256]uint8
	tab[' '], tab['\n'] = 1, 1
	c := verifrt.U8("c")
	verifrt.Assume(c == ' ' || c == 'x')
	if tab[c] == 1 {
		verifrt.Assert(c == ' ', "table-hit")
		verifrt.Reach("space")
	} else {
		verifrt.Assert(c == 'x', "table-miss")
		verifrt.Reach("other")
	}
	short := []uint8{7, 8, 9}
	k := verifrt.U8("k")
	verifrt.Assume(k < 4)
	func() {
		defer func() {
			if recover() != nil {
				verifrt.Assert(k == 3, "panic-only-out-of-range")
				verifrt.Reach("index-panic")
			}
		}()
		verifrt.Assert(short[k] == 7+k, "short-table")
	}()
	j := int8(verifrt.U8("j"))
	verifrt.Assume(j == -1 || j == 1)
	func() {
		defer func() {
			if recover() != nil {
				verifrt.Assert(j == -1, "panic-only-negative")
				verifrt.Reach("negative-index-panic")
			}
		}()
		verifrt.Assert(short[j] == 8, "signed-index")
	}()
}

// Buggy has a violation the solver must find: x*2 == 14 && x > 3.
func Buggy() {
	x := verifrt.U32("x")
	if x*2 == 14 {
		verifrt.Assert(x <= 3, "bug")
	}
}

// Unicode: package-level tables of a dependency (unicode.White_Space) are
// initialised before use; bytes.TrimSpace on a non-ASCII byte takes that path.
func Unicode() {
	verifrt.Assert(unicode.IsSpace(rune(0x2003)) && !unicode.IsSpace('x') && unicode.IsSpace(rune(0x85)), "unicode-isspace")
	b := []byte{0x80, ' '}
	verifrt.Assert(len(bytes.TrimSpace(b)) == 1, "trimspace-non-ascii")
	c := verifrt.U8("c")
	verifrt.Assume(c == 0x80 || c == ' ')
	t := bytes.TrimSpace([]byte{c})
	verifrt.Assert((len(t) == 0) == (c == ' '), "trimspace-symbolic")
}
