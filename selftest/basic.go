package selftest

import (
	"encoding/binary"
	"errors"
	"fmt"
	"sort"

	"verif/verifrt"
)

var errSentinel = errors.New("sentinel")

type pair struct {
	a, b uint32
}

// Basic exercises symbolic arithmetic, branching, maps, slices, errors.
func Basic() {
	x := verifrt.U32("x")
	y := verifrt.U32("y")
	verifrt.Assume(x < 1000 && y < 1000)
	s := x + y
	verifrt.Assert(s < 2000, "sum-bounded")
	if x > y {
		verifrt.Reach("x>y")
		verifrt.Assert(x-y > 0, "diff-pos")
	} else {
		verifrt.Reach("x<=y")
		verifrt.Assert(y-x < 1000, "diff-small")
	}
	// byte round trip
	var buf [8]byte
	v := verifrt.U64("v")
	binary.BigEndian.PutUint64(buf[:], v)
	w := binary.BigEndian.Uint64(buf[:])
	verifrt.Assert(v == w, "be-roundtrip")
	binary.LittleEndian.PutUint32(buf[:4], x)
	verifrt.Assert(binary.LittleEndian.Uint32(buf[:4]) == x, "le-roundtrip")
	// map with concrete keys, symbolic values
	m := map[string]uint32{"a": x, "b": y}
	verifrt.Assert(m["a"]+m["b"] == s, "map-sum")
	// struct compare
	p, q := pair{x, y}, pair{x, y}
	verifrt.Assert(p == q, "struct-eq")
	// errors
	err := fmt.Errorf("wrap: %w", errSentinel)
	verifrt.Assert(errors.Is(err, errSentinel), "errors-is")
	// sort with symbolic keys
	xs := []uint32{x, y, 500}
	sort.Slice(xs, func(i, j int) bool { return xs[i] < xs[j] })
	verifrt.Assert(xs[0] <= xs[1] && xs[1] <= xs[2], "sorted")
	verifrt.Reach("end")
}

// Buggy has a violation the solver must find: x*2 == 14 && x > 3.
func Buggy() {
	x := verifrt.U32("x")
	if x*2 == 14 {
		verifrt.Assert(x <= 3, "bug")
	}
}
