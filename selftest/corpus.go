package selftest

import (
	"bytes"
	"encoding/binary"
	"errors"
	"fmt"
	"sort"
	"strings"

	"verif/verifrt"
)

// The differential corpus: each function computes a digest string from
// concrete inputs; Corpus asserts the digests the native build produced
// (recorded in corpusWant by `go test ./selftest -run TestCorpusGolden`,
// checked natively by TestCorpus) – the executor must compute the same.

type shape interface{ area() int }
type rect struct{ w, h int }
type sq struct{ s int }

func (r rect) area() int { return r.w * r.h }
func (s *sq) area() int  { return s.s * s.s }

type node struct {
	v    int
	next *node
}

type pt struct{ x, y int8 }

func cWrap() string {
	var a uint8 = 250
	a += 10
	var b int8 = 127
	b++
	var c uint32 = 1 << 31
	c <<= 1
	var d int64 = -7
	var e uint16 = 0xffff
	e *= e
	one := uint64(1)
	x := one<<63 + one<<63
	return fmt.Sprint(a, b, c, d/2, d%2, d>>1, uint64(d)>>60, e, x, int32(-8)>>1, ^uint8(5), -(-128))
}

func cShift(n uint) string {
	var a uint8 = 0x81
	var b int8 = -127
	return fmt.Sprint(a<<n, a>>n, b<<n, b>>n, uint32(1)<<(n+30), int64(-1)>>(n+62), uint64(1)<<(n+63))
}

func cSlices() string {
	a := []int{1, 2, 3, 4, 5}
	b := a[1:3]
	b = append(b, 99) // overwrites a[3]
	c := append(b[:1:1], 7)
	c[0] = 42 // does not alias a
	d := make([]pt, 2, 4)
	d[0] = pt{1, 2}
	e := append(d, pt{3, 4})
	e[0].x = 9 // aliases d[0]
	f := append(e, pt{5, 6}, pt{7, 8}) // reallocates
	f[1].y = 5
	var arr [3]pt
	arr2 := arr
	arr2[1].x = 3
	copy(a, a[2:])
	return fmt.Sprint(a, b, c, d, e[:3], f, arr, arr2, len(f), cap(b))
}

func cMaps() string {
	m := map[pt]int{}
	m[pt{1, 2}] = 3
	m[pt{1, 2}]++
	m[pt{2, 1}] = 7
	delete(m, pt{2, 1})
	_, ok := m[pt{2, 1}]
	n := map[string][]int{}
	n["a"] = append(n["a"], 1, 2)
	n["b"] = nil
	keys := make([]string, 0)
	for k := range n {
		keys = append(keys, k)
	}
	sort.Strings(keys)
	var nilmap map[int]int
	mm := map[[2]byte]string{{1, 2}: "x"}
	type key struct {
		a string
		b interface{}
	}
	im := map[key]int{{"a", 1}: 1, {"a", "1"}: 2}
	return fmt.Sprint(m[pt{1, 2}], len(m), ok, keys, n["a"], nilmap[3], len(nilmap), mm[[2]byte{1, 2}], im[key{"a", 1}], im[key{"a", "1"}], im[key{"b", 1}])
}

func cDefer() (s string) {
	defer func() {
		if r := recover(); r != nil {
			s += fmt.Sprint("recovered:", r)
		}
	}()
	defer func() { s += "d2;" }()
	for i := 0; i < 3; i++ {
		defer func(k int) { s += fmt.Sprint("loop", k, ";") }(i)
	}
	var p *node
	s = "start;"
	_ = p.v
	return "unreachable"
}

func cDefer2() (n int, err error) {
	defer func() {
		if e := recover(); e != nil {
			err = errors.New("boom")
			n = -1
		}
	}()
	a := []int{1}
	idx := 5
	return a[idx], nil
}

func cIface() string {
	shapes := []shape{rect{2, 3}, &sq{4}}
	total := 0
	desc := ""
	for _, s := range shapes {
		total += s.area()
		switch v := s.(type) {
		case rect:
			desc += fmt.Sprint("rect", v.w)
		case *sq:
			desc += fmt.Sprint("sq", v.s)
		}
	}
	var e error
	var s2 shape
	_, isRect := s2.(rect)
	var any1, any2 interface{} = pt{1, 2}, pt{1, 2}
	return fmt.Sprint(total, desc, e == nil, isRect, any1 == any2, any1 != interface{}(pt{2, 1}))
}

func cClosures() string {
	var fs []func() int
	for i := 0; i < 3; i++ {
		fs = append(fs, func() int { i *= 2; return i })
	}
	acc := 0
	add := func(d int) { acc += d }
	for _, f := range fs {
		add(f())
		add(f())
	}
	counter := func() func() int {
		c := 0
		return func() int { c++; return c }
	}()
	counter()
	return fmt.Sprint(acc, counter())
}

func cList() string {
	var head *node
	for i := 0; i < 5; i++ {
		head = &node{i, head}
	}
	// reverse
	var prev *node
	for cur := head; cur != nil; {
		nx := cur.next
		cur.next = prev
		prev, cur = cur, nx
	}
	out := ""
	for n := prev; n != nil; n = n.next {
		out += fmt.Sprint(n.v)
	}
	return out
}

func cBytes() string {
	var buf bytes.Buffer
	buf.WriteString("hello")
	buf.WriteByte(' ')
	buf.Write([]byte{0x77, 0x6f})
	var b8 [8]byte
	binary.LittleEndian.PutUint64(b8[:], 0x0102030405060708)
	buf.Write(b8[:3])
	r := bytes.NewReader(buf.Bytes())
	var hdr [5]byte
	r.Read(hdr[:])
	rest := make([]byte, 20)
	n, _ := r.Read(rest)
	return fmt.Sprint(string(hdr[:]), n, rest[:n], bytes.Compare([]byte("ab"), []byte("b")), bytes.Equal(nil, []byte{}),
		bytes.HasPrefix(buf.Bytes(), []byte("hel")), binary.BigEndian.Uint16(b8[:]), strings.Repeat("ab", 3))
}

func cStrings() string {
	s := "héllo, wörld"
	n := 0
	for i, r := range s {
		n += i * int(r%7)
	}
	b := []byte(s)
	rs := []rune(s)
	return fmt.Sprint(len(s), n, len(b), len(rs), s[1:3] == "\xc3\xa9", string(rs[1]), strings.ToUpper(s[:1]), s < "i", string(rune(65)))
}

type stack[T any] struct{ items []T }

func (s *stack[T]) push(v T) { s.items = append(s.items, v) }
func (s *stack[T]) pop() (T, bool) {
	var zero T
	if len(s.items) == 0 {
		return zero, false
	}
	v := s.items[len(s.items)-1]
	s.items = s.items[:len(s.items)-1]
	return v, true
}

func mapKeys[K comparable, V any](m map[K]V) int {
	n := 0
	for range m {
		n++
	}
	return n
}

func cGenerics() string {
	var s stack[pt]
	s.push(pt{1, 1})
	s.push(pt{2, 2})
	v, _ := s.pop()
	var t stack[string]
	_, ok := t.pop()
	return fmt.Sprint(v, len(s.items), ok, mapKeys(map[int]bool{1: true, 2: false}), min(3, 1, 2), max(2.5, 1.0))
}

func cChan() string {
	ch := make(chan int, 3)
	done := make(chan struct{})
	res := 0
	go func() {
		for v := range ch {
			res += v
		}
		close(done)
	}()
	for i := 1; i <= 5; i++ {
		ch <- i
	}
	close(ch)
	<-done
	sel := ""
	c2 := make(chan string, 1)
	select {
	case m := <-c2:
		sel = m
	default:
		sel = "empty"
	}
	c2 <- "x"
	select {
	case m := <-c2:
		sel += m
	default:
		sel += "empty"
	}
	_, ok := <-ch
	return fmt.Sprint(res, sel, ok)
}

type errT struct{ code int }

func (e errT) Error() string { return fmt.Sprint("errT", e.code) }

func cErrors() string {
	base := errT{7}
	w1 := fmt.Errorf("l1: %w", base)
	w2 := fmt.Errorf("l2: %w", w1)
	var target errT
	as := errors.As(w2, &target)
	return fmt.Sprint(errors.Is(w2, base), errors.Is(w2, errT{8}), as, target.code, errors.Unwrap(w2) == w1, w2)
}

func cStructs() string {
	type inner struct {
		a [2]int
		p *int
	}
	type outer struct {
		in inner
		s  []int
	}
	x := 5
	o1 := outer{in: inner{a: [2]int{1, 2}, p: &x}, s: []int{1}}
	o2 := o1 // copies array, shares pointer and slice
	o2.in.a[0] = 9
	*o2.in.p = 6
	o2.s[0] = 8
	arr := [2]inner{o1.in, o2.in}
	arr2 := arr
	arr2[0].a[1] = 77
	pp := &arr[1]
	pp.a[1] = 55
	return fmt.Sprint(o1.in.a, o2.in.a, x, o1.s, arr[0].a, arr2[0].a, arr[1].a, o1.in == inner{a: [2]int{1, 2}, p: &x})
}

func cSort() string {
	xs := []pt{{3, 1}, {1, 2}, {2, 0}, {1, 1}}
	sort.Slice(xs, func(i, j int) bool {
		if xs[i].x != xs[j].x {
			return xs[i].x < xs[j].x
		}
		return xs[i].y < xs[j].y
	})
	ys := []int{5, 2, 9, 1}
	sort.Sort(sort.Reverse(sort.IntSlice(ys)))
	return fmt.Sprint(xs, ys, sort.SearchInts([]int{1, 3, 5}, 4))
}

func cLabels() string {
	out := ""
outer:
	for i := 0; i < 4; i++ {
		for j := 0; j < 4; j++ {
			switch {
			case j == 2:
				continue outer
			case i == 3:
				break outer
			}
			out += fmt.Sprint(i, j, ",")
		}
	}
	k := 0
	for k < 3 {
		k++
		if k == 2 {
			goto end
		}
	}
end:
	return out + fmt.Sprint(k)
}

func cConv() string {
	f := 3.99
	neg := -3.99
	var big int64 = 1<<40 + 5
	return fmt.Sprint(int(f), int(neg), uint8(big), int16(big>>20), float32(big), uint32(int8(neg)), int64(uint8(200)), rune('a'+1), string(rune(0x4e16)))
}

func corpusAll() []string {
	n, err := cDefer2()
	return []string{cWrap(), cShift(1), cShift(7), cShift(9), cSlices(), cMaps(), cDefer(), fmt.Sprint(n, err), cIface(), cClosures(),
		cList(), cBytes(), cStrings(), cGenerics(), cChan(), cErrors(), cStructs(), cSort(), cLabels(), cConv()}
}

// Corpus: the executor must compute what the native build recorded.
func Corpus() {
	got := corpusAll()
	verifrt.Assert(len(got) == len(corpusWant), "corpus-length")
	for i := range got {
		if i < len(corpusWant) && got[i] != corpusWant[i] {
			println("corpus mismatch", i, "\n  got ", got[i], "\n  want", corpusWant[i])
			verifrt.Assert(false, "corpus-"+fmt.Sprint(i))
		}
	}
	verifrt.Reach("corpus-end")
}
