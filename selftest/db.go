package selftest

import (
	"github.com/btcsuite/btcwallet/walletdb"

	"verif/memdb"
	"verif/verifrt"
)

// DB exercises memdb under the executor.
func DB() {
	db := memdb.New()
	ns := []byte("ns")
	err := walletdb.Update(db, func(tx walletdb.ReadWriteTx) error {
		b, err := tx.CreateTopLevelBucket(ns)
		if err != nil {
			return err
		}
		if err := b.Put([]byte("k1"), []byte{1, 2, 3, 4}); err != nil {
			return err
		}
		_, err = b.CreateBucket([]byte("sub"))
		return err
	})
	verifrt.Assert(err == nil, "update-ok")
	err = walletdb.View(db, func(tx walletdb.ReadTx) error {
		b := tx.ReadBucket(ns)
		verifrt.Assert(b != nil, "bucket-exists")
		v := b.Get([]byte("k1"))
		verifrt.Assert(len(v) == 4 && v[3] == 4, "get")
		verifrt.Assert(b.NestedReadBucket([]byte("sub")) != nil, "nested")
		verifrt.Assert(b.NestedReadBucket([]byte("nope")) == nil, "nested-missing-nil")
		return nil
	})
	verifrt.Assert(err == nil, "view-ok")
	verifrt.Reach("end")
}
