#!/usr/bin/env python3
"""Regenerates MANIFEST.json from the table below (kept next to the registry in symgo/registry.go)."""
import json

BASE = "for m in . ./wallet/txauthor ./wallet/txrules ./wallet/txsizes ./walletdb ./wtxmgr; do (cd /repo/$m && go test -mod=mod -json -vet=off -count=1 -timeout 25m ./...); done"

claimed = {
 "C14": dict(
   text="Bounded exhaustive symbolic execution of the real DependencySort/makeGraph/graphRoots SSA: every spend DAG on <=3 (thorough: 4) transactions with <=2 inputs each (incl. multi-edges, conflicting siblings, external inputs) under every iteration order of both map ranges; asserts permutation + parents-first. Shapes and orders are enumerated (structural forks); no data is symbolic here, so the solver's part is only path feasibility.",
   note="Bound: N<=3 quick, N<=4 thorough, <=2 inputs per tx. Trusted: symgo's Go semantics (selftest corpus + native witness replay), SHA-256 stub (real hash on concrete input).",
   technique="symbolic execution of Go SSA (symgo) with exhaustive fork enumeration over graph shapes and map orders",
   design="5 C14"),
 "C01": dict(
   text="Symbolic execution of the real wtxmgr.Store code (InsertTx, AddCredit, Rollback, RemoveUnminedTx, Balance, UnspentOutputs and the db.go helpers, wire (de)serialisation) over an in-memory walletdb model, for every chain-consistent history up to the bound; after every event the SMT solver decides Balance == ledger sum for all output amounts, all minConf>=0, all syncHeight>=tip and all coinbase maturities at once, and UnspentOutputs is compared element-wise.",
   note="Bounded histories (see evidence.bounds); memdb stands for bbolt+bdb; tokenised SHA-256 for tx hashes; counterexamples are replayed natively against the real build before being reported.",
   technique="SSA symbolic execution + SMT (z3) bounded model checking with a ledger-model oracle",
   design="5 C01"),
 "C02": dict(
   text="Same symbolic execution of the real store code as C01. (a) a ledger model that encodes the statement's disconnect/confirm rules is compared with TxDetails, the unmined set, balance and UTXO set after every event; (b) at the end of every history a second store is built directly from the final facts (confirmed transactions block by block, then unconfirmed ones) and both stores must report the same balance (SMT-decided for all amounts/minConf/syncHeight), spendable outputs and details.",
   note="Bounded histories over fixed small universes (evidence.bounds). memdb for bbolt; tokenised tx hashes.",
   technique="SSA symbolic execution + SMT bounded model checking, two-execution comparison against direct reconstruction",
   design="5 C02"),
 "C13": dict(
   text="After every event of every bounded history: TxDetails and UniqueTxDetails for every transaction and every candidate block, UnminedTxHashes, UnminedTxs order, and RangeTransactions over SYMBOLIC begin/end (both directions, -1) are compared with the ledger: each known tx exactly once at its current status, credits with amount/change/spent flag, debits with amounts, removed txs absent. The solver decides the range boundary cases.",
   note="Bounded histories; memdb; tokenised hashes. Labels and PreviousPkScripts not asserted.",
   technique="SSA symbolic execution + SMT bounded model checking with ledger oracle",
   design="5 C13"),
 "C12": dict(
   text="Symbolic execution of LockOutput/UnlockOutput/DeleteExpiredLockedOutputs/ListLockedOutputs/isLockedOutput together with Balance/UnspentOutputs/OutputsToWatch/insertMinedTx/Rollback under a symbolic non-decreasing clock (seconds and nanoseconds): the solver sits on the expiry instant. A lease model (id, persisted expiry) is the oracle after every event; two ids, four durations, restart included.",
   note="Bounded histories (2 events quick, 3 thorough). Expiry = persisted whole seconds. Clock constant within one operation.",
   technique="SSA symbolic execution + SMT bounded model checking, symbolic clock",
   design="5 C12"),
 "C10": dict(
   text="Fault injection with a SYMBOLIC fault position: in every store operation from every state reached by the bounded histories, the k-th mutating database call fails (k decided by the solver per path). Asserted: error reported or database equal to a fault-free twin; after rollback database dump and all observations equal the pre-operation ones; retry gives the fault-free result. Transaction-store operations and ten address-manager operations.",
   note="memdb write-failure model; single fault per operation. Store operations from bounded histories; ten address-manager operations from two pre-states. Found and fixed a swallowed write error in waddrmgr (known_findings.json).",
   technique="SSA symbolic execution + SMT, symbolic fault position, twin-execution comparison",
   design="5 C10"),
 "C19": dict(
   text="Symbolic execution of the real migration.Upgrade/upgrade/VersionsToApply/GetLatestVersion (sort.Slice with the real less) over a harness manager whose version table has SYMBOLIC uint32 numbers in any order (length <=3 quick, 4 thorough), nil migrations, a migration failing at a symbolic number, symbolic stored version and optional SetVersion failure: the solver decides, for all numbers at once, that exactly the pending migrations run once in ascending order, the latest version is recorded, failure leaves the version, and a newer stored version is refused untouched. Second part: the real wtxmgr.MigrationManager/Open over memdb with symbolic stored version and a write fault at a symbolic position inside the upgrade transaction.",
   note="Table length <=4. waddrmgr's manager is not run with symbolic versions.",
   technique="SSA symbolic execution + SMT bounded model checking over symbolic version numbers",
   design="5 C19"),
 "C07": dict(
   text="Symbolic execution of NewUnsignedTransaction, EstimateVirtualSize, FeeForSerializeSize, IsDustOutput/mempool dust code, txscript classifiers and wire's size code with SYMBOLIC fee rate, coin amounts, output amounts and signature/witness lengths (length-only byte slices): the solver decides value conservation, fee >= rate x real signed vsize, fee <= rate x worst-case estimate + dust threshold, no zero/dust change, and insufficient-funds only when the coins cannot cover outputs + required fee. Output counts 0,1,2,251,252,253 (thorough 254,300); all 4 coin kinds, 4 change kinds.",
   note="Found and fixed two defects (see known_findings.json). Arithmetic kernels (rate*size/1000, value*1000/threshold) are decided in an integer encoding justified per query by interval analysis; signer sizes are assumptions; signing is not run.",
   technique="SSA symbolic execution + SMT (bit-vector and interval-justified integer encoding), replay of counterexamples",
   design="5 C07"),
 "C17": dict(
   text="Symbolic execution of snacl's CryptoKey.Encrypt/Decrypt, SecretKey.Marshal/Unmarshal/DeriveKey/NewSecretKey, GenerateCryptoKey with symbolic key, plaintext, nonce source, passphrase, parameters, tamper position and mask, truncation length: round trip; any other key, any one-byte alteration anywhere, any truncation fails with an error and nil data; nonce read completely and independently per encryption; short random read fails; parameters round-trip and every other length is malformed; a derived key accepts exactly its passphrase and compares the whole digest.",
   note="Relative to ideal-AEAD / ideal-KDF / collision-free-hash stubs (what is decided is snacl's use of the primitives). Plaintext <=4 bytes, passphrase <=3 bytes.",
   technique="SSA symbolic execution + SMT with ideal-crypto stubs, symbolic tamper position",
   design="5 C17"),
 "C18": dict(
   text="Exhaustive schedule exploration of the real ConcurrentQueue (NewConcurrentQueue/Start/ChanIn/ChanOut/Stop) under the executor's cooperative scheduler: every interleaving of producer, worker and consumer and every ready-case pick, for k<=3 (thorough 4) symbolic items and buffer sizes 0..1 (thorough 2), slow and concurrent consumer; plus the worker started from EVERY internal state (overflow list and output-buffer occupancy within bounds) followed by sends/receives - asserting FIFO delivery without loss or duplication, a producer that never blocks on the consumer (deadlock detection), and worker termination after Stop.",
   note="Schedules are enumerated (structural forks). Bounds on items/buffer/list. Data-race freedom assumed. Native replay cannot force a schedule: schedule-dependent counterexamples are confirmed natively only if they reproduce under the Go scheduler.",
   technique="SSA symbolic execution with exhaustive interleaving exploration (bounded model checking of schedules)",
   design="5 C18"),
 "C16": dict(
   text="Three pieces: (1) the real locateBirthdayBlock over a chain stub whose block timestamps are an arbitrary monotone symbolic function, with symbolic best height (chains up to 16 blocks quick, 64 thorough) and symbolic birthday: terminates within log2 steps, returns a block of the chain that is block 0 or not later than birthday+2h; (2) the real BranchRecoveryState, expandScopeHorizons and extendFoundAddresses with a key manager whose derivation marks arbitrary child indexes invalid (symbolic): after every expansion every valid index inside the look-ahead window is derived and watched and W valid addresses lie beyond the highest found index; after a find the next index is above the highest used, the manager is extended to it and the address marked used.",
   note="The full recovery loop (block filtering, recorded transactions, final balance, batch boundaries, interruption) is NOT covered; see not-covered list in evidence.assumptions. Bounded chain length / window; Time.Sub stubbed by contract; piece 2 uses function stubs and engine re-execution instead of native replay.",
   technique="SSA symbolic execution + SMT (symbolic monotone timestamps, integer-mode arithmetic) and bounded exploration with symbolic invalid-child pattern",
   design="5 C16"),
 "C03": dict(
   text="Bounded exhaustive symbolic execution of the real address manager (Create, Open, Next*/Extend*Addresses, DeriveFromKeyPath, Address, MarkUsed, Lock/Unlock, restart) over memdb with the real key-derivation libraries bridged natively: after every step of every history of 3 (thorough 4) operations every issued address is looked up again and must carry the public key of m/purpose'/coin'/account'/branch/index, the true path/account/internal flag, the scope's address format, consecutive indices, and - whenever unlocked - a private key matching that public key. A second harness family covers a second seeded account created during the history, an imported extended-public-key account (child b/i of the imported key) with an overriding address schema, private passphrase change, imported private key and script returned unchanged, the address string encoding the expected key in the expected format (oracle built with btcutil only) and a second wallet re-created from the same seed issuing the same addresses.",
   note="Two concrete seeds (the second exercises the legacy hardened rule); data is concrete, so this is exhaustive exploration of operation histories, not a for-all-seeds result. Found and fixed the extendAddresses defect (known_findings.json).",
   technique="SSA symbolic execution (concrete data) with exhaustive history enumeration; native crypto bridge; native replay",
   design="5 C03"),
 "C05": dict(
   text="(a) after Lock() every in-memory secret (master key, both crypto keys, hashed passphrase, account private keys, every address' private key / script clear text, cached derived keys) is inspected and must be zero, from three set-up states; (b) every private accessor must fail with a locked/watching-only error; (c) Unlock with a FULLY SYMBOLIC passphrase succeeds iff it equals the real one (solver-decided, ideal KDF), failure leaves everything gated; ChangePassphrase (public/private, locked/unlocked, right/wrong old passphrase) is checked immediately and after restart.",
   note="Concrete seed/keys (wipe is checked for these values); ideal KDF for the symbolic guess. Found and fixed two defects (known_findings.json).",
   technique="SSA symbolic execution + SMT for the symbolic passphrase; in-package inspection of secret fields",
   design="5 C05"),
 "C08": dict(
   text="Every history of 2 (thorough 3) database transactions over seven manager operations, each transaction committed, rolled back or failing at commit; after each one a manager freshly opened on the same database is compared with the running one on account properties, names, next indices, last addresses, sync state, block hashes and every issued address (metadata, used flag, path).",
   note="Three genuine divergences (SetSyncedTo, ExtendExternalAddresses, RenameAccount update memory inside the transaction) are recorded as known findings and reported as KNOWN-FINDING lines; any other divergence is a violation. Concrete seed.",
   technique="SSA symbolic execution with exhaustive history/outcome enumeration, two-manager comparison",
   design="5 C08"),
 "C04": dict(
   text="The real waddrmgr code runs create/derive/import/new-account/passphrase-change/convert-to-watching-only over a database model that logs every key and value ever written; every window of every logged byte string is compared with every secret (seed, master/coin-type/account extended private keys in raw and text form, address private keys, imported key and WIF, secret scripts, old and new passphrases) and, until imports, with public material (xpubs, public keys, hash160s). Passphrases and secret scripts are symbolic: the solver decides whether a stored window equals the secret for all its values. After conversion a reopened manager still knows every address, no passphrase (symbolic) unlocks it and no accessor returns private material.",
   note="Decided at the granularity of bytes handed to the database (not the bbolt file image). One operation order. Concrete seed.",
   technique="SSA symbolic execution + SMT validity queries over a database write log",
   design="5 C04"),
 "C15": dict(
   text="The real Wallet.handleChainNotifications goroutine, connectBlock, disconnectBlock, addRelevantTx, Manager.SetSyncedTo/BlockHash/PutSyncedTo and Store.Rollback process notifications emitted by a chain model for every sequence of 2 (thorough 3-4) evolutions (extensions, reorgs of depth 1-2, duplicate and stale disconnects, a wallet transaction in an affected block); after each notification SyncedTo equals the model tip (height, hash, symbolic timestamp), the remembered hash of every block up to the tip is the best-chain one, and the wallet transaction is reported in a best-chain block or unconfirmed. Start-up: after a reorg of depth 1-3 while stopped, syncWithChain leaves the wallet on the last common block.",
   note="Bounded evolution sequences; goroutine hand-off explored by the cooperative scheduler. Found and fixed the zero-hash defect in disconnectBlock.",
   technique="SSA symbolic execution with schedule exploration, chain-model oracle, symbolic block timestamps",
   design="5 C15"),
 "C20": dict(
   text="The real reliablyPublishTransaction, publishTransaction, addRelevantTx, resendUnminedTxs and Store.RemoveUnminedTx run against a backend model whose answer is one of six classes; amounts are symbolic and the balance is compared for a symbolic minconf: failure (rejection or subscription failure) leaves the transaction and its descendants unknown with balance and spendable set as before; in-mempool/accepted keeps it recorded and counted once; after resynchronisation every unconfirmed transaction is offered again parents-first.",
   note="One or two sends per history. Found and fixed the subscription-failure defect.",
   technique="SSA symbolic execution + SMT (symbolic amounts/minconf) with backend-answer enumeration",
   design="5 C20"),
 "C06": dict(
   text="Partly decided. (1) The real findEligibleOutputs (with UnspentOutputs, AddrAccount, LockedOutpoint, confirmed/confirms) on a wallet holding nine differently situated credits returns, for SYMBOLIC minconf, chain height and coinbase maturity and every scope/account query, exactly the statement's eligible set (solver-decided per coin). (2) The real txToOutputs/NewUnsignedTransaction/coin selectors on the watching-only wallet: inputs are eligible, pairwise distinct, an explicitly selected ineligible input is refused, and after publishing a created transaction a second one shares no input with it. NOT decided: signature validity (needs ECDSA/Schnorr and the script VM).",
   note="Signature clause outside the technique. Bounded: one wallet state, one or two sends. Random picks explored exhaustively.",
   technique="SSA symbolic execution + SMT (symbolic minconf/height/maturity), exhaustive exploration of selection orders",
   design="5 C06"),
 "C09": dict(
   text="Two goroutines call the real Wallet.NewAddress / NewChangeAddress / CurrentAddress concurrently on the same account; the executor's cooperative scheduler explores every interleaving of their synchronisation operations (wallet mutex, database writer lock, manager locks, the point between releasing the writer lock and running commit handlers) with at most 1-2 preemptive context switches. Asserted: both succeed, new addresses are distinct, indices gap-free, every obtained address persisted, and a freshly opened wallet agrees with memory.",
   note="Bounded: 2 callers, 3 of 6 entry points, preemption bound 2. Data-race freedom assumed. Schedule-dependent counterexamples are confirmed by deterministic re-execution in the executor when the native scheduler does not reproduce them.",
   technique="SSA symbolic execution with preemption-bounded exhaustive schedule exploration",
   design="5 C09"),
 "C11": dict(
   text="Adapter only. The real walletdb/bdb code (Update/View with rollback-on-error and on panic, BeginRead/WriteTx, transaction, bucket and cursor wrappers, convertErr) runs over a model of bbolt's API contract; for every sequence of 1-2 (thorough 3) managed updates that commit, fail or panic, with puts/deletes/nested buckets/sequences, a later transaction must see exactly the reference content (all-or-nothing), ascending keys forwards and descending backwards, read-your-writes, independent nested buckets, nil interfaces for missing buckets and ErrTxNotWritable for every write in a read transaction. Natively the same harness runs on a real bbolt file (incl. reopen), which validates the model.",
   note="bbolt's own atomicity/durability is outside (cannot be encoded); stated in DESIGN. Small key alphabet; values symbolic.",
   technique="SSA symbolic execution of the adapter over an API-contract model of bbolt; native differential replay on real bbolt",
   design="5 C11"),
}

# what later sessions added to each check (appended to the claim text)
addenda = {
 "C01": " Also at the wallet level: Wallet.CalculateBalance (symbolic minconf/maturity) and Wallet.ListUnspent on a real wallet with nine differently situated credits; universes with two conflicting unconfirmed spenders of one credit (fixed preamble).",
 "C02": " Further universes: a spender with two debits, two conflicting unconfirmed spenders with a third transaction conflicting on another input, descendants through non-credit outputs; PreviousPkScripts compared.",
 "C04": " Also: a taproot address (32-byte address id) and used flags before any import; root key neutered before conversion; after conversion no stored field may open under the master or the private crypto key (ideal AEAD); a private key imported into the reopened watching-only wallet must not reach the database; wallet-level Wallet.InitAccounts(watchOnly) migration; ImportPrivateKey racing Lock; nothing the public crypto key opens contains a secret.",
 "C05": " Further states: account row reloaded while unlocked, imported watch-only account, imports into a key scope without loaded account, invalidated account cache, secret taproot script (accessor used once before Lock), address object derived by path and kept by the caller, failed Unlock, a 110-byte passphrase with one-byte-off guesses from locked and while unlocked. Histories on a LOCKED manager (addresses issued, account renamed, looked up or dropped from the cache) followed by Unlock with the current passphrase; Wallet.Unlock through the real walletLocker goroutine, a second request while unlocked or after Wallet.Lock.",
 "C06": " The second send also goes through FundPsbt without inputs (CreateSimpleTx and the serialising txCreator goroutine); an unconfirmed leased coin and a leased coin whose unconfirmed spend was abandoned are among the credits. A user lock placed on a coin that is temporarily hidden (leased / spent by an unconfirmed transaction), the locked outpoints listed, the temporary state ended: still ineligible.",
 "C07": " The caller's output slice (spare capacity) must stay untouched; a wallet-level entry feeds NewUnsignedTransaction from the wallet's real makeInputSource / constantInputSource with symbolic coin amounts. The dust clause is judged by the network's rule (btcd mempool threshold), independently of the wallet's txrules helper; the wallet's real change source for every default scope, a custom scope and imported accounts with schema overrides: script handed out == size told to the fee estimate.",
 "C08": " Also: the same request retried in a committed transaction after one that did not commit; two operations inside ONE committed transaction (every ordered pair); an imported account with an overriding address schema; wallet-level dry-run transaction creation (symbolic amount around the dust boundary of the change). Also: ImportAccountDryRun (succeeding or failing after the account was cached) followed by a committed import reusing the account number; the sync point moved backwards to a recorded block.",
 "C09": " All six newAddrMtx call sites are driven now (also txToOutputs, FundPsbt with supplied inputs, ImportAccountDryRun) plus a spender from the imported-keys account, whose change comes from account 0.",
 "C10": " Address-manager part: 19 operations from two pre-states; after the rolled-back operation the passphrase must still be accepted (while unlocked and from locked) and a never-installed one refused. Store part: also from a state with two unconfirmed spenders of one outpoint. Also SetSyncedTo above the reorg-safe window (stale-hash pruning) and, at the wallet level, DropTransactionHistory with and without kept labels.",
 "C11": " Values may be empty or nil; a second top-level bucket is created, looked up, deleted and looked up again inside transactions; a final View succeeds, fails or panics and the database is then closed (Close waits for open transactions in the model, as in bbolt). The package-level Batch helper against a model of bbolt's batch coalescing (shared update, failing member taken out, the others run again).",
 "C12": " Also: fixed preambles (output leased first; unconfirmed output), a confirmed spend by a transaction other than the known unconfirmed spender, and a wallet-level entry (Wallet.LeaseOutput/ReleaseOutput, balance, ListUnspent) on the store's real clock with time.Now symbolic.",
 "C13": " PreviousPkScripts asserted; universes with a lower-index change credit and with two conflicting unconfirmed spenders. Wallet.GetTransactions over several blocks, forwards and backwards (each summary carries its own hash, bytes and credited output).",
 "C14": " Also Store.UnminedTxs over a real store with dependencies through non-credit outputs, fixed wider graphs on 4-6 transactions, and a reader concurrent with an uncommitted writer.",
 "C15": " Further evolutions: a reorg that starts or happens entirely while a rescan is running, an out-of-order connect (refused, tip unchanged); the wallet knows its birthday block, so PutSyncedTo's predecessor check is active. Start-up in recovery mode; start-up whose first attempt hits a failing database write, followed by a restart or by a retry in the same process; the initial rescan driven through the real rescan goroutines with a reorg right behind RescanFinished; a wallet transaction one block below the tip.",
 "C16": " The third piece is built too: the real recovery loop (Wallet.recovery, RecoveryManager incl. Resurrect, real address manager, store and chain.BlockFilterer) on chains of 2-3 chosen blocks (receipts, several wallet outputs per transaction, same-block sweeps, changeless spends, payments at or below the highest index, BIP0084 or BIP0049Plus), with resumption, one injected backend failure with in-process retry, and a 2005-block chain around the 2000-block batch boundary. A recovery that is told to stop in the middle of a batch and resumed.",
 "C17": " Also a 70-byte passphrase with one-byte-off guesses at chosen positions. At the address manager: Manager.Encrypt racing Manager.Lock with every lock release as a scheduling point; at the wallet: Wallet.Unlock through walletLocker.",
 "C18": " Also the notification queues inside the btcd and neutrino clients (real handler goroutines): concurrent producer/consumer, a 61-notification burst with more than 32 pending, Stop with a backlog and no reader. Bursts of 2100 notifications with a stalled consumer; BitcoindClient.Start failing and called again (one queue worker only).",
 "C19": " Also two upgrades with the same manager and table, the real wtxmgr manager upgraded twice through the same manager value, and wallet.Open (both namespaces in one transaction) with symbolic stored versions of both namespaces and an optional failing write.",
 "C20": " Also: three unconfirmed transactions accepted/rejected independently on rebroadcast (symbolic reject code), a second resynchronisation, incoming transactions without wallet inputs and descendants linked only through non-credit outputs. Resynchronisations driven through the real rescan batch/RPC/progress goroutines, several finishing at the same tip.",
 "C03": " Three concrete seeds now (leading zero byte at m/84'/0' and at m/84'); two accounts with addresses issued while locked. An imported account whose override is the zero value of the schema type (p2pkh on both branches).",
}
notes_override = {
 "C16": "Bounded chain length / window; Time.Sub stubbed by contract; piece 2 uses function stubs and engine re-execution instead of native replay; the full loop runs on a concrete seed with at most 3 non-empty blocks.",
 "C09": "Bounded: 2 callers, preemption bound 1-2. Data-race freedom assumed. Schedule-dependent counterexamples are confirmed by deterministic re-execution in the executor when the native scheduler does not reproduce them.",
}

not_applicable = {
}

ALL = ["C%02d" % i for i in range(1, 21)]

def main():
    checks = []
    for pid in ALL:
        if pid not in claimed:
            continue
        c = claimed[pid]
        checks.append({
            "property_id": pid,
            "quick_cmd": f"bin/symgo check {pid} --tier quick",
            "thorough_cmd": f"bin/symgo check {pid} --tier thorough",
            "evidence_file": f"/verif/evidence/{pid}.json",
            "replay_cmd_template": "bin/symgo replay {path}",
            "engine": "symgo",
            "level_claimed": {"category": "model_checking", "text": c["text"] + addenda.get(pid, ""), "design_ref": c["design"]},
            "level_note": notes_override.get(pid, c["note"]),
            "technique": c["technique"],
        })
    na = []
    for pid in ALL:
        if pid in claimed:
            continue
        reason = not_applicable.get(pid, "check not built yet in this session (planned with the same technique; see DESIGN.md section 5)")
        na.append({"property_id": pid, "reason": reason})
    m = {
        "version": 1,
        "setup_cmd": "cd /verif && export GOFLAGS=-mod=mod GOPROXY=off GOSUMDB=off GOTOOLCHAIN=local && mkdir -p bin replays evidence && go build -o bin/symgo ./symgo && bin/symgo selftest",
        "hooks": {
            "guard": "verif",
            "enable": "no hooks in /repo: harness files under /verif/harness are overlaid in-package at load time (go/packages Overlay, go test -overlay) with -tags verif",
            "baseline_off_cmd": BASE,
            "source_commits": [],
            "add_only": True,
        },
        "engines": [{
            "name": "symgo", "path": "/verif/symgo",
            "serves_properties": sorted(claimed.keys()),
            "kind_free_text": "symbolic executor for Go SSA (fork of x/tools go/ssa/interp) with SMT-LIB2 back end (z3 4.8.12 incremental; z3 5.1 and cvc5 for escalation and cross-checks); harnesses overlaid in-package; counterexamples replayed natively with go test -overlay",
        }],
        "checks": checks,
        "not_applicable": na,
        "notes": "Exit codes: 0 held within the stated bounds; 1 replay-confirmed violation (VIOLATION line); 2 inconclusive (solver unknown, unwinding/step bound hit, vacuous harness, model that did not replay). See DESIGN.md.",
    }
    json.dump(m, open("/verif/MANIFEST.json", "w"), indent=1)
    print("wrote MANIFEST.json with", len(checks), "checks,", len(na), "not_applicable")

main()
