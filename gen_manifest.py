#!/usr/bin/env python3
"""Regenerates MANIFEST.json from the table below (kept next to the registry in symgo/registry.go)."""
import json

BASE = "for m in . ./wallet/txauthor ./wallet/txrules ./wallet/txsizes ./walletdb ./wtxmgr; do (cd /repo/$m && go test -mod=mod -json -vet=off -count=1 -timeout 25m ./...); done"

claimed = {
 "C14": dict(
   text="Bounded exhaustive symbolic execution of the real DependencySort/makeGraph/graphRoots SSA: every spend DAG on <=3 (thorough: 4) transactions with <=2 inputs each (incl. multi-edges, conflicting siblings, external inputs) under every iteration order of both map ranges; asserts permutation + parents-first. Shapes and orders are enumerated (structural forks); no data is symbolic here, so the solver's part is only path feasibility.",
   note="Bound: N<=3 quick, N<=4 thorough, <=2 inputs per tx. Trusted: symgo's Go semantics (selftest corpus + native witness replay), SHA-256 stub (real hash on concrete input).",
   technique="symbolic execution of Go SSA (symgo) with exhaustive fork enumeration over graph shapes and map orders",
   design="5 C14"),
 "C01": dict(
   text="Symbolic execution of the real wtxmgr.Store code (InsertTx, AddCredit, Rollback, RemoveUnminedTx, Balance, UnspentOutputs and the db.go helpers, wire (de)serialisation) over an in-memory walletdb model, for every chain-consistent history up to the bound; after every event the SMT solver decides Balance == ledger sum for all output amounts, all minConf>=0, all syncHeight>=tip and all coinbase maturities at once, and UnspentOutputs is compared element-wise.",
   note="Bounded histories (see evidence.bounds); memdb stands for bbolt+bdb; tokenised SHA-256 for tx hashes; counterexamples are replayed natively against the real build before being reported.",
   technique="SSA symbolic execution + SMT (z3) bounded model checking with a ledger-model oracle",
   design="5 C01"),
}

not_applicable = {
}

ALL = ["C%02d" % i for i in range(1, 21)]

def main():
    checks = []
    for pid in ALL:
        if pid not in claimed:
            continue
        c = claimed[pid]
        checks.append({
            "property_id": pid,
            "quick_cmd": f"bin/symgo check {pid} --tier quick",
            "thorough_cmd": f"bin/symgo check {pid} --tier thorough",
            "evidence_file": f"/verif/evidence/{pid}.json",
            "replay_cmd_template": "bin/symgo replay {path}",
            "engine": "symgo",
            "level_claimed": {"category": "model_checking", "text": c["text"], "design_ref": c["design"]},
            "level_note": c["note"],
            "technique": c["technique"],
        })
    na = []
    for pid in ALL:
        if pid in claimed:
            continue
        reason = not_applicable.get(pid, "check not built yet in this session (planned with the same technique; see DESIGN.md section 5)")
        na.append({"property_id": pid, "reason": reason})
    m = {
        "version": 1,
        "setup_cmd": "cd /verif && export GOFLAGS=-mod=mod GOPROXY=off GOSUMDB=off GOTOOLCHAIN=local && mkdir -p bin replays evidence && go build -o bin/symgo ./symgo && bin/symgo selftest",
        "hooks": {
            "guard": "verif",
            "enable": "no hooks in /repo: harness files under /verif/harness are overlaid in-package at load time (go/packages Overlay, go test -overlay) with -tags verif",
            "baseline_off_cmd": BASE,
            "source_commits": [],
            "add_only": True,
        },
        "engines": [{
            "name": "symgo", "path": "/verif/symgo",
            "serves_properties": sorted(claimed.keys()),
            "kind_free_text": "symbolic executor for Go SSA (fork of x/tools go/ssa/interp) with SMT-LIB2 back end (z3 4.8.12 incremental; z3 5.1 and cvc5 for escalation and cross-checks); harnesses overlaid in-package; counterexamples replayed natively with go test -overlay",
        }],
        "checks": checks,
        "not_applicable": na,
        "notes": "Exit codes: 0 held within the stated bounds; 1 replay-confirmed violation (VIOLATION line); 2 inconclusive (solver unknown, unwinding/step bound hit, vacuous harness, model that did not replay). See DESIGN.md.",
    }
    json.dump(m, open("/verif/MANIFEST.json", "w"), indent=1)
    print("wrote MANIFEST.json with", len(checks), "checks,", len(na), "not_applicable")

main()
