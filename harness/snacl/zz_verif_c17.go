//go:build verif

package snacl

import (
	"errors"

	"verif/verifrt"
)

// C17. Given an ideal AEAD (secretbox stub) and an ideal, collision-free KDF
// and hash (scrypt/SHA-256 stubs), what is decided is that snacl passes the
// right nonce/box/key, never ignores the authenticator, reads the nonce
// completely from the random source, compares all 32 digest bytes, and that
// its parameter encoding round-trips.

var zzErrRand = errors.New("random source failed")

// zzReader is the random source: symbolic bytes, optionally short.
type zzReader struct {
	handed [][]byte
	limit  int // fail after this many bytes in total (-1 = never)
	total  int
}

func (r *zzReader) Read(p []byte) (int, error) {
	n := len(p)
	if r.limit >= 0 && r.total+n > r.limit {
		n = r.limit - r.total
		if n <= 0 {
			return 0, zzErrRand
		}
	}
	b := verifrt.Bytes("rnd", n)
	copy(p, b)
	r.handed = append(r.handed, b)
	r.total += n
	if n < len(p) {
		return n, zzErrRand
	}
	return n, nil
}

func zzKey(name string) *CryptoKey {
	var k CryptoKey
	copy(k[:], verifrt.Bytes(name, KeySize))
	return &k
}

func zzDiffer(a, b []byte) bool { return verifrt.Not(verifrt.BytesEq(a, b)) }

// ZzC17Cipher: round trip, wrong key, single-bit/byte tampering at a symbolic
// position, truncation to every shorter length, nonce handling.
func zzC17Cipher(n int) {
	rd := &zzReader{limit: -1}
	prng = rd
	key := zzKey("key")
	pt := verifrt.Bytes("pt", n)

	ct, err := key.Encrypt(pt)
	verifrt.Assert(err == nil, "c17-encrypt-ok")
	verifrt.Assert(len(ct) == NonceSize+n+Overhead, "c17-ciphertext-length")
	verifrt.Assert(len(rd.handed) == 1 && len(rd.handed[0]) == NonceSize, "c17-nonce-read-once-completely")
	verifrt.Assert(verifrt.BytesEq(ct[:NonceSize], rd.handed[0]), "c17-nonce-prefix-is-the-random-nonce")

	dec, err := key.Decrypt(ct)
	verifrt.Assert(err == nil && len(dec) == n && verifrt.BytesEq(dec, pt), "c17-roundtrip")

	switch verifrt.Choice(4, "attack") {
	case 0: // any other key
		k2 := zzKey("key2")
		verifrt.Assume(zzDiffer(k2[:], key[:]))
		d, err := k2.Decrypt(ct)
		verifrt.Assert(err == ErrDecryptFailed && d == nil, "c17-other-key-fails")
		verifrt.Reach("other-key")
	case 1: // any alteration of one byte (any non-zero mask) anywhere
		pos := verifrt.Int("flip-pos")
		mask := verifrt.U8("flip-mask")
		verifrt.Assume(verifrt.And(pos >= 0, pos < len(ct)))
		verifrt.Assume(mask != 0)
		ct2 := append([]byte{}, ct...)
		ct2[pos] ^= mask
		d, err := key.Decrypt(ct2)
		verifrt.Assert(err == ErrDecryptFailed && d == nil, "c17-tampered-fails")
		if pos < NonceSize {
			verifrt.Reach("tamper-nonce")
		} else {
			verifrt.Reach("tamper-box")
		}
	case 2: // truncation to any shorter length
		l := verifrt.Int("trunc-len")
		verifrt.Assume(verifrt.And(l >= 0, l < len(ct)))
		d, err := key.Decrypt(ct[:l])
		verifrt.Assert(err != nil && d == nil, "c17-truncated-fails")
		if l < NonceSize {
			verifrt.Assert(err == ErrMalformed, "c17-short-is-malformed")
			verifrt.Reach("trunc-short")
		} else {
			verifrt.Reach("trunc-box")
		}
	case 3: // a second encryption of the same plaintext uses an independent nonce read
		ct2, err := key.Encrypt(pt)
		verifrt.Assert(err == nil && len(rd.handed) == 2 && len(rd.handed[1]) == NonceSize, "c17-second-nonce-read")
		verifrt.Assert(verifrt.BytesEq(ct2[:NonceSize], rd.handed[1]), "c17-second-nonce-prefix")
		// equal ciphertexts are only possible if the source repeated a nonce
		verifrt.Assert(verifrt.Implies(verifrt.BytesEq(ct, ct2), verifrt.BytesEq(rd.handed[0], rd.handed[1])), "c17-equal-ciphertexts-need-equal-nonces")
		d2, err := key.Decrypt(ct2)
		verifrt.Assert(err == nil && verifrt.BytesEq(d2, pt), "c17-second-roundtrip")
		verifrt.Reach("second-encryption")
	}
	verifrt.Reach("c17-end")
}

func ZzC17Cipher0() { zzC17Cipher(0) }
func ZzC17Cipher1() { zzC17Cipher(1) }
func ZzC17Cipher2() { zzC17Cipher(2) }
func ZzC17Cipher4() { zzC17Cipher(4) }

// ZzC17ShortNonce: a random source that fails before 24 bytes were read makes
// Encrypt and GenerateCryptoKey fail instead of using a partial nonce/key.
func ZzC17ShortNonce() {
	lim := verifrt.Int("rand-limit")
	verifrt.Assume(verifrt.And(lim >= 0, lim < NonceSize))
	prng = &zzReader{limit: lim}
	key := zzKey("key")
	ct, err := key.Encrypt([]byte{1, 2, 3})
	verifrt.Assert(err != nil && ct == nil, "c17-short-random-read-fails")
	prng = &zzReader{limit: lim}
	ck, err := GenerateCryptoKey()
	verifrt.Assert(err != nil && ck == nil, "c17-short-random-key-fails")
	verifrt.Reach("c17-end")
}

// ZzC17Params: Unmarshal(Marshal(p)) == p for all parameters; every other
// length is rejected.
func ZzC17Params() {
	var sk SecretKey
	sk.Key = zzKey("key")
	copy(sk.Parameters.Salt[:], verifrt.Bytes("salt", KeySize))
	copy(sk.Parameters.Digest[:], verifrt.Bytes("digest", 32))
	sk.Parameters.N = verifrt.Int("N")
	sk.Parameters.R = verifrt.Int("R")
	sk.Parameters.P = verifrt.Int("P")
	m := sk.Marshal()
	verifrt.Assert(len(m) == KeySize+32+24, "c17-marshal-length")
	var sk2 SecretKey
	err := sk2.Unmarshal(m)
	verifrt.Assert(err == nil, "c17-unmarshal-ok")
	p, q := &sk.Parameters, &sk2.Parameters
	verifrt.Assert(verifrt.BytesEq(p.Salt[:], q.Salt[:]), "c17-salt-roundtrip")
	verifrt.Assert(verifrt.BytesEq(p.Digest[:], q.Digest[:]), "c17-digest-roundtrip")
	verifrt.Assert(p.N == q.N && p.R == q.R && p.P == q.P, "c17-cost-roundtrip")
	verifrt.Assert(sk2.Key != nil, "c17-unmarshal-allocates-key")
	// any other length is malformed
	l := verifrt.Int("len")
	verifrt.Assume(verifrt.Or(verifrt.And(l >= len(m)-24, l <= len(m)+8), verifrt.And(l >= 0, l <= 2)))
	verifrt.Assume(l != len(m))
	buf := make([]byte, l)
	var sk3 SecretKey
	verifrt.Assert(sk3.Unmarshal(buf) == ErrMalformed, "c17-other-length-malformed")
	verifrt.Reach("c17-end")
}

// ZzC17Password: a passphrase-derived key accepts only its passphrase (same
// length near-miss, other lengths), compares the whole digest, and survives
// Marshal/Unmarshal.
func zzC17Password(n int) {
	prng = &zzReader{limit: -1}
	pw := verifrt.Bytes("pw", n)
	sk, err := NewSecretKey(&pw, 16, 8, 1)
	verifrt.Assert(err == nil && sk != nil, "c17-new-secret-key")
	pwCopy := append([]byte{}, pw...)
	verifrt.Assert(sk.DeriveKey(&pwCopy) == nil, "c17-own-passphrase-accepted")

	ct, err := sk.Encrypt([]byte{0xde, 0xad})
	verifrt.Assert(err == nil, "c17-sk-encrypt")

	switch verifrt.Choice(4, "attempt") {
	case 0: // same-length other passphrase
		pw2 := verifrt.Bytes("pw2", n)
		var other SecretKey
		must(other.Unmarshal(sk.Marshal()))
		err := other.DeriveKey(&pw2)
		same := verifrt.BytesEq(pw2, pw)
		verifrt.Assert((err == nil) == same, "c17-accepts-exactly-the-passphrase")
		if err != nil {
			verifrt.Assert(err == ErrInvalidPassword, "c17-invalid-password-error")
			verifrt.Reach("near-miss-rejected")
		} else {
			d, derr := other.Decrypt(ct)
			verifrt.Assert(derr == nil && len(d) == 2 && d[0] == 0xde, "c17-rederived-key-decrypts")
			verifrt.Reach("restart-accepts")
		}
	case 1: // a longer passphrase with the right prefix
		// PBKDF2-HMAC zero-pads short keys, so a passphrase and the same
		// passphrase followed by NUL bytes derive the same key in the real
		// scrypt: a property of the primitive (outside the claim, found by
		// native witness replay); the appended byte is therefore non-zero.
		extra := verifrt.U8("extra")
		verifrt.Assume(extra != 0)
		pw3 := append(append([]byte{}, pw...), extra)
		var other SecretKey
		must(other.Unmarshal(sk.Marshal()))
		verifrt.Assert(other.DeriveKey(&pw3) == ErrInvalidPassword, "c17-longer-passphrase-rejected")
		verifrt.Reach("longer")
	case 2: // stored digest differing in one byte anywhere: the whole digest is compared
		pos := verifrt.Int("digest-pos")
		mask := verifrt.U8("digest-mask")
		verifrt.Assume(verifrt.And(pos >= 0, pos < 32))
		verifrt.Assume(mask != 0)
		var other SecretKey
		must(other.Unmarshal(sk.Marshal()))
		other.Parameters.Digest[pos] ^= mask
		verifrt.Assert(other.DeriveKey(&pwCopy) == ErrInvalidPassword, "c17-whole-digest-compared")
		verifrt.Reach("digest-near-miss")
	case 3: // different salt: a different key, even for the same passphrase
		var other SecretKey
		must(other.Unmarshal(sk.Marshal()))
		pos := verifrt.Int("salt-pos")
		mask := verifrt.U8("salt-mask")
		verifrt.Assume(verifrt.And(pos >= 0, pos < KeySize))
		verifrt.Assume(mask != 0)
		other.Parameters.Salt[pos] ^= mask
		verifrt.Assert(other.DeriveKey(&pwCopy) == ErrInvalidPassword, "c17-salt-bound")
		verifrt.Reach("salt-changed")
	}
	verifrt.Reach("c17-end")
}

func must(err error) {
	if err != nil {
		panic(err)
	}
}

func ZzC17Password1() { zzC17Password(1) }
func ZzC17Password2() { zzC17Password(2) }
func ZzC17Password3() { zzC17Password(3) }

// zzC17LongPassword: a passphrase of n bytes (longer than any block or buffer
// size a KDF front end might use); a guess that differs from it in ONE byte,
// at the beginning, around the 32- and 64-byte marks or at the very end, is
// rejected: "accepts only the exact passphrase" has no length limit.
func zzC17LongPassword(n int) {
	prng = &zzReader{limit: -1}
	pw := make([]byte, n)
	for i := range pw {
		pw[i] = byte('a' + i%26)
	}
	pw[n-1] = verifrt.U8("last")
	sk, err := NewSecretKey(&pw, 16, 8, 1)
	verifrt.Assert(err == nil && sk != nil, "c17-new-secret-key")
	pwCopy := append([]byte{}, pw...)
	verifrt.Assert(sk.DeriveKey(&pwCopy) == nil, "c17-own-passphrase-accepted")
	positions := []int{0, 31, 32, 63, 64, 65, n - 1}
	pos := positions[verifrt.Choice(len(positions), "differs-at")]
	mask := verifrt.U8("mask")
	verifrt.Assume(mask != 0)
	guess := append([]byte{}, pw...)
	guess[pos] ^= mask
	var other SecretKey
	must(other.Unmarshal(sk.Marshal()))
	verifrt.Assert(other.DeriveKey(&guess) == ErrInvalidPassword, "c17-long-passphrase-one-byte-off-rejected")
	if pos >= 64 {
		verifrt.Reach("differs-beyond-64-bytes")
	}
	verifrt.Reach("c17-end")
}

func ZzC17Password70() { zzC17LongPassword(70) }
