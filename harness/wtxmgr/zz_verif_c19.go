//go:build verif

package wtxmgr

import (
	"github.com/btcsuite/btcwallet/walletdb"
	"github.com/btcsuite/btcwallet/walletdb/migration"

	"verif/memdb"
	"verif/verifrt"
)

// C19 (transaction store): the real wtxmgr.MigrationManager over memdb with a
// SYMBOLIC stored version, history present, and an optional write fault at a
// symbolic position inside the single database transaction of the upgrade.
func ZzC19Store() {
	w := zzNewWorld(zzU1())
	// some history so that dropping it is observable
	b := zzBlock(zzBaseHeight, 0)
	must(w.update(func(ns walletdb.ReadWriteBucket) error { return w.insert(ns, 0, b) }))
	must(w.update(func(ns walletdb.ReadWriteBucket) error { return w.insert(ns, 1, nil) }))

	v := verifrt.U32("stored-version")
	must(w.update(func(ns walletdb.ReadWriteBucket) error { return putVersion(ns, v) }))
	before := w.db.Dump()
	latest := getLatestVersion()

	// Open refuses anything but the latest version and touches nothing
	err := walletdb.View(w.db, func(tx walletdb.ReadTx) error {
		_, err := Open(tx.ReadBucket(zzNS), w.params)
		return err
	})
	verifrt.Assert((err == nil) == (v == latest), "c19-open-only-latest")
	if v > latest {
		verifrt.Assert(zzIsCode(err, ErrUnknownVersion), "c19-open-newer-refused")
	}
	if v < latest {
		verifrt.Assert(zzIsCode(err, ErrNeedsUpgrade), "c19-open-older-needs-upgrade")
	}
	verifrt.Assert(memdb.EqualDumps(w.db.Dump(), before), "c19-open-untouched")

	faulty := verifrt.Choice(2, "with-fault") == 1
	if faulty {
		k := verifrt.Int("fault-at")
		verifrt.Assume(verifrt.And(k >= 0, k < 64))
		verifrt.ArmFault(k)
	}
	var err2 error
	secondRan := false
	err = walletdb.Update(w.db, func(tx walletdb.ReadWriteTx) error {
		ns := tx.ReadWriteBucket(zzNS)
		mgr := NewMigrationManager(ns)
		if err := migration.Upgrade(mgr); err != nil {
			return err
		}
		if !faulty && v < latest {
			// the store is current now: record a transaction, then upgrade
			// again through the SAME manager value - nothing is pending any
			// more, whatever the manager remembers from its first look
			if err := w.insert(ns, 0, nil); err != nil {
				return err
			}
			secondRan = true
			err2 = migration.Upgrade(mgr)
		}
		return nil
	})
	hit := verifrt.FaultHit()
	verifrt.ArmFault(-1)

	switch {
	case v > latest:
		verifrt.Assert(err == migration.ErrReversion, "c19-newer-refused")
		verifrt.Assert(memdb.EqualDumps(w.db.Dump(), before), "c19-newer-untouched")
		verifrt.Reach("newer")
	case faulty && hit:
		verifrt.Assert(err != nil, "c19-fault-reported")
		verifrt.Assert(memdb.EqualDumps(w.db.Dump(), before), "c19-failed-upgrade-leaves-data-and-version")
		verifrt.Reach("fault-hit")
	case v == latest:
		verifrt.Assert(err == nil, "c19-current-ok")
		verifrt.Assert(memdb.EqualDumps(w.db.Dump(), before), "c19-current-untouched")
		verifrt.Reach("current")
	default:
		verifrt.Assert(err == nil, "c19-upgrade-ok")
		verifrt.Assert(!secondRan || err2 == nil, "c19-second-upgrade-ok")
		var got uint32
		must(w.view(func(ns walletdb.ReadBucket) error {
			var e error
			got, e = fetchVersion(ns)
			return e
		}))
		verifrt.Assert(got == latest, "c19-latest-recorded")
		// version 2's migration dropped the history: nothing known any more
		w.open()
		for t := range w.l.status {
			w.l.status[t] = zzUnknown
		}
		w.l.tip = zzBaseHeight - 1
		if secondRan {
			// ... except the transaction recorded between the two upgrades
			w.l.status[0] = zzUnmined
			verifrt.Reach("second-upgrade-same-manager")
		}
		w.checkDetails("c19-history-dropped")
		verifrt.Scope(func() { w.checkBalance("c19-balance-zero") })
		verifrt.Reach("upgraded")
	}
	verifrt.Reach("c19-end")
}

func zzIsCode(err error, c ErrorCode) bool {
	e, ok := err.(Error)
	return ok && e.Code == c
}
