//go:build verif

package wtxmgr

import (
	"verif/memdb"
	"verif/verifrt"
)

// C10 (transaction-store part): a single failing database write inside any
// store operation, at a symbolic position k, from every state the histories
// of length `pre` reach.
//  (1) the operation reports an error, or its result is the fault-free one;
//  (2) after the enclosing transaction rolled back, the database and all
//      observations are those from before the operation;
//  (3) retrying without the fault gives the fault-free result.
func zzC10(defs []zzTxDef, pre int) { zzC10P(defs, nil, pre) }

// zzC10P: the first events of the pre-state history are fixed.
func zzC10P(defs []zzTxDef, forced []int, pre int) {
	w := zzNewWorld(defs)
	w.forced = forced
	pre += len(forced)
	for s := 0; s < pre; s++ {
		if !w.step(s > 0) {
			verifrt.Assume(false)
		}
	}
	ev := w.pick(pre > 0)
	if ev == nil {
		verifrt.Assume(false)
	}
	verifrt.Note("faulted: " + ev.name)
	before := w.db.Dump()

	// fault-free twin on a copy of the database
	twin := &zzWorld{db: w.db.Snapshot(), seen: w.seen, params: w.params, clock: w.clock, txs: w.txs, l: w.l}
	twin.open()
	must(ev.apply(twin))
	free := twin.db.Dump()

	k := verifrt.Int("fault-at")
	verifrt.Assume(verifrt.And(k >= 0, k < 200))
	verifrt.ArmFault(k)
	err := ev.apply(w)
	hit := verifrt.FaultHit()
	writes := verifrt.Writes()
	verifrt.ArmFault(-1)
	_ = writes

	if !hit {
		// the operation performed fewer than k+1 writes: plain run
		verifrt.Assert(err == nil, "c10-no-fault-no-error")
		verifrt.Assert(memdb.EqualDumps(w.db.Dump(), free), "c10-unfaulted-equals-twin")
		verifrt.Reach("fault-not-reached")
		return
	}
	verifrt.Reach("fault-hit")
	if err == nil {
		// success reported although a write failed: only acceptable with the full effect
		verifrt.Assert(memdb.EqualDumps(w.db.Dump(), free), "c10-success-with-partial-effect")
		verifrt.Reach("fault-swallowed")
		return
	}
	// (2) rolled back: database as before, observations as before (ledger not advanced)
	verifrt.Assert(memdb.EqualDumps(w.db.Dump(), before), "c10-rollback-restores-database")
	verifrt.Scope(func() { w.checkBalance("c10-balance-after-rollback") })
	verifrt.Scope(func() { w.checkUnspent("c10-unspent-after-rollback") })
	w.checkDetails("c10-details-after-rollback")
	// (3) retry
	must(ev.apply(w))
	verifrt.Assert(memdb.EqualDumps(w.db.Dump(), free), "c10-retry-equals-fault-free")
	ev.model()
	verifrt.Scope(func() { w.checkBalance("c10-balance-after-retry") })
	w.checkDetails("c10-details-after-retry")
	verifrt.Reach("c10-end")
}

func ZzC10U1P0() { zzC10(zzU1(), 0) }
func ZzC10U1P1() { zzC10(zzU1(), 1) }
func ZzC10U1P2() { zzC10(zzU1(), 2) }
func ZzC10U3P2() { zzC10(zzU3(), 2) }
func ZzC10U4P2() { zzC10(zzU4(), 2) }
func ZzC10U3P3() { zzC10(zzU3(), 3) }
func ZzC10U4P3() { zzC10(zzU4(), 3) }
func ZzC10U1P3() { zzC10(zzU1(), 3) }

// pre-state: A confirmed, B and its conflicting replacement B' both
// unconfirmed (two unconfirmed spenders of one outpoint)
func ZzC10U9P3() { zzC10P(zzU9(), zzU9Preamble(), 0) }
