//go:build verif

package wtxmgr

import "verif/verifrt"

// C01: after every event of a chain-consistent history the balance (for every
// minConf >= 0 and every syncHeight >= tip) and the spendable outputs equal
// the ledger truth.
func zzC01(defs []zzTxDef, steps int) { zzC01P(defs, nil, steps) }

// zzC01P: the first len(pre) events are fixed (a preamble that brings the
// store into a state the free events alone would need a longer history for).
func zzC01P(defs []zzTxDef, pre []int, steps int) {
	w := zzNewWorld(defs)
	w.forced = pre
	steps += len(pre)
	for s := 0; s < steps; s++ {
		if !w.step(s > 0) {
			verifrt.Assume(false)
		}
		verifrt.Scope(func() { w.checkBalance("c01-balance") })
		verifrt.Scope(func() { w.checkUnspent("c01-unspent") })
	}
	verifrt.Reach("c01-end")
}

func ZzC01U1L2() { zzC01(zzU1(), 2) }
func ZzC01U1L3() { zzC01(zzU1(), 3) }
func ZzC01U1L4() { zzC01(zzU1(), 4) }
func ZzC01U3L3() { zzC01(zzU3(), 3) }
func ZzC01U4L3() { zzC01(zzU4(), 3) }
func ZzC01U7L3() { zzC01(zzU7(), 3) }
func ZzC01U8L3() { zzC01(zzU8(), 3) }

func ZzC01U4P3L1() { zzC01P(zzU4(), zzU4Preamble(), 1) }
func ZzC01U9P3L2() { zzC01P(zzU9(), zzU9Preamble(), 2) }
