//go:build verif

package wtxmgr

import "verif/verifrt"

// C13: after every event, direct lookups and range iteration report each
// known transaction exactly once at its current status.
func zzC13(defs []zzTxDef, steps int) { zzC13P(defs, nil, steps) }

func zzC13P(defs []zzTxDef, pre []int, steps int) {
	w := zzNewWorld(defs)
	w.forced = pre
	steps += len(pre)
	for s := 0; s < steps; s++ {
		if !w.step(s > 0) {
			verifrt.Assume(false)
		}
		w.checkDetails("c13-details")
		verifrt.Scope(func() { w.checkRange("c13-range") })
	}
	verifrt.Reach("c13-end")
}

func ZzC13U1L3() { zzC13(zzU1(), 3) }
func ZzC13U3L3() { zzC13(zzU3(), 3) }
func ZzC13U6L3() { zzC13(zzU6(), 3) }
func ZzC13U4L3() { zzC13(zzU4(), 3) }
func ZzC13U1L4() { zzC13(zzU1(), 4) }
func ZzC13U2L4() { zzC13(zzU2(), 4) }

// C02: the ledger model encodes the statement's reorg/conflict rules and is
// compared after every event (a); at the end of every history a second store
// is built directly from the final facts and must agree (b).
func zzC02(defs []zzTxDef, steps int) { zzC02P(defs, nil, steps) }

func zzC02P(defs []zzTxDef, pre []int, steps int) {
	w := zzNewWorld(defs)
	w.forced = pre
	steps += len(pre)
	for s := 0; s < steps; s++ {
		if !w.step(s > 0) {
			verifrt.Assume(false)
		}
		verifrt.Scope(func() { w.checkBalance("c02-balance") })
		w.checkDetails("c02-details")
	}
	w2 := w.rebuild()
	verifrt.Scope(func() { zzCheckSameBalance(w, w2, "c02-same-balance") })
	verifrt.Scope(func() { w2.checkBalance("c02-direct-balance") })
	verifrt.Scope(func() { w.checkUnspent("c02-unspent") })
	verifrt.Scope(func() { w2.checkUnspent("c02-direct-unspent") })
	w2.checkDetails("c02-direct-details")
	verifrt.Reach("c02-end")
}

func ZzC02U1L3() { zzC02(zzU1(), 3) }
func ZzC02U3L3() { zzC02(zzU3(), 3) }
func ZzC02U4L3() { zzC02(zzU4(), 3) }
func ZzC02U3L4() { zzC02(zzU3(), 4) }
func ZzC02U4L4() { zzC02(zzU4(), 4) }
func ZzC02U4P3L1() { zzC02P(zzU4(), zzU4Preamble(), 1) }
func ZzC02U1L4() { zzC02(zzU1(), 4) }
func ZzC02U2L4() { zzC02(zzU2(), 4) }
func ZzC02U5L4() { zzC02(zzU5(), 4) }
func ZzC02U7L3()  { zzC02(zzU7(), 3) }
func ZzC02U8L3()  { zzC02(zzU8(), 3) }
func ZzC02U1zL3() { zzC02(zzU1z(), 3) }
func ZzC13U7L3()  { zzC13(zzU7(), 3) }
func ZzC13U8L3()  { zzC13(zzU8(), 3) }
func ZzC13U1zL3() { zzC13(zzU1z(), 3) }

func ZzC13U9P3L2() { zzC13P(zzU9(), zzU9Preamble(), 2) }
func ZzC02U9P3L2() { zzC02P(zzU9(), zzU9Preamble(), 2) }
func ZzC02U9P3L3() { zzC02P(zzU9(), zzU9Preamble(), 3) }

func ZzC02U5L3() { zzC02(zzU5(), 3) }
