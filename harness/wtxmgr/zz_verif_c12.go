//go:build verif

package wtxmgr

import (
	"time"

	"github.com/btcsuite/btcd/wire"
	"github.com/btcsuite/btcwallet/walletdb"

	"verif/verifrt"
)

// C12: leases. Universe: A (two credits), B spends A:0 (one change credit).
// The clock is symbolic (seconds and nanoseconds), non-decreasing.

func zzUL() []zzTxDef {
	return []zzTxDef{
		{name: "A", ins: []zzIn{{-1, 0}}, nOuts: 2, credits: []int{0, 1}, change: []bool{false, false}},
		{name: "B", ins: []zzIn{{0, 0}}, nOuts: 1, credits: []int{0}, change: []bool{true}},
	}
}

type zzLeaseWorld struct {
	forcedEv []int // event codes of a fixed preamble
	*zzWorld
	sec  int64
	nsec int64
}

var zzDurations = []time.Duration{0, 1, time.Second, 10 * time.Minute}

func zzLockID(id int) LockID {
	var l LockID
	if id == 1 {
		return l // the all-zero identifier is an identifier like any other
	}
	l[0] = byte(id)
	l[31] = 0xaa
	return l
}

func (w *zzLeaseWorld) setClock(first bool) {
	sec := verifrt.I64("clk.sec")
	// 30 bits zero-extended: the sign and the monotonic-clock bits are
	// syntactically zero, which keeps package time's bit tests concrete
	nsec := int64(verifrt.U32("clk.nsec") >> 2)
	verifrt.Assume(verifrt.And(sec >= 1600000000, sec <= 4000000000))
	verifrt.Assume(nsec < 1000000000)
	if !first {
		verifrt.Assume(verifrt.Or(sec > w.sec, verifrt.And(sec == w.sec, nsec >= w.nsec)))
	}
	w.sec, w.nsec = sec, nsec
	w.clock.now = time.Unix(sec, nsec)
}

func (w *zzLeaseWorld) op(k int) wire.OutPoint {
	if k == 0 {
		return wire.OutPoint{Hash: w.txs[0].hash, Index: 0}
	}
	return wire.OutPoint{Hash: w.txs[1].hash, Index: 0}
}

// known: the output is a credit of a known transaction that no confirmed
// transaction spends.
func (w *zzLeaseWorld) known(k int) bool {
	l := w.l
	if k == 0 {
		return l.status[0] != zzUnknown && len(l.spenders(0, 0, zzMined)) == 0
	}
	return l.status[1] != zzUnknown
}

func (w *zzLeaseWorld) leasedNow(op wire.OutPoint) (int, bool) {
	exp, ok := w.l.leaseExp[op]
	if !ok {
		return 0, false
	}
	// model: leased while now < expiry (whole seconds as persisted)
	return w.l.leaseID[op], w.sec < exp
}

func (w *zzLeaseWorld) stepLease() bool {
	l := w.l
	var c int
	forced := len(w.forcedEv) > 0
	if forced {
		c, w.forcedEv = w.forcedEv[0], w.forcedEv[1:]
	} else {
		c = verifrt.Choice(17, "lease-event")
	}
	switch {
	case c == 0: // see A
		if !l.canSeeUnmined(0) {
			return false
		}
		verifrt.Note("see A")
		must(w.update(func(ns walletdb.ReadWriteBucket) error { return w.insert(ns, 0, nil) }))
		if l.status[0] == zzUnknown {
			l.status[0] = zzUnmined
		}
	case c == 1 || c == 3: // mine A / mine B in a new block
		t := (c - 1) / 2
		h := l.tip + 1
		if h > zzBaseHeight+3 || !l.canMine(t, h) {
			return false
		}
		variant := 0
		if w.seen[h] {
			variant = 1
		}
		verifrt.Note("mine " + w.txs[t].def.name)
		b := zzBlock(h, variant)
		must(w.update(func(ns walletdb.ReadWriteBucket) error { return w.insert(ns, t, b) }))
		w.seen[h] = true
		l.mine(t, h, variant)
		if t == 1 {
			verifrt.Reach("confirmed-spend")
		}
	case c == 2: // see B
		if !l.canSeeUnmined(1) {
			return false
		}
		verifrt.Note("see B")
		must(w.update(func(ns walletdb.ReadWriteBucket) error { return w.insert(ns, 1, nil) }))
		if l.status[1] == zzUnknown {
			l.status[1] = zzUnmined
		}
	case c == 4: // disconnect the tip block
		if l.tip < zzBaseHeight {
			return false
		}
		h := l.tip
		verifrt.Note("rollback tip")
		must(w.update(func(ns walletdb.ReadWriteBucket) error { return w.store.Rollback(ns, h) }))
		l.rollback(h)
	case c == 5: // abandon B
		if l.status[1] != zzUnmined {
			return false
		}
		verifrt.Note("abandon B")
		must(w.update(func(ns walletdb.ReadWriteBucket) error { return w.store.RemoveUnminedTx(ns, w.txs[1].rec) }))
		l.removeWithDescendants(1)
	case c >= 6 && c < 10: // lock(op, id) with a chosen duration
		k, id := (c-6)/2, (c-6)%2+1
		op := w.op(k)
		var d time.Duration
		if forced {
			d = zzDurations[len(zzDurations)-1] // the longest (10 min)
		} else {
			d = zzDurations[verifrt.Choice(len(zzDurations), "duration")]
		}
		verifrt.Note("lock " + string(rune('A'+k)) + ":0 id" + string(rune('0'+id)) + " for " + d.String())
		var exp time.Time
		var err error
		must(w.update(func(ns walletdb.ReadWriteBucket) error {
			exp, err = w.store.LockOutput(ns, zzLockID(id), op, d)
			return nil
		}))
		cur, leased := w.leasedNow(op)
		switch {
		case !w.known(k):
			verifrt.Assert(err == ErrUnknownOutput, "c12-lock-unknown-fails")
			verifrt.Reach("lock-unknown")
		case leased && cur != id:
			verifrt.Assert(err == ErrOutputAlreadyLocked, "c12-lock-other-id-fails")
			verifrt.Reach("lock-conflict")
		default:
			verifrt.Assert(err == nil, "c12-lock-succeeds")
			// persisted expiry: whole seconds of now+d
			ds := int64(d / time.Second)
			carry := verifrt.IteI64(w.nsec+int64(d%time.Second) >= 1000000000, 1, 0)
			l.leaseID[op] = id
			l.leaseExp[op] = w.sec + ds + carry
			// the returned instant is now+d (to the nanosecond)
			verifrt.Assert(exp.Equal(w.clock.now.Add(d)), "c12-lock-returns-expiry")
			if leased {
				verifrt.Reach("lock-extended")
			}
		}
	case c >= 10 && c < 14: // unlock(op, id)
		k, id := (c-10)/2, (c-10)%2+1
		op := w.op(k)
		verifrt.Note("unlock " + string(rune('A'+k)) + ":0 id" + string(rune('0'+id)))
		var err error
		must(w.update(func(ns walletdb.ReadWriteBucket) error {
			err = w.store.UnlockOutput(ns, zzLockID(id), op)
			return nil
		}))
		cur, leased := w.leasedNow(op)
		switch {
		case !w.known(k):
			verifrt.Assert(err == ErrUnknownOutput, "c12-unlock-unknown-fails")
		case !leased:
			verifrt.Assert(err == nil, "c12-unlock-unleased-noop")
		case cur != id:
			verifrt.Assert(err == ErrOutputUnlockNotAllowed, "c12-unlock-other-id-fails")
			verifrt.Reach("unlock-conflict")
		default:
			verifrt.Assert(err == nil, "c12-unlock-succeeds")
			delete(l.leaseID, op)
			delete(l.leaseExp, op)
			verifrt.Reach("unlocked")
		}
	case c == 14: // the clock advances
		verifrt.Note("clock advances")
		w.setClock(false)
	case c == 15: // sweep
		verifrt.Note("sweep")
		must(w.update(func(ns walletdb.ReadWriteBucket) error { return w.store.DeleteExpiredLockedOutputs(ns) }))
		for _, k := range []int{0, 1} {
			op := w.op(k)
			if exp, ok := l.leaseExp[op]; ok && !(w.sec < exp) {
				delete(l.leaseID, op)
				delete(l.leaseExp, op)
				verifrt.Reach("swept")
			}
		}
	case c == 16: // restart
		verifrt.Note("restart")
		w.open()
	}
	return true
}

// checkLeases compares ListLockedOutputs and OutputsToWatch with the model.
func (w *zzLeaseWorld) checkLeases(label string) {
	l := w.l
	var locked []*LockedOutput
	var watch []Credit
	must(w.view(func(ns walletdb.ReadBucket) error {
		var err error
		locked, err = w.store.ListLockedOutputs(ns)
		if err != nil {
			return err
		}
		watch, err = w.store.OutputsToWatch(ns)
		return err
	}))
	n := 0
	for _, k := range []int{0, 1} {
		op := w.op(k)
		id, leased := w.leasedNow(op)
		if !leased {
			for _, lo := range locked {
				verifrt.Assert(lo.Outpoint != op, label+"-not-listed-when-free")
			}
			continue
		}
		verifrt.Reach("leased")
		n++
		found := 0
		for _, lo := range locked {
			if lo.Outpoint == op {
				found++
				verifrt.Assert(lo.LockID == zzLockID(id), label+"-listed-id")
				verifrt.Assert(lo.Expiration.Unix() == l.leaseExp[op], label+"-listed-expiry")
			}
		}
		verifrt.Assert(found == 1, label+"-listed-once")
		// a leased output is still watched as long as it is a known unspent credit
		if w.known(k) {
			inWatch := false
			for _, c := range watch {
				if c.OutPoint == op {
					inWatch = true
				}
			}
			verifrt.Assert(inWatch, label+"-still-watched")
		}
	}
	verifrt.Assert(len(locked) == n, label+"-listed-count")
}

func zzC12(steps int, preMined bool) { zzC12P(nil, steps, preMined) }

// zzC12P: the first events are fixed (event codes of stepLease).
func zzC12P(pre []int, steps int, preMined bool) {
	w := &zzLeaseWorld{zzWorld: zzNewWorld(zzUL())}
	w.forcedEv = pre
	steps += len(pre)
	w.setClock(true)
	if preMined {
		b := zzBlock(zzBaseHeight, 0)
		must(w.update(func(ns walletdb.ReadWriteBucket) error { return w.insert(ns, 0, b) }))
		w.seen[zzBaseHeight] = true
		w.l.mine(0, zzBaseHeight, 0)
	} else {
		must(w.update(func(ns walletdb.ReadWriteBucket) error { return w.insert(ns, 0, nil) }))
		w.l.status[0] = zzUnmined
	}
	for s := 0; s < steps; s++ {
		if !w.stepLease() {
			verifrt.Assume(false)
		}
		verifrt.Scope(func() { w.checkBalance("c12-balance") })
		verifrt.Scope(func() { w.checkUnspent("c12-unspent") })
		verifrt.Scope(func() { w.checkLeases("c12-leases") })
	}
	verifrt.Reach("c12-end")
}

func ZzC12MinedL2() { zzC12(2, true) }

// A:0 leased to id1 for ten minutes first, then two free events (in
// particular: an unconfirmed spend of the leased output and its removal).
func ZzC12LeasedP1L2() { zzC12P([]int{6}, 2, true) }
func ZzC12MinedL3() { zzC12(3, true) }
func ZzC12MinedL4() { zzC12(4, true) }
func ZzC12UnminedL3() { zzC12(3, false) }
func ZzC12UnminedL2() { zzC12(2, false) }
func ZzC12UnminedL4() { zzC12(4, false) }

// zzTickClock: the clock moves while an operation runs. The first `early`
// readings return t1, every later one t2 >= t1.
type zzTickClock struct {
	t1, t2 time.Time
	early  int
	reads  int
}

func (c *zzTickClock) Now() time.Time {
	c.reads++
	if c.reads <= c.early {
		return c.t1
	}
	return c.t2
}
func (c *zzTickClock) TickAfter(time.Duration) <-chan time.Time { return nil }

// zzC12Tick: one output is leased; Balance, UnspentOutputs and
// ListLockedOutputs run while the clock passes from t1 to t2 (possibly across
// the expiry). Each answer must be the answer for SOME instant of the
// operation: with one lease that is the answer at t1 or the answer at t2.
func zzC12Tick() {
	w := &zzLeaseWorld{zzWorld: zzNewWorld(zzUL())}
	w.setClock(true)
	b := zzBlock(zzBaseHeight, 0)
	must(w.update(func(ns walletdb.ReadWriteBucket) error { return w.insert(ns, 0, b) }))
	w.seen[zzBaseHeight] = true
	w.l.mine(0, zzBaseHeight, 0)
	op := w.op(0)
	d := zzDurations[2+verifrt.Choice(2, "duration")]
	must(w.update(func(ns walletdb.ReadWriteBucket) error {
		_, err := w.store.LockOutput(ns, zzLockID(2), op, d)
		return err
	}))
	ds := int64(d / time.Second)
	w.l.leaseID[op] = 2
	w.l.leaseExp[op] = w.sec + ds + verifrt.IteI64(w.nsec+int64(d%time.Second) >= 1000000000, 1, 0)
	// the clock during the observed operation
	t1s, t1n := w.sec, w.nsec
	w.setClock(false)
	t2s := w.sec
	tc := &zzTickClock{t1: time.Unix(t1s, t1n), t2: time.Unix(t2s, w.nsec), early: verifrt.Choice(4, "early-reads")}
	w.store.clock = tc
	minConf := verifrt.I32("minConf")
	syncHeight := verifrt.I32("syncHeight")
	verifrt.Assume(verifrt.And(minConf >= 0, minConf <= 1<<30))
	verifrt.Assume(verifrt.And(syncHeight >= zzBaseHeight, syncHeight <= 1<<30))
	var bal int64
	must(w.view(func(ns walletdb.ReadBucket) error {
		a, err := w.store.Balance(ns, minConf, syncHeight)
		bal = int64(a)
		return err
	}))
	e1 := w.expectBalance(minConf, syncHeight, t1s)
	e2 := w.expectBalance(minConf, syncHeight, t2s)
	if tc.reads > tc.early && tc.early > 0 {
		verifrt.Reach("clock-moved-inside-operation")
	}
	verifrt.Assert(verifrt.Or(bal == e1, bal == e2), "c12-balance-consistent-with-one-instant")
	verifrt.Reach("c12-end")
}

func ZzC12Tick() { zzC12Tick() }

// ZzC12ConfirmedConflict: "a confirmed spend of the output removes the lease"
// also when the confirming transaction is not the unconfirmed spender the
// wallet already knows: A confirmed (two credits), A:0 leased, B (spends A:0)
// seen unconfirmed [optional], then its replacement B' (spends A:0 and A:1)
// confirms. Afterwards no lease is listed, and when the block is disconnected
// again the output is available.
func ZzC12ConfirmedConflict() {
	w := &zzLeaseWorld{zzWorld: zzNewWorld(zzU9())}
	w.setClock(true)
	b0 := zzBlock(zzBaseHeight, 0)
	must(w.update(func(ns walletdb.ReadWriteBucket) error { return w.insert(ns, 0, b0) }))
	w.seen[zzBaseHeight] = true
	w.l.mine(0, zzBaseHeight, 0)
	op := wire.OutPoint{Hash: w.txs[0].hash, Index: 0}
	must(w.update(func(ns walletdb.ReadWriteBucket) error {
		_, err := w.store.LockOutput(ns, zzLockID(1), op, 10*time.Minute)
		return err
	}))
	w.l.leaseID[op] = 1
	w.l.leaseExp[op] = w.sec + 600
	if verifrt.Choice(2, "unconfirmed-spender-known") == 1 {
		must(w.update(func(ns walletdb.ReadWriteBucket) error { return w.insert(ns, 1, nil) }))
		w.l.status[1] = zzUnmined
		verifrt.Reach("conflicting-unconfirmed-spender")
	}
	// the replacement confirms
	b1 := zzBlock(zzBaseHeight+1, 0)
	must(w.update(func(ns walletdb.ReadWriteBucket) error { return w.insert(ns, 2, b1) }))
	w.seen[zzBaseHeight+1] = true
	w.l.mine(2, zzBaseHeight+1, 0)
	verifrt.Scope(func() { w.checkLeases("c12-confirmed-conflict-leases") })
	must(w.view(func(ns walletdb.ReadBucket) error {
		ls, err := w.store.ListLockedOutputs(ns)
		must(err)
		verifrt.Assert(len(ls) == 0, "c12-confirmed-spend-removes-the-lease")
		return nil
	}))
	verifrt.Scope(func() { w.checkBalance("c12-confirmed-conflict-balance") })
	// disconnected again: the output is back and not leased
	must(w.update(func(ns walletdb.ReadWriteBucket) error { return w.store.Rollback(ns, zzBaseHeight+1) }))
	w.l.rollback(zzBaseHeight + 1)
	verifrt.Scope(func() { w.checkBalance("c12-after-disconnect-balance") })
	verifrt.Scope(func() { w.checkUnspent("c12-after-disconnect-unspent") })
	verifrt.Reach("c12-end")
}
