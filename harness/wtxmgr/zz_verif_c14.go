//go:build verif

package wtxmgr

import (
	"github.com/btcsuite/btcd/chaincfg/chainhash"
	"github.com/btcsuite/btcd/wire"
	"github.com/btcsuite/btcwallet/walletdb"

	"verif/verifrt"
)

// C14: DependencySort returns every transaction exactly once, parents first,
// for every spend DAG on n transactions (≤ 2 inputs each: external, any
// lower-numbered transaction, or a second edge to the same parent) and every
// iteration order of the two map ranges in kahnsort.go.

func ZzC14Sort2() { zzC14(2) }
func ZzC14Sort3() { zzC14(3) }
func ZzC14Sort4() { zzC14(4) }

func zzC14Graph(n int) ([]*wire.MsgTx, []chainhash.Hash, [][]int) {
	txs := make([]*wire.MsgTx, n)
	hashes := make([]chainhash.Hash, n)
	parents := make([][]int, n)
	shape := ""
	for i := 0; i < n; i++ {
		tx := wire.NewMsgTx(2)
		tx.LockTime = uint32(i + 1)
		tx.AddTxOut(wire.NewTxOut(1000, []byte{0x51}))
		tx.AddTxOut(wire.NewTxOut(2000, []byte{0x51}))
		for slot := 0; slot < 2; slot++ {
			c := verifrt.Choice(i+1, "parent")
			var op wire.OutPoint
			if c == 0 {
				op = wire.OutPoint{Index: uint32(100 + 2*i + slot)}
				op.Hash[0] = 0xee
				op.Hash[1] = byte(i)
			} else {
				op = wire.OutPoint{Hash: hashes[c-1], Index: uint32(slot)}
				parents[i] = append(parents[i], c-1)
			}
			tx.AddTxIn(wire.NewTxIn(&op, nil, nil))
			shape += string(rune('0' + c))
		}
		shape += " "
		txs[i] = tx
		hashes[i] = tx.TxHash()
	}
	verifrt.Note("parents per tx (0=external): " + shape)
	return txs, hashes, parents
}

func zzC14Check(n int, sorted []*wire.MsgTx, hashes []chainhash.Hash, parents [][]int) {
	verifrt.Assert(len(sorted) == n, "c14-length")
	pos := make(map[chainhash.Hash]int)
	for k, tx := range sorted {
		h := tx.TxHash()
		_, dup := pos[h]
		verifrt.Assert(!dup, "c14-no-duplicate")
		pos[h] = k
	}
	for i := 0; i < n; i++ {
		pi, ok := pos[hashes[i]]
		verifrt.Assert(ok, "c14-every-tx-present")
		for _, p := range parents[i] {
			pp, ok2 := pos[hashes[p]]
			verifrt.Assert(ok2 && pp < pi, "c14-parent-first")
		}
	}
	if len(parents[n-1]) > 0 {
		verifrt.Reach("c14-has-edge")
	}
	if len(parents[n-1]) == 2 && parents[n-1][0] == parents[n-1][1] {
		verifrt.Reach("c14-multi-edge")
	}
	verifrt.Reach("c14-end")
}

func zzC14(n int) {
	txs, hashes, parents := zzC14Graph(n)
	set := make(map[chainhash.Hash]*wire.MsgTx)
	for i := range txs {
		set[hashes[i]] = txs[i]
	}
	verifrt.PermuteRanges(true)
	sorted := DependencySort(set)
	verifrt.PermuteRanges(false)
	zzC14Check(n, sorted, hashes, parents)
}

// zzC14Store: the same graphs recorded as unconfirmed transactions of a real
// Store (memdb), each with a chosen set of wallet-credited outputs (none, the
// first, both - dependencies may run through outputs that are NOT wallet
// credits), then Store.UnminedTxs under every map order: the list offered for
// rebroadcast holds every unconfirmed transaction once, parents first.
func zzC14Store(n int) {
	txs, hashes, parents := zzC14Graph(n)
	w := zzNewWorld(nil)
	for i := range txs {
		rec, err := NewTxRecordFromMsgTx(txs[i], w.clock.now)
		must(err)
		credits := verifrt.Choice(3, "credited-outputs")
		must(w.update(func(ns walletdb.ReadWriteBucket) error {
			if err := w.store.InsertTx(ns, rec, nil); err != nil {
				return err
			}
			for o := 0; o < credits; o++ {
				if err := w.store.AddCredit(ns, rec, nil, uint32(o), false); err != nil {
					return err
				}
			}
			return nil
		}))
		if credits == 0 && i < n-1 {
			verifrt.Reach("c14-parent-without-credit")
		}
	}
	var sorted []*wire.MsgTx
	verifrt.PermuteRanges(true)
	must(w.view(func(ns walletdb.ReadBucket) error {
		var err error
		sorted, err = w.store.UnminedTxs(ns)
		return err
	}))
	verifrt.PermuteRanges(false)
	zzC14Check(n, sorted, hashes, parents)
}

func ZzC14Store2() { zzC14Store(2) }
func ZzC14Store3() { zzC14Store(3) }

// zzC14Fixed: DependencySort on a fixed spend graph (parents[i] lists the
// in-set parents of transaction i, all lower-numbered) under every order of
// the map ranges.
func zzC14Fixed(parents [][]int) {
	n := len(parents)
	txs := make([]*wire.MsgTx, n)
	hashes := make([]chainhash.Hash, n)
	for i := 0; i < n; i++ {
		tx := wire.NewMsgTx(2)
		tx.LockTime = uint32(i + 1)
		tx.AddTxOut(wire.NewTxOut(1000, []byte{0x51}))
		tx.AddTxOut(wire.NewTxOut(2000, []byte{0x51}))
		tx.AddTxOut(wire.NewTxOut(3000, []byte{0x51}))
		if len(parents[i]) == 0 {
			op := wire.OutPoint{Index: uint32(100 + i)}
			op.Hash[0] = 0xee
			op.Hash[1] = byte(i)
			tx.AddTxIn(wire.NewTxIn(&op, nil, nil))
		}
		for k, p := range parents[i] {
			// each child spends its own output of the parent
			op := wire.OutPoint{Hash: hashes[p], Index: uint32((i + k) % 3)}
			tx.AddTxIn(wire.NewTxIn(&op, nil, nil))
		}
		txs[i] = tx
		hashes[i] = tx.TxHash()
	}
	set := make(map[chainhash.Hash]*wire.MsgTx)
	for i := range txs {
		set[hashes[i]] = txs[i]
	}
	verifrt.PermuteRanges(true)
	sorted := DependencySort(set)
	verifrt.PermuteRanges(false)
	zzC14Check(n, sorted, hashes, parents)
}

// shapes with several transactions ready at once ("generations" of the Kahn
// loop wider than one) and parents releasing several children
func ZzC14Shapes()    { zzC14Shapes(5) }
func ZzC14ShapesAll() { zzC14Shapes(6) }

func zzC14Shapes(maxN int) {
	all := [][][]int{
		{{}, {}, {0}, {0}},           // two roots, both children hang on the first
		{{}, {}, {1}, {1}},           // ... on the second
		{{}, {0}, {0}, {0}},          // one root releasing three children
		{{}, {}, {0, 1}, {0, 1}},     // two roots, two children spending both
		{{}, {0}, {0}, {1, 2}},       // diamond
		{{}, {}, {0}, {0}, {1}, {1}}, // two roots with two children each
		{{}, {0}, {0}, {1}, {1}},     // a -> x,y ; x -> x1,x2
	}
	var shapes [][][]int
	for _, sh := range all {
		if len(sh) <= maxN {
			shapes = append(shapes, sh)
		}
	}
	zzC14Fixed(shapes[verifrt.Choice(len(shapes), "shape")])
}

// ZzC14StoreConcurrent: a reader lists the unconfirmed transactions in its own
// read transaction while a writer is between recording a new transaction and
// committing; once both are done the list is complete and ordered again.
func ZzC14StoreConcurrent() {
	verifrt.PreemptionBound(2)
	txs, hashes, parents := func() ([]*wire.MsgTx, []chainhash.Hash, [][]int) {
		txs := make([]*wire.MsgTx, 2)
		hashes := make([]chainhash.Hash, 2)
		for i := 0; i < 2; i++ {
			tx := wire.NewMsgTx(2)
			tx.LockTime = uint32(i + 1)
			tx.AddTxOut(wire.NewTxOut(1000, []byte{0x51}))
			var op wire.OutPoint
			if i == 0 {
				op = wire.OutPoint{Index: 100}
				op.Hash[0] = 0xee
			} else {
				op = wire.OutPoint{Hash: hashes[0], Index: 0}
			}
			tx.AddTxIn(wire.NewTxIn(&op, nil, nil))
			txs[i] = tx
			hashes[i] = tx.TxHash()
		}
		return txs, hashes, [][]int{{}, {0}}
	}()
	w := zzNewWorld(nil)
	insert := func(i int, yield bool) {
		rec, err := NewTxRecordFromMsgTx(txs[i], w.clock.now)
		must(err)
		must(w.update(func(ns walletdb.ReadWriteBucket) error {
			if err := w.store.InsertTx(ns, rec, nil); err != nil {
				return err
			}
			if err := w.store.AddCredit(ns, rec, nil, 0, false); err != nil {
				return err
			}
			if yield {
				verifrt.Yield() // recorded, not yet committed
			}
			return nil
		}))
	}
	insert(0, false)
	done := make(chan struct{})
	go func() {
		insert(1, true)
		close(done)
	}()
	// the concurrent reader (resendUnminedTxs runs beside the notification handler)
	must(w.view(func(ns walletdb.ReadBucket) error {
		l, err := w.store.UnminedTxs(ns)
		verifrt.Assert(err == nil && (len(l) == 1 || len(l) == 2), "c14-concurrent-reader-sees-a-committed-state")
		return nil
	}))
	<-done
	var sorted []*wire.MsgTx
	must(w.view(func(ns walletdb.ReadBucket) error {
		var err error
		sorted, err = w.store.UnminedTxs(ns)
		return err
	}))
	zzC14Check(2, sorted, hashes, parents)
}
