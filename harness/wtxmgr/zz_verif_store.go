//go:build verif

package wtxmgr

// Shared harness of the transaction-store family (C01, C02, C12, C13, C10).
//
// A "universe" is a small set of transactions with a concrete spend graph and
// symbolic output amounts. A bounded history of events is applied to the real
// Store over memdb; a ledger model written from the property statements is
// updated beside it, filters chain-inconsistent events, and is the oracle.

import (
	"time"

	"github.com/btcsuite/btcd/btcutil"
	"github.com/btcsuite/btcd/chaincfg"
	"github.com/btcsuite/btcd/chaincfg/chainhash"
	"github.com/btcsuite/btcd/wire"
	"github.com/btcsuite/btcwallet/walletdb"

	"verif/memdb"
	"verif/verifrt"
)

// ---------------------------------------------------------------- universe

type zzIn struct {
	parent int // index into the universe, -1 = external
	idx    uint32
}

type zzTxDef struct {
	name     string
	ins      []zzIn
	nOuts    int
	credits  []int // output indexes credited to the wallet
	change   []bool
	coinbase bool
	zeroOK   bool // output amounts may be 0 (a zero-value credit is consensus-valid)
}

type zzTx struct {
	def  zzTxDef
	msg  *wire.MsgTx
	rec  *TxRecord
	hash chainhash.Hash
	amt  []int64 // per output (symbolic)
}

const zzMaxAmount = 21_000_000 * 100_000_000 / 8 // keeps sums of a universe inside int64

func zzBuildUniverse(defs []zzTxDef) []*zzTx {
	txs := make([]*zzTx, len(defs))
	for i, d := range defs {
		tx := wire.NewMsgTx(1)
		tx.LockTime = uint32(i + 1)
		if d.coinbase {
			op := wire.OutPoint{Index: 0xffffffff}
			tx.AddTxIn(wire.NewTxIn(&op, []byte{0x01, byte(i)}, nil))
		}
		for _, in := range d.ins {
			var op wire.OutPoint
			if in.parent < 0 {
				// an external outpoint is identified by idx alone, so two
				// transactions naming the same idx conflict
				op.Hash[0] = 0xee
				op.Hash[1] = byte(in.idx)
				op.Index = in.idx
			} else {
				op = wire.OutPoint{Hash: txs[in.parent].hash, Index: in.idx}
			}
			tx.AddTxIn(wire.NewTxIn(&op, nil, nil))
		}
		t := &zzTx{def: d, msg: tx}
		for k := 0; k < d.nOuts; k++ {
			a := verifrt.I64("amt")
			if d.zeroOK {
				verifrt.Assume(verifrt.And(a >= 0, a <= zzMaxAmount))
			} else {
				verifrt.Assume(verifrt.And(a >= 1, a <= zzMaxAmount))
			}
			t.amt = append(t.amt, a)
			tx.AddTxOut(wire.NewTxOut(a, []byte{0x51, byte(i), byte(k)}))
		}
		rec, err := NewTxRecordFromMsgTx(tx, time.Unix(1600000000+int64(i), 0))
		if err != nil {
			panic(err)
		}
		t.rec = rec
		t.hash = rec.Hash
		txs[i] = t
	}
	return txs
}

func zzIsCredit(d *zzTxDef, out int) (bool, bool) {
	for k, c := range d.credits {
		if c == out {
			return true, d.change[k]
		}
	}
	return false, false
}

// Universes.
func zzU1() []zzTxDef { // chain A -> B -> C
	return []zzTxDef{
		{name: "A", ins: []zzIn{{-1, 0}}, nOuts: 2, credits: []int{0, 1}, change: []bool{false, true}},
		{name: "B", ins: []zzIn{{0, 0}}, nOuts: 2, credits: []int{0}, change: []bool{true}},
		{name: "C", ins: []zzIn{{1, 0}}, nOuts: 1, credits: []int{0}, change: []bool{false}},
	}
}

func zzU2() []zzTxDef { // fan-out A (three credits), fan-in C spends A:0 and B:0
	return []zzTxDef{
		{name: "A", ins: []zzIn{{-1, 0}}, nOuts: 3, credits: []int{0, 1, 2}, change: []bool{false, false, true}},
		{name: "B", ins: []zzIn{{-1, 1}}, nOuts: 1, credits: []int{0}, change: []bool{false}},
		{name: "C", ins: []zzIn{{0, 0}, {1, 0}}, nOuts: 1, credits: []int{0}, change: []bool{true}},
	}
}

func zzU3() []zzTxDef { // conflict: B and B' both spend A:0; D spends B:0
	return []zzTxDef{
		{name: "A", ins: []zzIn{{-1, 0}}, nOuts: 1, credits: []int{0}, change: []bool{false}},
		{name: "B", ins: []zzIn{{0, 0}}, nOuts: 1, credits: []int{0}, change: []bool{true}},
		{name: "B'", ins: []zzIn{{0, 0}}, nOuts: 2, credits: []int{1}, change: []bool{true}},
		{name: "D", ins: []zzIn{{1, 0}}, nOuts: 1, credits: []int{0}, change: []bool{false}},
	}
}

func zzU4() []zzTxDef { // coinbase CB, S spends CB:0, S2 spends S:0
	return []zzTxDef{
		{name: "CB", coinbase: true, nOuts: 1, credits: []int{0}, change: []bool{false}},
		{name: "S", ins: []zzIn{{0, 0}}, nOuts: 1, credits: []int{0}, change: []bool{true}},
		{name: "S2", ins: []zzIn{{1, 0}}, nOuts: 1, credits: []int{0}, change: []bool{false}},
	}
}

func zzU5() []zzTxDef { // double edge: B spends A:0 and A:1
	return []zzTxDef{
		{name: "A", ins: []zzIn{{-1, 0}}, nOuts: 2, credits: []int{0, 1}, change: []bool{false, false}},
		{name: "B", ins: []zzIn{{0, 0}, {0, 1}}, nOuts: 1, credits: []int{0}, change: []bool{true}},
	}
}

func zzU6() []zzTxDef { // several credits with a non-credit output in between; debit-only spender
	return []zzTxDef{
		// the LOWER-index credit is the change one (flags must not leak to
		// the credits after it)
		{name: "A", ins: []zzIn{{-1, 0}}, nOuts: 3, credits: []int{0, 2}, change: []bool{true, false}},
		{name: "B", ins: []zzIn{{0, 2}, {-1, 5}}, nOuts: 1, credits: nil, change: nil},
		{name: "C", ins: []zzIn{{0, 0}}, nOuts: 2, credits: []int{1}, change: []bool{false}},
	}
}

func zzU7() []zzTxDef { // coinbase with a foreign output 0 and a credit at index 1; both have known spenders
	return []zzTxDef{
		{name: "CB", coinbase: true, nOuts: 2, credits: []int{1}, change: []bool{false}},
		{name: "S", ins: []zzIn{{0, 1}}, nOuts: 1, credits: []int{0}, change: []bool{true}},
		{name: "F", ins: []zzIn{{0, 0}}, nOuts: 1, credits: []int{0}, change: []bool{false}},
	}
}

func zzU8() []zzTxDef { // P pays the wallet and a stranger; R spends the stranger's output back to the wallet; P' conflicts with P
	return []zzTxDef{
		{name: "P", ins: []zzIn{{-1, 0}}, nOuts: 2, credits: []int{0}, change: []bool{true}},
		{name: "R", ins: []zzIn{{0, 1}}, nOuts: 1, credits: []int{0}, change: []bool{false}},
		{name: "P'", ins: []zzIn{{-1, 0}}, nOuts: 1, credits: []int{0}, change: []bool{true}},
	}
}

func zzU9() []zzTxDef { // two conflicting unconfirmed spenders of one credit: B spends A:0; B' spends A:0 and A:1; M spends A:1
	return []zzTxDef{
		{name: "A", ins: []zzIn{{-1, 0}}, nOuts: 2, credits: []int{0, 1}, change: []bool{false, false}},
		{name: "B", ins: []zzIn{{0, 0}}, nOuts: 1, credits: []int{0}, change: []bool{true}},
		{name: "B'", ins: []zzIn{{0, 0}, {0, 1}}, nOuts: 1, credits: []int{0}, change: []bool{true}},
		{name: "M", ins: []zzIn{{0, 1}}, nOuts: 1, credits: []int{0}, change: []bool{false}},
	}
}

// zzU9Preamble: A confirmed, then B and its conflicting replacement B' both
// seen unconfirmed (event codes of pick: see(t)=t, mineNew(t)=n+t).
func zzU9Preamble() []int { return []int{4 + 0, 1, 2} }

// zzU4Preamble: the coinbase confirmed, its spender S seen unconfirmed, then
// the coinbase's block disconnected (the coinbase and S are forgotten).
func zzU4Preamble() []int { return []int{3 + 0, 1, 4*3 + 0} }

func zzU1z() []zzTxDef { // U1 whose first transaction may carry zero-value credits
	d := zzU1()
	d[0].zeroOK = true
	return d
}

// ---------------------------------------------------------------- blocks

// Candidate blocks: heights 100..103, two hashes per height.
const zzBaseHeight = 100

func zzBlock(height int32, variant int) *BlockMeta {
	b := &BlockMeta{Block: Block{Height: height}, Time: time.Unix(1700000000+int64(height)*600, 0)}
	b.Hash[0] = 0xb1
	b.Hash[1] = byte(height)
	b.Hash[2] = byte(variant)
	return b
}

// ---------------------------------------------------------------- ledger

const (
	zzUnknown = 0
	zzUnmined = 1
	zzMined   = 2
)

type zzLedger struct {
	txs     []*zzTx
	status  []int
	height  []int32
	variant []int
	order   []int // position inside its block (for same-block parent ordering)
	tip     int32 // height of the highest connected block (zzBaseHeight-1 = none)
	tipVar  int
	nInTip  int
	// leases: outpoint -> (id, expiry seconds)
	leaseID  map[wire.OutPoint]int
	leaseExp map[wire.OutPoint]int64
}

func zzNewLedger(txs []*zzTx) *zzLedger {
	n := len(txs)
	return &zzLedger{txs: txs, status: make([]int, n), height: make([]int32, n), variant: make([]int, n),
		order: make([]int, n), tip: zzBaseHeight - 1,
		leaseID: map[wire.OutPoint]int{}, leaseExp: map[wire.OutPoint]int64{}}
}

// spenders returns the known transactions spending output (t, out).
func (l *zzLedger) spenders(t int, out uint32, st int) []int {
	var r []int
	for j, x := range l.txs {
		if l.status[j] == zzUnknown || (st != 0 && l.status[j] != st) {
			continue
		}
		for _, in := range x.def.ins {
			if in.parent == t && in.idx == out {
				r = append(r, j)
				break
			}
		}
	}
	return r
}

// conflicts: other transactions sharing an input with t.
func (l *zzLedger) sharesInput(a, b int) bool {
	for _, x := range l.txs[a].def.ins {
		for _, y := range l.txs[b].def.ins {
			if x == y {
				return true
			}
		}
	}
	return false
}

// removeWithDescendants forgets t and every unmined transaction spending its outputs.
func (l *zzLedger) removeWithDescendants(t int) {
	if l.status[t] == zzUnknown {
		return
	}
	l.status[t] = zzUnknown
	for j, x := range l.txs {
		if l.status[j] != zzUnmined {
			continue
		}
		for _, in := range x.def.ins {
			if in.parent == t {
				l.removeWithDescendants(j)
				break
			}
		}
	}
}

// canSeeUnmined: a validating node relays t only if it is not already
// confirmed-conflicted, its in-universe parents are known, and it is not a coinbase.
func (l *zzLedger) canSeeUnmined(t int) bool {
	d := &l.txs[t].def
	if d.coinbase {
		return false
	}
	for _, in := range d.ins {
		if in.parent >= 0 && l.status[in.parent] == zzUnknown {
			return false
		}
		if in.parent >= 0 {
			// the input must not be spent by a confirmed transaction other than t
			for _, s := range l.spenders(in.parent, in.idx, zzMined) {
				if s != t {
					return false
				}
			}
		}
	}
	// not conflicting with a confirmed transaction through a shared external input
	for j := range l.txs {
		if j != t && l.status[j] == zzMined && l.sharesInput(t, j) {
			return false
		}
	}
	return true
}

// canMine: t can be confirmed in the block (height h): parents confirmed at a
// lower height or earlier in the same block; inputs unspent by other confirmed
// transactions; t not already confirmed elsewhere.
func (l *zzLedger) canMine(t int, h int32) bool {
	d := &l.txs[t].def
	if l.status[t] == zzMined {
		return false
	}
	for _, in := range d.ins {
		if in.parent < 0 {
			continue
		}
		if l.status[in.parent] != zzMined || l.height[in.parent] > h {
			return false
		}
		for _, s := range l.spenders(in.parent, in.idx, zzMined) {
			if s != t {
				return false
			}
		}
	}
	for j := range l.txs {
		if j != t && l.status[j] == zzMined && l.sharesInput(t, j) {
			return false
		}
	}
	return true
}

func (l *zzLedger) mine(t int, h int32, variant int) {
	// conflicting unconfirmed transactions and their descendants disappear
	for j := range l.txs {
		if j != t && l.status[j] == zzUnmined && l.sharesInput(t, j) {
			l.removeWithDescendants(j)
		}
	}
	l.status[t] = zzMined
	l.height[t] = h
	l.variant[t] = variant
	if h > l.tip {
		l.tip, l.tipVar, l.nInTip = h, variant, 0
	}
	l.order[t] = l.nInTip
	l.nInTip++
	// a confirmed spend removes the lease on the outputs it spends
	for _, in := range l.txs[t].def.ins {
		if in.parent >= 0 {
			op := wire.OutPoint{Hash: l.txs[in.parent].hash, Index: in.idx}
			delete(l.leaseID, op)
			delete(l.leaseExp, op)
		}
	}
}

func (l *zzLedger) rollback(h int32) {
	// coinbases of disconnected blocks vanish with everything depending on them
	for j := range l.txs {
		if l.status[j] == zzMined && l.height[j] >= h && !l.txs[j].def.coinbase {
			l.status[j] = zzUnmined
		}
	}
	for j := range l.txs {
		if l.status[j] == zzMined && l.height[j] >= h && l.txs[j].def.coinbase {
			l.status[j] = zzUnmined // so that removeWithDescendants treats it uniformly
			l.removeWithDescendants(j)
		}
	}
	if l.tip >= h {
		l.tip = h - 1
		if l.tip < zzBaseHeight-1 {
			l.tip = zzBaseHeight - 1
		}
		// the new tip is whatever block is still connected at that height
		l.tipVar, l.nInTip = 0, 0
		for j := range l.txs {
			if l.status[j] == zzMined && l.height[j] == l.tip {
				l.tipVar = l.variant[j]
				l.nInTip++
			}
		}
	}
}

// ---------------------------------------------------------------- store under test

type zzClock struct{ now time.Time }

func (c *zzClock) Now() time.Time                        { return c.now }
func (c *zzClock) TickAfter(time.Duration) <-chan time.Time { return nil }

var zzNS = []byte("wtxmgr")

type zzWorld struct {
	forced []int // event codes of a fixed preamble, consumed by pick
	db     *memdb.DB
	store  *Store
	clock  *zzClock
	params *chaincfg.Params
	txs    []*zzTx
	l      *zzLedger
	last   *zzEvent // last event, for repeated delivery
	seen   map[int32]bool
}

func zzNewWorld(defs []zzTxDef) *zzWorld {
	w := &zzWorld{db: memdb.New(), seen: map[int32]bool{}}
	w.params = &chaincfg.Params{CoinbaseMaturity: verifrt.U16("maturity")}
	w.clock = &zzClock{now: time.Unix(1750000000, 0)}
	err := walletdb.Update(w.db, func(tx walletdb.ReadWriteTx) error {
		ns, err := tx.CreateTopLevelBucket(zzNS)
		if err != nil {
			return err
		}
		return Create(ns)
	})
	if err != nil {
		panic(err)
	}
	w.open()
	w.txs = zzBuildUniverse(defs)
	w.l = zzNewLedger(w.txs)
	return w
}

// open (re)opens the store from the database: a restart.
func (w *zzWorld) open() {
	err := walletdb.View(w.db, func(tx walletdb.ReadTx) error {
		s, err := Open(tx.ReadBucket(zzNS), w.params)
		if err != nil {
			return err
		}
		w.store = s
		return nil
	})
	if err != nil {
		panic(err)
	}
	w.store.clock = w.clock
}

func (w *zzWorld) update(f func(ns walletdb.ReadWriteBucket) error) error {
	return walletdb.Update(w.db, func(tx walletdb.ReadWriteTx) error {
		return f(tx.ReadWriteBucket(zzNS))
	})
}

func (w *zzWorld) view(f func(ns walletdb.ReadBucket) error) error {
	return walletdb.View(w.db, func(tx walletdb.ReadTx) error {
		return f(tx.ReadBucket(zzNS))
	})
}

// insert records t (unmined if block == nil) together with its credits, the
// way wallet.addRelevantTx does.
func (w *zzWorld) insert(ns walletdb.ReadWriteBucket, t int, block *BlockMeta) error {
	x := w.txs[t]
	if err := w.store.InsertTx(ns, x.rec, block); err != nil {
		return err
	}
	for k, out := range x.def.credits {
		if err := w.store.AddCredit(ns, x.rec, block, uint32(out), x.def.change[k]); err != nil {
			return err
		}
	}
	return nil
}

// zzEvent is one chosen event: apply runs the store operation inside one
// database transaction and returns its error; model updates the ledger.
type zzEvent struct {
	name  string
	apply func(w *zzWorld) error
	model func()
}

// pick chooses one event among the chain-consistent ones (nil = the chosen
// alternative is not enabled and the path is dropped).
func (w *zzWorld) pick(allowRepeat bool) *zzEvent {
	n := len(w.txs)
	l := w.l
	// event menu: see(t) | mineNew(t) | mineSame(t) | remove(t) | rollback(k) | redeliver(t) | repeat
	nEv := 5*n + 4
	if allowRepeat {
		nEv++
	}
	var c int
	if len(w.forced) > 0 {
		// a fixed preamble of the history (the entry point says which)
		c, w.forced = w.forced[0], w.forced[1:]
	} else {
		c = verifrt.Choice(nEv, "event")
	}
	switch {
	case c < n:
		t := c
		if !l.canSeeUnmined(t) {
			return nil
		}
		return &zzEvent{
			name:  "see " + w.txs[t].def.name,
			apply: func(w *zzWorld) error { return w.update(func(ns walletdb.ReadWriteBucket) error { return w.insert(ns, t, nil) }) },
			model: func() {
				if l.status[t] == zzUnknown {
					l.status[t] = zzUnmined
				}
			},
		}
	case c < 2*n:
		// confirm in a new block on top of the tip; the block hash variant is
		// 0 unless a block of that height was disconnected before (then 1)
		t := c - n
		h := l.tip + 1
		if h > zzBaseHeight+3 || !l.canMine(t, h) {
			return nil
		}
		variant := 0
		if w.hadBlock(h) {
			variant = 1
		}
		b := zzBlock(h, variant)
		return &zzEvent{
			name:  "mine " + w.txs[t].def.name + " in new block " + string(rune('0'+h-zzBaseHeight)),
			apply: func(w *zzWorld) error { return w.update(func(ns walletdb.ReadWriteBucket) error { return w.insert(ns, t, b) }) },
			model: func() {
				if l.status[t] != zzMined {
					w.seen[h] = true
					l.mine(t, h, variant)
				}
			},
		}
	case c < 3*n:
		// confirm in the current tip block (a block with several wallet txs)
		t := c - 2*n
		h := l.tip
		if h < zzBaseHeight || l.nInTip == 0 || !l.canMine(t, h) {
			return nil
		}
		variant := l.tipVar
		b := zzBlock(h, variant)
		return &zzEvent{
			name:  "mine " + w.txs[t].def.name + " in tip block",
			apply: func(w *zzWorld) error { return w.update(func(ns walletdb.ReadWriteBucket) error { return w.insert(ns, t, b) }) },
			model: func() {
				if l.status[t] != zzMined {
					l.mine(t, h, variant)
				}
			},
		}
	case c < 4*n:
		t := c - 3*n
		if l.status[t] != zzUnmined {
			return nil
		}
		return &zzEvent{
			name: "abandon " + w.txs[t].def.name,
			apply: func(w *zzWorld) error {
				return w.update(func(ns walletdb.ReadWriteBucket) error { return w.store.RemoveUnminedTx(ns, w.txs[t].rec) })
			},
			model: func() { l.removeWithDescendants(t) },
		}
	case c < 4*n+4:
		// disconnect every block at height >= h
		h := int32(zzBaseHeight + (c - 4*n))
		if h > l.tip+1 || (h == l.tip+1 && l.tip == zzBaseHeight-1) {
			return nil
		}
		if h <= l.tip {
			verifrt.Reach("reorg")
		}
		return &zzEvent{
			name: "rollback to " + string(rune('0'+h-zzBaseHeight)),
			apply: func(w *zzWorld) error {
				return w.update(func(ns walletdb.ReadWriteBucket) error { return w.store.Rollback(ns, h) })
			},
			model: func() { l.rollback(h) },
		}
	case c < 5*n+4:
		// the confirmation of an already confirmed transaction is delivered
		// again (rescan, duplicate notification): same block, same credits
		t := c - (4*n + 4)
		if l.status[t] != zzMined {
			return nil
		}
		b := zzBlock(l.height[t], l.variant[t])
		verifrt.Reach("redeliver")
		return &zzEvent{
			name:  "redeliver " + w.txs[t].def.name,
			apply: func(w *zzWorld) error { return w.update(func(ns walletdb.ReadWriteBucket) error { return w.insert(ns, t, b) }) },
			model: func() {},
		}
	default:
		if w.last == nil {
			return nil
		}
		verifrt.Reach("repeat")
		return &zzEvent{name: "repeat (" + w.last.name + ")", apply: w.last.apply, model: w.last.model}
	}
}

// step picks and applies one event; false = not enabled.
func (w *zzWorld) step(allowRepeat bool) bool {
	ev := w.pick(allowRepeat)
	if ev == nil {
		return false
	}
	verifrt.Note(ev.name)
	must(ev.apply(w))
	ev.model()
	w.last = ev
	return true
}

func must(err error) {
	if err != nil {
		panic(err)
	}
}

func (w *zzWorld) hadBlock(h int32) bool { return w.seen[h] }

// ---------------------------------------------------------------- oracle

// expectBalance is the statement of C01 evaluated on the ledger, without
// branching on symbolic data.
func (w *zzWorld) expectBalance(minConf, syncHeight int32, nowSec int64) int64 {
	l := w.l
	maturity := int32(w.params.CoinbaseMaturity)
	var sum int64
	for t, x := range w.txs {
		if l.status[t] == zzUnknown {
			continue
		}
		for _, out := range x.def.credits {
			if len(l.spenders(t, uint32(out), 0)) > 0 {
				continue
			}
			op := wire.OutPoint{Hash: x.hash, Index: uint32(out)}
			leased := false
			if exp, ok := l.leaseExp[op]; ok {
				leased = nowSec < exp
			}
			var ok bool
			if l.status[t] == zzMined {
				confs := syncHeight - l.height[t] + 1
				ok = confs >= minConf
				if x.def.coinbase {
					ok = verifrt.And(ok, confs >= maturity)
				}
			} else {
				ok = minConf == 0
			}
			ok = verifrt.And(ok, verifrt.Not(leased))
			ok = verifrt.And(ok, x.amt[out] > 0)
			sum += verifrt.IteI64(ok, x.amt[out], 0)
		}
	}
	return sum
}

// checkBalance asserts C01's balance clause for fresh symbolic minConf and
// syncHeight; run inside a Scope.
func (w *zzWorld) checkBalance(label string) {
	minConf := verifrt.I32("minConf")
	syncHeight := verifrt.I32("syncHeight")
	verifrt.Assume(verifrt.And(minConf >= 0, minConf <= 1<<30))
	tip := w.l.tip
	if tip < zzBaseHeight {
		tip = zzBaseHeight
	}
	verifrt.Assume(verifrt.And(syncHeight >= tip, syncHeight <= 1<<30))
	var bal btcutil.Amount
	must(w.view(func(ns walletdb.ReadBucket) error {
		var err error
		bal, err = w.store.Balance(ns, minConf, syncHeight)
		return err
	}))
	exp := w.expectBalance(minConf, syncHeight, w.clock.now.Unix())
	verifrt.Assert(int64(bal) == exp, label)
}

// checkUnspent asserts that UnspentOutputs is exactly the credited, unspent,
// unleased outputs, each with amount, block, coinbase flag and script.
func (w *zzWorld) checkUnspent(label string) {
	l := w.l
	var creds []Credit
	must(w.view(func(ns walletdb.ReadBucket) error {
		var err error
		creds, err = w.store.UnspentOutputs(ns)
		return err
	}))
	nowSec := w.clock.now.Unix()
	want := 0
	for t, x := range w.txs {
		if l.status[t] == zzUnknown {
			continue
		}
		for _, out := range x.def.credits {
			if len(l.spenders(t, uint32(out), 0)) > 0 {
				continue
			}
			op := wire.OutPoint{Hash: x.hash, Index: uint32(out)}
			if exp, ok := l.leaseExp[op]; ok && nowSec < exp {
				continue
			}
			want++
			found := 0
			for _, c := range creds {
				if c.OutPoint != op {
					continue
				}
				found++
				verifrt.Assert(int64(c.Amount) == x.amt[out], label+"-amount")
				if l.status[t] == zzMined {
					b := zzBlock(l.height[t], l.variant[t])
					verifrt.Assert(c.BlockMeta.Block.Height == l.height[t] && c.BlockMeta.Block.Hash == b.Hash, label+"-block")
					verifrt.Assert(c.BlockMeta.Time.Equal(b.Time), label+"-blocktime")
				} else {
					verifrt.Assert(c.BlockMeta.Block.Height == -1, label+"-unmined-height")
				}
				verifrt.Assert(c.FromCoinBase == x.def.coinbase, label+"-coinbase-flag")
				verifrt.Assert(len(c.PkScript) == 3 && c.PkScript[1] == byte(t) && c.PkScript[2] == byte(out), label+"-pkscript")
			}
			verifrt.Assert(found == 1, label+"-present-once")
		}
	}
	verifrt.Assert(len(creds) == want, label+"-count")
}

// ---------------------------------------------------------------- C13 / C02 observations

// wantDetails checks one TxDetails value against the ledger.
func (w *zzWorld) wantDetails(d *TxDetails, t int, label string) {
	l := w.l
	x := w.txs[t]
	verifrt.Assert(d.Hash == x.hash, label+"-hash")
	if l.status[t] == zzMined {
		b := zzBlock(l.height[t], l.variant[t])
		verifrt.Assert(d.Block.Height == l.height[t] && d.Block.Hash == b.Hash, label+"-block")
		verifrt.Assert(d.Block.Time.Equal(b.Time), label+"-blocktime")
	} else {
		verifrt.Assert(d.Block.Height == -1, label+"-unmined-height")
	}
	verifrt.Assert(len(d.MsgTx.TxOut) == x.def.nOuts && len(d.MsgTx.TxIn) == len(x.msg.TxIn), label+"-msgtx-shape")
	// credits: exactly the credited outputs, with amount, change and spent flags
	verifrt.Assert(len(d.Credits) == len(x.def.credits), label+"-credit-count")
	for k, out := range x.def.credits {
		found := 0
		for _, c := range d.Credits {
			if int(c.Index) != out {
				continue
			}
			found++
			verifrt.Assert(int64(c.Amount) == x.amt[out], label+"-credit-amount")
			verifrt.Assert(c.Change == x.def.change[k], label+"-credit-change")
			spent := len(l.spenders(t, uint32(out), 0)) > 0
			verifrt.Assert(c.Spent == spent, label+"-credit-spent")
		}
		verifrt.Assert(found == 1, label+"-credit-once")
	}
	// debits: exactly the inputs that spend wallet credits, with the amount
	want := 0
	for k, in := range x.def.ins {
		if in.parent < 0 {
			continue
		}
		isCred, _ := zzIsCredit(&w.txs[in.parent].def, int(in.idx))
		if !isCred || l.status[in.parent] == zzUnknown {
			continue
		}
		want++
		idx := uint32(k)
		if x.def.coinbase {
			idx++
		}
		found := 0
		for _, db := range d.Debits {
			if db.Index != idx {
				continue
			}
			found++
			verifrt.Assert(int64(db.Amount) == w.txs[in.parent].amt[in.idx], label+"-debit-amount")
		}
		verifrt.Assert(found == 1, label+"-debit-once")
	}
	verifrt.Assert(len(d.Debits) == want, label+"-debit-count")
}

// checkDetails: direct lookups (TxDetails, UniqueTxDetails) for every
// transaction of the universe and every candidate block, the unmined hash
// list, and the dependency order of UnminedTxs.
func (w *zzWorld) checkDetails(label string) {
	l := w.l
	must(w.view(func(ns walletdb.ReadBucket) error {
		for t, x := range w.txs {
			d, err := w.store.TxDetails(ns, &x.hash)
			must(err)
			if l.status[t] == zzUnknown {
				verifrt.Assert(d == nil, label+"-removed-not-reported")
			} else {
				verifrt.Assert(d != nil, label+"-known-reported")
				if d != nil {
					w.wantDetails(d, t, label)
				}
			}
			// previous output scripts: for exactly those inputs that spend a
			// wallet credit of a known transaction, in input order
			if l.status[t] != zzUnknown {
				var blk *Block
				if l.status[t] == zzMined {
					blk = &zzBlock(l.height[t], l.variant[t]).Block
				}
				got, err := w.store.PreviousPkScripts(ns, x.rec, blk)
				must(err)
				var want [][]byte
				for _, in := range x.def.ins {
					if in.parent < 0 || l.status[in.parent] == zzUnknown {
						continue
					}
					if isC, _ := zzIsCredit(&w.txs[in.parent].def, int(in.idx)); isC {
						want = append(want, []byte{0x51, byte(in.parent), byte(in.idx)})
					}
				}
				okScripts := len(got) == len(want)
				for k := 0; okScripts && k < len(want); k++ {
					okScripts = len(got[k]) == 3 && got[k][0] == want[k][0] && got[k][1] == want[k][1] && got[k][2] == want[k][2]
				}
				verifrt.Assert(okScripts, label+"-previous-pkscripts")
			}
			// unique lookups: unmined slot and every candidate block
			u, err := w.store.UniqueTxDetails(ns, &x.hash, nil)
			must(err)
			verifrt.Assert((u != nil) == (l.status[t] == zzUnmined), label+"-unique-unmined")
			for h := int32(zzBaseHeight); h <= zzBaseHeight+3; h++ {
				for v := 0; v < 2; v++ {
					b := zzBlock(h, v)
					u, err := w.store.UniqueTxDetails(ns, &x.hash, &b.Block)
					must(err)
					here := l.status[t] == zzMined && l.height[t] == h && l.variant[t] == v
					verifrt.Assert((u != nil) == here, label+"-unique-block")
					if u != nil && here {
						w.wantDetails(u, t, label+"-u")
					}
				}
			}
		}
		// unmined hashes
		hs, err := w.store.UnminedTxHashes(ns)
		must(err)
		n := 0
		for t := range w.txs {
			if l.status[t] == zzUnmined {
				n++
				found := 0
				for _, h := range hs {
					if *h == w.txs[t].hash {
						found++
					}
				}
				verifrt.Assert(found == 1, label+"-unmined-hash-once")
			}
		}
		verifrt.Assert(len(hs) == n, label+"-unmined-hash-count")
		// rebroadcast order: every unmined tx once, parents first
		txs, err := w.store.UnminedTxs(ns)
		must(err)
		verifrt.Assert(len(txs) == n, label+"-unminedtxs-count")
		pos := map[chainhash.Hash]int{}
		for k, m := range txs {
			pos[m.TxHash()] = k
		}
		for t, x := range w.txs {
			if l.status[t] != zzUnmined {
				continue
			}
			pt, ok := pos[x.hash]
			verifrt.Assert(ok, label+"-unminedtxs-present")
			for _, in := range x.def.ins {
				if in.parent >= 0 && l.status[in.parent] == zzUnmined {
					pp, ok2 := pos[w.txs[in.parent].hash]
					verifrt.Assert(ok2 && pp < pt, label+"-unminedtxs-parent-first")
				}
			}
		}
		return nil
	}))
}

// checkRange: RangeTransactions over a symbolic [begin, end] (either
// direction, -1 = unmined) reports every known transaction in range exactly
// once, at its current status; run inside a Scope.
func (w *zzWorld) checkRange(label string) {
	l := w.l
	begin := verifrt.I32("begin")
	end := verifrt.I32("end")
	verifrt.Assume(verifrt.And(begin >= -1, begin <= zzBaseHeight+5))
	verifrt.Assume(verifrt.And(end >= -1, end <= zzBaseHeight+5))
	count := make([]int, len(w.txs))
	var heights []int32
	must(w.view(func(ns walletdb.ReadBucket) error {
		return w.store.RangeTransactions(ns, begin, end, func(ds []TxDetails) (bool, error) {
			verifrt.Assert(len(ds) > 0, label+"-nonempty-batch")
			h := ds[0].Block.Height
			heights = append(heights, h)
			for k := range ds {
				d := &ds[k]
				verifrt.Assert(d.Block.Height == h, label+"-batch-one-block")
				known := false
				for t, x := range w.txs {
					if d.Hash == x.hash {
						known = true
						count[t]++
						verifrt.Assert(l.status[t] != zzUnknown, label+"-removed-not-reported")
						if l.status[t] != zzUnknown {
							w.wantDetails(d, t, label)
						}
					}
				}
				verifrt.Assert(known, label+"-only-known")
			}
			return false, nil
		})
	}))
	// effective bounds as documented: negative = unmined / up to the end
	lo, hi := begin, end
	fwd := true
	unminedIn := verifrt.Or(begin < 0, end < 0)
	if begin < 0 {
		lo = 1 << 30
	}
	if end < 0 {
		hi = 1 << 30
	}
	if lo > hi {
		lo, hi = hi, lo
		fwd = false
	}
	for t := range w.txs {
		switch l.status[t] {
		case zzUnknown:
			verifrt.Assert(count[t] == 0, label+"-unknown-absent")
		case zzUnmined:
			verifrt.Assert((count[t] == 1) == unminedIn && count[t] <= 1, label+"-unmined-once")
		case zzMined:
			in := l.height[t] >= lo && l.height[t] <= hi
			verifrt.Assert((count[t] == 1) == in && count[t] <= 1, label+"-mined-once")
		}
	}
	// block order
	for k := 1; k < len(heights); k++ {
		a, b := heights[k-1], heights[k]
		if a == -1 || b == -1 {
			continue
		}
		if fwd {
			verifrt.Assert(a < b, label+"-ascending")
		} else {
			verifrt.Assert(a > b, label+"-descending")
		}
	}
	if begin > end && end >= 0 {
		verifrt.Reach("range-backwards")
	}
	if begin < 0 {
		verifrt.Reach("range-unmined-first")
	}
}

// rebuild constructs a second store directly from the final facts of the
// ledger (confirmed transactions block by block, then unconfirmed ones in
// dependency order) – the "direct construction" of C02.
func (w *zzWorld) rebuild() *zzWorld {
	w2 := &zzWorld{db: memdb.New(), seen: map[int32]bool{}, params: w.params, clock: w.clock, txs: w.txs, l: w.l}
	must(walletdb.Update(w2.db, func(tx walletdb.ReadWriteTx) error {
		ns, err := tx.CreateTopLevelBucket(zzNS)
		if err != nil {
			return err
		}
		return Create(ns)
	}))
	w2.open()
	l := w.l
	for h := int32(zzBaseHeight); h <= zzBaseHeight+3; h++ {
		for ord := 0; ord < len(w.txs); ord++ {
			for t := range w.txs {
				if l.status[t] == zzMined && l.height[t] == h && l.order[t] == ord {
					b := zzBlock(h, l.variant[t])
					must(w2.update(func(ns walletdb.ReadWriteBucket) error { return w2.insert(ns, t, b) }))
				}
			}
		}
	}
	for t := range w.txs {
		if l.status[t] == zzUnmined {
			must(w2.update(func(ns walletdb.ReadWriteBucket) error { return w2.insert(ns, t, nil) }))
		}
	}
	return w2
}

// checkSameBalance: both stores report the same balance for the same fresh
// minConf and syncHeight; run inside a Scope.
func zzCheckSameBalance(a, b *zzWorld, label string) {
	minConf := verifrt.I32("minConf")
	syncHeight := verifrt.I32("syncHeight")
	verifrt.Assume(verifrt.And(minConf >= 0, minConf <= 1<<30))
	tip := a.l.tip
	if tip < zzBaseHeight {
		tip = zzBaseHeight
	}
	verifrt.Assume(verifrt.And(syncHeight >= tip, syncHeight <= 1<<30))
	var b1, b2 btcutil.Amount
	must(a.view(func(ns walletdb.ReadBucket) error {
		var err error
		b1, err = a.store.Balance(ns, minConf, syncHeight)
		return err
	}))
	must(b.view(func(ns walletdb.ReadBucket) error {
		var err error
		b2, err = b.store.Balance(ns, minConf, syncHeight)
		return err
	}))
	verifrt.Assert(b1 == b2, label)
}
