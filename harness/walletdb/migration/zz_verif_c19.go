//go:build verif

package migration

import (
	"errors"

	"github.com/btcsuite/btcwallet/walletdb"

	"verif/verifrt"
)

// C19 (generic manager): Upgrade over a version table of length n with
// SYMBOLIC version numbers (any order, nil migrations allowed), a symbolic
// stored version, a migration failing at a symbolic number and an optional
// SetVersion failure.

var zzErrMig = errors.New("migration failed")
var zzErrSet = errors.New("set version failed")

type zzMgr struct {
	table   []Version
	stored  uint32
	failSet bool
	sets    []uint32
	reads   int
}

func (m *zzMgr) Name() string                                       { return "zz" }
func (m *zzMgr) Namespace() walletdb.ReadWriteBucket                { return nil }
func (m *zzMgr) CurrentVersion(walletdb.ReadBucket) (uint32, error) { m.reads++; return m.stored, nil }
func (m *zzMgr) SetVersion(_ walletdb.ReadWriteBucket, v uint32) error {
	if m.failSet {
		return zzErrSet
	}
	m.stored = v
	m.sets = append(m.sets, v)
	return nil
}
func (m *zzMgr) Versions() []Version { return m.table }

func zzC19(n int) { zzC19R(n, 1) }

// zzC19R runs `rounds` upgrades with the SAME manager and version table (the
// real managers hand out a package-level table on every call), each from a
// fresh symbolic stored version: the statement must hold for every one of
// them, so a table damaged by an earlier call is noticed.
func zzC19R(n, rounds int) {
	var log []uint32
	failAt := verifrt.U32("failAt")
	nums := make([]uint32, n)
	nonNil := make([]bool, n)
	table := make([]Version, n)
	for k := 0; k < n; k++ {
		num := verifrt.U32("number")
		for j := 0; j < k; j++ {
			verifrt.Assume(num != nums[j])
		}
		nums[k] = num
		nonNil[k] = verifrt.Choice(2, "nil-migration") == 0
		table[k] = Version{Number: num}
		if nonNil[k] {
			table[k].Migration = func(walletdb.ReadWriteBucket) error {
				log = append(log, num)
				if num == failAt {
					return zzErrMig
				}
				return nil
			}
		}
	}
	m := &zzMgr{table: table}
	for round := 0; round < rounds; round++ {
		stored0 := verifrt.U32("stored")
		log = nil
		m.stored, m.sets, m.failSet = stored0, nil, verifrt.Choice(2, "set-fails") == 1
		if round > 0 {
			verifrt.Reach("second-upgrade-with-the-same-table")
		}

		err := Upgrade(m)

		// the statement, evaluated without branching
		var max uint32
		for k := 0; k < n; k++ {
			max = verifrt.IteU32(nums[k] > max, nums[k], max)
		}
		// applies_k: migration k is pending (number above the stored version)
		pending := 0
		var expectRun int64
		failing := false // a pending non-nil migration carries the failing number
		for k := 0; k < n; k++ {
			p := nums[k] > stored0
			if nonNil[k] {
				// it runs unless an earlier (smaller-numbered) pending migration failed
				blocked := false
				for j := 0; j < n; j++ {
					if nonNil[j] {
						blocked = verifrt.Or(blocked, verifrt.And(verifrt.And(nums[j] > stored0, nums[j] < nums[k]), nums[j] == failAt))
					}
				}
				runs := verifrt.And(p, verifrt.Not(blocked))
				expectRun += verifrt.IteI64(runs, 1, 0)
				failing = verifrt.Or(failing, verifrt.And(p, nums[k] == failAt))
			}
			_ = pending
		}
		if n == 0 {
			verifrt.Assert(err == nil && len(log) == 0 && len(m.sets) == 0, "c19-empty-table")
			return
		}
		// the declared table is still the declared set of versions (it may have
		// been sorted in place)
		for j := 0; j < n; j++ {
			in := false
			for k := 0; k < n; k++ {
				in = verifrt.Or(in, m.table[k].Number == nums[j])
			}
			verifrt.Assert(in, "c19-version-table-still-holds-every-declared-version")
		}
		reversion := stored0 > max
		verifrt.Assert((err == ErrReversion) == reversion, "c19-newer-version-refused")
		if err == ErrReversion {
			verifrt.Assert(len(log) == 0 && len(m.sets) == 0 && m.stored == stored0, "c19-refused-untouched")
			verifrt.Reach("reversion")
			continue
		}
		// exactly the pending non-nil migrations ran (up to a failure), once each, ascending
		verifrt.Assert(int64(len(log)) == expectRun, "c19-exactly-pending-run")
		for k := range log {
			verifrt.Assert(log[k] > stored0, "c19-only-above-stored")
			if k > 0 {
				verifrt.Assert(log[k-1] < log[k], "c19-ascending-once")
			}
			in := false
			for j := 0; j < n; j++ {
				in = verifrt.Or(in, verifrt.And(nonNil[j], log[k] == nums[j]))
			}
			verifrt.Assert(in, "c19-from-table")
		}
		if err == nil {
			verifrt.Assert(verifrt.Not(failing), "c19-failure-reported")
			verifrt.Assert(m.stored == max || (stored0 == max && len(m.sets) == 0), "c19-latest-recorded")
			verifrt.Assert(len(m.sets) <= 1, "c19-version-set-once")
			if len(log) > 1 {
				verifrt.Reach("two-migrations")
			}
			verifrt.Reach("upgraded")
		} else {
			verifrt.Assert(m.stored == stored0 && len(m.sets) == 0, "c19-failure-leaves-version")
			verifrt.Assert(verifrt.Or(failing, m.failSet), "c19-error-only-on-failure")
			if err == zzErrMig {
				verifrt.Assert(len(log) > 0 && log[len(log)-1] == failAt, "c19-stops-at-failure")
				verifrt.Reach("migration-failed")
			}
		}
	}
	verifrt.Reach("c19-end")
}

func ZzC19N1()   { zzC19(1) }
func ZzC19N2()   { zzC19(2) }
func ZzC19N3()   { zzC19(3) }
func ZzC19N4()   { zzC19(4) }
func ZzC19N2R2() { zzC19R(2, 2) }
func ZzC19N3R2() { zzC19R(3, 2) }
