//go:build verif

package bdb

import (
	"errors"
	"os"
	"path/filepath"
	"time"

	"github.com/btcsuite/btcwallet/walletdb"
	"go.etcd.io/bbolt"

	"verif/memdb"
	"verif/verifrt"
)

// C11: the walletdb/bdb adapter. Under the symbolic executor bbolt itself is
// replaced by "mbolt", a model of bbolt's documented API contract installed
// with verifrt.StubFunc (bbolt's file format, mmap and durability cannot be
// encoded); natively the very same harness runs against a real bbolt file,
// which validates the model on every replayed path.

// ---------------------------------------------------------------- mbolt

type mTx struct {
	db       *mDB
	root     *memdb.Tree
	writable bool
	done     bool
	handlers []func()
}

type mDB struct {
	root   *memdb.Tree
	writer bool
	closed bool
}

type mBucket struct {
	tx   *bbolt.Tx
	tree *memdb.Tree
}

type mCursor struct {
	b   *mBucket
	pos int
	set bool
}

type mbolt struct {
	dbs     map[*bbolt.DB]*mDB
	txs     map[*bbolt.Tx]*mTx
	buckets map[*bbolt.Bucket]*mBucket
	cursors map[*bbolt.Cursor]*mCursor
	// Batch: another caller's function that bbolt coalesces into the same
	// transaction as the next Batch call (before or after it)
	batchMate  func(*bbolt.Tx) error
	mateFirst  bool
}

const zzB = "(*go.etcd.io/bbolt."

func cpb(b []byte) []byte {
	if b == nil {
		return nil
	}
	return append([]byte{}, b...)
}

func zzInstallMbolt() *mbolt {
	m := &mbolt{dbs: map[*bbolt.DB]*mDB{}, txs: map[*bbolt.Tx]*mTx{}, buckets: map[*bbolt.Bucket]*mBucket{}, cursors: map[*bbolt.Cursor]*mCursor{}}
	newBucket := func(tx *bbolt.Tx, t *memdb.Tree) *bbolt.Bucket {
		b := &bbolt.Bucket{}
		m.buckets[b] = &mBucket{tx: tx, tree: t}
		return b
	}
	lookup := func(tx *bbolt.Tx, t *memdb.Tree, key []byte) *bbolt.Bucket {
		i, ok := t.Seek(key)
		if !ok {
			return nil
		}
		_, _, sub := t.At(i)
		if sub == nil {
			return nil
		}
		return newBucket(tx, sub)
	}
	create := func(tx *bbolt.Tx, t *memdb.Tree, key []byte, ifNotExists bool) (*bbolt.Bucket, error) {
		mt := m.txs[tx]
		if mt.done {
			return nil, bbolt.ErrTxClosed
		}
		if !mt.writable {
			return nil, bbolt.ErrTxNotWritable
		}
		if len(key) == 0 {
			return nil, bbolt.ErrBucketNameRequired
		}
		if i, ok := t.Seek(key); ok {
			_, _, sub := t.At(i)
			if sub == nil {
				return nil, bbolt.ErrIncompatibleValue
			}
			if ifNotExists {
				return newBucket(tx, sub), nil
			}
			return nil, bbolt.ErrBucketExists
		}
		return newBucket(tx, t.PutBucket(key)), nil
	}
	deleteBucket := func(tx *bbolt.Tx, t *memdb.Tree, key []byte) error {
		mt := m.txs[tx]
		if mt.done {
			return bbolt.ErrTxClosed
		}
		if !mt.writable {
			return bbolt.ErrTxNotWritable
		}
		i, ok := t.Seek(key)
		if !ok {
			return bbolt.ErrBucketNotFound
		}
		if _, _, sub := t.At(i); sub == nil {
			return bbolt.ErrIncompatibleValue
		}
		t.RemoveAt(i)
		return nil
	}

	// DB
	verifrt.StubFunc(zzB+"DB).Begin", func(d *bbolt.DB, writable bool) (*bbolt.Tx, error) {
		md := m.dbs[d]
		if md.closed {
			return nil, bbolt.ErrDatabaseNotOpen
		}
		tx := &bbolt.Tx{}
		mt := &mTx{db: md, writable: writable, root: md.root}
		if writable {
			if md.writer {
				panic("mbolt: Begin(true) while another write transaction is open (the real bbolt would block forever)")
			}
			md.writer = true
			mt.root = md.root.Clone()
		}
		m.txs[tx] = mt
		return tx, nil
	})
	// Batch, as bbolt documents and implements it (batch.run): the functions
	// of the coalesced callers run in ONE managed update; if one fails the
	// whole transaction is rolled back, the failing function is taken out
	// (its submitter re-runs it alone) and the others are run AGAIN in a
	// fresh transaction - "fn may be called multiple times"
	verifrt.StubFunc(zzB+"DB).Batch", func(d *bbolt.DB, fn func(*bbolt.Tx) error) error {
		if m.batchMate == nil {
			return d.Update(fn)
		}
		mate := m.batchMate
		m.batchMate = nil
		type call struct {
			fn   func(*bbolt.Tx) error
			mine bool
		}
		calls := []call{{fn, true}, {mate, false}}
		if m.mateFirst {
			calls = []call{{mate, false}, {fn, true}}
		}
		for len(calls) > 0 {
			failIdx := -1
			err := d.Update(func(tx *bbolt.Tx) error {
				for i, c := range calls {
					if err := c.fn(tx); err != nil {
						failIdx = i
						return err
					}
				}
				return nil
			})
			if failIdx < 0 {
				return err
			}
			failed := calls[failIdx]
			calls = append(calls[:failIdx:failIdx], calls[failIdx+1:]...)
			if failed.mine {
				// the other member is re-run as its own batch, this caller
				// re-runs its function alone
				for _, c := range calls {
					_ = d.Update(c.fn)
				}
				return d.Update(fn)
			}
		}
		return nil
	})
	verifrt.StubFunc(zzB+"DB).Close", func(d *bbolt.DB) error {
		// bbolt's Close takes the mmap lock exclusively: it waits for every
		// open transaction to finish
		for _, mt := range m.txs {
			if mt.db == m.dbs[d] && !mt.done {
				panic("mbolt: Close while a transaction is still open (the real bbolt would block forever)")
			}
		}
		m.dbs[d].closed = true
		return nil
	})
	// Tx
	verifrt.StubFunc(zzB+"Tx).Bucket", func(tx *bbolt.Tx, key []byte) *bbolt.Bucket {
		return lookup(tx, m.txs[tx].root, key)
	})
	verifrt.StubFunc(zzB+"Tx).CreateBucketIfNotExists", func(tx *bbolt.Tx, key []byte) (*bbolt.Bucket, error) {
		return create(tx, m.txs[tx].root, key, true)
	})
	verifrt.StubFunc(zzB+"Tx).DeleteBucket", func(tx *bbolt.Tx, key []byte) error {
		return deleteBucket(tx, m.txs[tx].root, key)
	})
	verifrt.StubFunc(zzB+"Tx).ForEach", func(tx *bbolt.Tx, fn func(name []byte, b *bbolt.Bucket) error) error {
		t := m.txs[tx].root
		for i := 0; i < t.Len(); i++ {
			k, _, sub := t.At(i)
			if sub != nil {
				if err := fn(cpb(k), newBucket(tx, sub)); err != nil {
					return err
				}
			}
		}
		return nil
	})
	verifrt.StubFunc(zzB+"Tx).OnCommit", func(tx *bbolt.Tx, f func()) {
		m.txs[tx].handlers = append(m.txs[tx].handlers, f)
	})
	verifrt.StubFunc(zzB+"Tx).Commit", func(tx *bbolt.Tx) error {
		mt := m.txs[tx]
		if mt.done {
			return bbolt.ErrTxClosed
		}
		if !mt.writable {
			return bbolt.ErrTxNotWritable
		}
		mt.db.root = mt.root
		mt.done = true
		mt.db.writer = false
		for _, h := range mt.handlers {
			h()
		}
		return nil
	})
	verifrt.StubFunc(zzB+"Tx).Rollback", func(tx *bbolt.Tx) error {
		mt := m.txs[tx]
		if mt.done {
			return bbolt.ErrTxClosed
		}
		mt.done = true
		if mt.writable {
			mt.db.writer = false
		}
		return nil
	})
	// Bucket
	verifrt.StubFunc(zzB+"Bucket).Bucket", func(b *bbolt.Bucket, key []byte) *bbolt.Bucket {
		mb := m.buckets[b]
		return lookup(mb.tx, mb.tree, key)
	})
	verifrt.StubFunc(zzB+"Bucket).CreateBucket", func(b *bbolt.Bucket, key []byte) (*bbolt.Bucket, error) {
		mb := m.buckets[b]
		return create(mb.tx, mb.tree, key, false)
	})
	verifrt.StubFunc(zzB+"Bucket).CreateBucketIfNotExists", func(b *bbolt.Bucket, key []byte) (*bbolt.Bucket, error) {
		mb := m.buckets[b]
		return create(mb.tx, mb.tree, key, true)
	})
	verifrt.StubFunc(zzB+"Bucket).DeleteBucket", func(b *bbolt.Bucket, key []byte) error {
		mb := m.buckets[b]
		return deleteBucket(mb.tx, mb.tree, key)
	})
	verifrt.StubFunc(zzB+"Bucket).Tx", func(b *bbolt.Bucket) *bbolt.Tx { return m.buckets[b].tx })
	verifrt.StubFunc(zzB+"Bucket).Sequence", func(b *bbolt.Bucket) uint64 { return m.buckets[b].tree.Seq() })
	verifrt.StubFunc(zzB+"Bucket).NextSequence", func(b *bbolt.Bucket) (uint64, error) {
		mb := m.buckets[b]
		if !m.txs[mb.tx].writable {
			return 0, bbolt.ErrTxNotWritable
		}
		mb.tree.SetSeq(mb.tree.Seq() + 1)
		return mb.tree.Seq(), nil
	})
	verifrt.StubFunc(zzB+"Bucket).SetSequence", func(b *bbolt.Bucket, v uint64) error {
		mb := m.buckets[b]
		if !m.txs[mb.tx].writable {
			return bbolt.ErrTxNotWritable
		}
		mb.tree.SetSeq(v)
		return nil
	})
	verifrt.StubFunc(zzB+"Bucket).Get", func(b *bbolt.Bucket, key []byte) []byte {
		t := m.buckets[b].tree
		i, ok := t.Seek(key)
		if !ok {
			return nil
		}
		_, v, sub := t.At(i)
		if sub != nil || len(v) == 0 {
			return nil
		}
		return cpb(v)
	})
	verifrt.StubFunc(zzB+"Bucket).Put", func(b *bbolt.Bucket, key, value []byte) error {
		mb := m.buckets[b]
		mt := m.txs[mb.tx]
		if mt.done {
			return bbolt.ErrTxClosed
		}
		if !mt.writable {
			return bbolt.ErrTxNotWritable
		}
		if len(key) == 0 {
			return bbolt.ErrKeyRequired
		}
		if i, ok := mb.tree.Seek(key); ok {
			if _, _, sub := mb.tree.At(i); sub != nil {
				return bbolt.ErrIncompatibleValue
			}
		}
		mb.tree.Put(key, value)
		return nil
	})
	verifrt.StubFunc(zzB+"Bucket).Delete", func(b *bbolt.Bucket, key []byte) error {
		mb := m.buckets[b]
		mt := m.txs[mb.tx]
		if mt.done {
			return bbolt.ErrTxClosed
		}
		if !mt.writable {
			return bbolt.ErrTxNotWritable
		}
		i, ok := mb.tree.Seek(key)
		if !ok {
			return nil
		}
		if _, _, sub := mb.tree.At(i); sub != nil {
			return bbolt.ErrIncompatibleValue
		}
		mb.tree.RemoveAt(i)
		return nil
	})
	verifrt.StubFunc(zzB+"Bucket).ForEach", func(b *bbolt.Bucket, fn func(k, v []byte) error) error {
		t := m.buckets[b].tree
		for i := 0; i < t.Len(); i++ {
			k, v, sub := t.At(i)
			var val []byte
			if sub == nil {
				val = cpb(v)
				if val == nil {
					val = []byte{}
				}
			}
			if err := fn(cpb(k), val); err != nil {
				return err
			}
		}
		return nil
	})
	verifrt.StubFunc(zzB+"Bucket).Cursor", func(b *bbolt.Bucket) *bbolt.Cursor {
		c := &bbolt.Cursor{}
		m.cursors[c] = &mCursor{b: m.buckets[b]}
		return c
	})
	// Cursor
	kv := func(mc *mCursor) ([]byte, []byte) {
		t := mc.b.tree
		if !mc.set || mc.pos < 0 || mc.pos >= t.Len() {
			return nil, nil
		}
		k, v, sub := t.At(mc.pos)
		if sub != nil {
			return cpb(k), nil
		}
		val := cpb(v)
		if val == nil {
			val = []byte{}
		}
		return cpb(k), val
	}
	verifrt.StubFunc(zzB+"Cursor).First", func(c *bbolt.Cursor) ([]byte, []byte) {
		mc := m.cursors[c]
		mc.pos, mc.set = 0, true
		return kv(mc)
	})
	verifrt.StubFunc(zzB+"Cursor).Last", func(c *bbolt.Cursor) ([]byte, []byte) {
		mc := m.cursors[c]
		mc.pos, mc.set = mc.b.tree.Len()-1, true
		return kv(mc)
	})
	verifrt.StubFunc(zzB+"Cursor).Next", func(c *bbolt.Cursor) ([]byte, []byte) {
		mc := m.cursors[c]
		if mc.pos < mc.b.tree.Len() {
			mc.pos++
		}
		return kv(mc)
	})
	verifrt.StubFunc(zzB+"Cursor).Prev", func(c *bbolt.Cursor) ([]byte, []byte) {
		mc := m.cursors[c]
		if mc.pos >= 0 {
			mc.pos--
		}
		return kv(mc)
	})
	verifrt.StubFunc(zzB+"Cursor).Seek", func(c *bbolt.Cursor, seek []byte) ([]byte, []byte) {
		mc := m.cursors[c]
		i, _ := mc.b.tree.Seek(seek)
		mc.pos, mc.set = i, true
		return kv(mc)
	})
	return m
}

// zzOpenDB returns the adapter over mbolt (symbolic) or over a real bbolt
// file (native).
var zzMbolt *mbolt

func zzOpenDB() (walletdb.DB, func() walletdb.DB) {
	if verifrt.Symbolic() {
		m := zzInstallMbolt()
		zzMbolt = m
		bdb := &bbolt.DB{}
		m.dbs[bdb] = &mDB{root: memdb.NewTree()}
		d := (*db)(bdb)
		return d, func() walletdb.DB {
			// close (through the adapter) and reopen: the model keeps the
			// committed root
			verifrt.Assert(d.Close() == nil, "c11-close-ok")
			m.dbs[bdb].closed = false
			return d
		}
	}
	dir, err := os.MkdirTemp("", "zzc11")
	if err != nil {
		panic(err)
	}
	path := filepath.Join(dir, "db")
	d, err := openDB(path, true, true, time.Second, false)
	if err != nil {
		panic(err)
	}
	cur := d
	return d, func() walletdb.DB {
		cur.Close()
		nd, err := openDB(path, true, false, time.Second, false)
		if err != nil {
			panic(err)
		}
		cur = nd
		return nd
	}
}

// ---------------------------------------------------------------- harness

var zzErrAbort = errors.New("harness: abort")

var zzKeys = [][]byte{[]byte("a"), []byte("b"), []byte("c")}

// reference content: top bucket "t" and nested bucket "t/n"
type zzRef struct {
	top    map[string][]byte
	nested map[string][]byte
	hasN   bool
	hasU   bool   // a second top-level bucket "u" exists ...
	uVal   []byte // ... holding key "k" with this value
}

func (r *zzRef) clone() *zzRef {
	c := &zzRef{top: map[string][]byte{}, nested: map[string][]byte{}, hasN: r.hasN, hasU: r.hasU, uVal: r.uVal}
	for k, v := range r.top {
		c.top[k] = v
	}
	for k, v := range r.nested {
		c.nested[k] = v
	}
	return c
}

func zzApplyOps(tx walletdb.ReadWriteTx, ref *zzRef, nOps, nKeys int) {
	top := tx.ReadWriteBucket([]byte("t"))
	for o := 0; o < nOps; o++ {
		switch verifrt.Choice(6, "op") + 1 {
		case 6: // a second top-level bucket: created with content, or looked
			// up, deleted and looked up again - all inside this transaction
			if !ref.hasU {
				ub, err := tx.CreateTopLevelBucket([]byte("u"))
				verifrt.Assert(err == nil && ub != nil, "c11-create-top-level")
				v := verifrt.Bytes("uval", 2)
				verifrt.Assert(ub.Put([]byte("k"), v) == nil, "c11-put")
				ref.hasU, ref.uVal = true, v
				lb := tx.ReadWriteBucket([]byte("u"))
				verifrt.Assert(lb != nil && verifrt.BytesEq(lb.Get([]byte("k")), v), "c11-created-top-level-bucket-visible-in-own-tx")
			} else {
				lb := tx.ReadWriteBucket([]byte("u"))
				verifrt.Assert(lb != nil && verifrt.BytesEq(lb.Get([]byte("k")), ref.uVal), "c11-top-level-bucket-content")
				verifrt.Assert(tx.DeleteTopLevelBucket([]byte("u")) == nil, "c11-delete-top-level")
				ref.hasU, ref.uVal = false, nil
				verifrt.Assert(tx.ReadWriteBucket([]byte("u")) == nil, "c11-deleted-top-level-bucket-gone-in-own-tx")
				verifrt.Assert(tx.DeleteTopLevelBucket([]byte("u")) == walletdb.ErrBucketNotFound, "c11-delete-missing-top-level")
				verifrt.Reach("top-level-deleted")
			}
		case 1: // put in top / nested
			nested := verifrt.Choice(2, "where") == 1
			k := zzKeys[verifrt.Choice(nKeys, "key")]
			// the value: two symbolic bytes, or empty, or nil (bbolt stores
			// both of the latter as a present key with a zero-length value)
			var v []byte
			switch verifrt.Choice(3, "value-kind") {
			case 0:
				v = verifrt.Bytes("val", 2)
			case 1:
				v = []byte{}
				verifrt.Reach("empty-value")
			}
			b, m := top, ref.top
			if nested {
				if !ref.hasN {
					nb, err := top.CreateBucket([]byte("n"))
					verifrt.Assert(err == nil && nb != nil, "c11-create-nested")
					ref.hasN = true
				}
				b, m = top.NestedReadWriteBucket([]byte("n")), ref.nested
				verifrt.Assert(b != nil, "c11-nested-visible-in-own-tx")
			}
			verifrt.Assert(b.Put(k, v) == nil, "c11-put")
			m[string(k)] = v
			// read your own write
			got := b.Get(k)
			verifrt.Assert(verifrt.BytesEq(got, v), "c11-read-your-writes")
			// ... also through a cursor (a zero-length value reads back as
			// nil from Get, so presence is only visible by iteration)
			ck, _ := b.ReadWriteCursor().Seek(k)
			verifrt.Assert(string(ck) == string(k), "c11-read-your-writes-by-cursor")
		case 2: // delete
			k := zzKeys[verifrt.Choice(nKeys, "key")]
			verifrt.Assert(top.Delete(k) == nil, "c11-delete")
			delete(ref.top, string(k))
			verifrt.Assert(top.Get(k) == nil, "c11-deleted-gone-in-own-tx")
		case 3: // delete nested bucket
			err := top.DeleteNestedBucket([]byte("n"))
			if ref.hasN {
				verifrt.Assert(err == nil, "c11-delete-nested")
				ref.hasN = false
				ref.nested = map[string][]byte{}
			} else {
				verifrt.Assert(err == walletdb.ErrBucketNotFound, "c11-delete-missing-nested")
			}
		case 4: // sequence
			s, err := top.NextSequence()
			verifrt.Assert(err == nil && s == top.Sequence(), "c11-sequence")
		case 5: // put over a bucket key / create over a value key: incompatible
			if ref.hasN {
				verifrt.Assert(top.Put([]byte("n"), []byte{1}) == walletdb.ErrIncompatibleValue, "c11-put-on-bucket-key")
				verifrt.Assert(top.Put([]byte("n"), []byte{}) == walletdb.ErrIncompatibleValue, "c11-empty-put-on-bucket-key")
				verifrt.Assert(top.Put([]byte("n"), nil) == walletdb.ErrIncompatibleValue, "c11-nil-put-on-bucket-key")
			}
			if _, ok := ref.top["a"]; ok {
				_, err := top.CreateBucket([]byte("a"))
				verifrt.Assert(err == walletdb.ErrIncompatibleValue, "c11-bucket-on-value-key")
			}
		}
	}
}

// zzCheckContent: a later transaction sees exactly ref, in ascending order
// forwards and descending backwards, with nested buckets independent.
func zzCheckContent(d walletdb.DB, ref *zzRef, label string) {
	err := walletdb.View(d, func(tx walletdb.ReadTx) error {
		top := tx.ReadBucket([]byte("t"))
		verifrt.Assert(top != nil, label+"-top-bucket")
		check := func(b walletdb.ReadBucket, m map[string][]byte, hasNested bool, l string) {
			// forward
			var keys []string
			c := b.ReadCursor()
			for k, v := c.First(); k != nil; k, v = c.Next() {
				keys = append(keys, string(k))
				if string(k) == "n" && hasNested {
					verifrt.Assert(v == nil, l+"-bucket-has-nil-value")
					continue
				}
				want, ok := m[string(k)]
				verifrt.Assert(ok && verifrt.BytesEq(v, want), l+"-forward-content")
			}
			n := len(m)
			if hasNested {
				n++
			}
			verifrt.Assert(len(keys) == n, l+"-forward-count")
			for i := 1; i < len(keys); i++ {
				verifrt.Assert(keys[i-1] < keys[i], l+"-ascending")
			}
			// backward
			var back []string
			for k, _ := c.Last(); k != nil; k, _ = c.Prev() {
				back = append(back, string(k))
			}
			verifrt.Assert(len(back) == n, l+"-backward-count")
			for i := range back {
				if i < len(keys) {
					verifrt.Assert(back[i] == keys[len(keys)-1-i], l+"-descending")
				}
			}
			// point lookups
			for _, k := range zzKeys {
				got := b.Get(k)
				want, ok := m[string(k)]
				if ok {
					verifrt.Assert(verifrt.BytesEq(got, want), l+"-get")
				} else {
					verifrt.Assert(got == nil, l+"-get-missing-nil")
				}
			}
			// seek
			k, _ := c.Seek([]byte("b"))
			var wantSeek string
			for _, kk := range keys {
				if kk >= "b" {
					wantSeek = kk
					break
				}
			}
			verifrt.Assert(string(k) == wantSeek, l+"-seek-first-not-less")
		}
		check(top, ref.top, ref.hasN, label+"-top")
		nb := top.NestedReadBucket([]byte("n"))
		verifrt.Assert((nb != nil) == ref.hasN, label+"-nested-presence")
		if nb != nil && ref.hasN {
			check(nb, ref.nested, false, label+"-nested")
		}
		// a missing bucket is a nil interface, not a typed nil
		verifrt.Assert(top.NestedReadBucket([]byte("zz")) == nil, label+"-missing-bucket-is-nil")
		verifrt.Assert(tx.ReadBucket([]byte("zz")) == nil, label+"-missing-top-bucket-is-nil")
		ub := tx.ReadBucket([]byte("u"))
		verifrt.Assert((ub != nil) == ref.hasU, label+"-second-top-level-bucket-presence")
		if ub != nil && ref.hasU {
			verifrt.Assert(verifrt.BytesEq(ub.Get([]byte("k")), ref.uVal), label+"-second-top-level-bucket-content")
		}
		// a read transaction cannot modify anything
		if rw, ok := top.(walletdb.ReadWriteBucket); ok {
			verifrt.Assert(rw.Put([]byte("a"), []byte{9}) == walletdb.ErrTxNotWritable, label+"-read-tx-put-refused")
			verifrt.Assert(rw.Delete([]byte("a")) == walletdb.ErrTxNotWritable, label+"-read-tx-delete-refused")
			_, err := rw.CreateBucket([]byte("q"))
			verifrt.Assert(err == walletdb.ErrTxNotWritable, label+"-read-tx-create-refused")
		}
		return nil
	})
	verifrt.Assert(err == nil, label+"-view-ok")
}

func zzC11(nTx, nOps int) { zzC11B(nTx, nOps, len(zzKeys), true) }

// zzC11B: nKeys of the keys are written or deleted; finalView adds the
// read-only transaction that ends in success, an error or a panic.
func zzC11B(nTx, nOps, nKeys int, finalView bool) {
	d, reopen := zzOpenDB()
	ref := &zzRef{top: map[string][]byte{}, nested: map[string][]byte{}}
	verifrt.Assert(walletdb.Update(d, func(tx walletdb.ReadWriteTx) error {
		_, err := tx.CreateTopLevelBucket([]byte("t"))
		return err
	}) == nil, "c11-setup")
	for t := 0; t < nTx; t++ {
		outcome := verifrt.Choice(3, "outcome")
		work := ref.clone()
		var err error
		panicked := false
		func() {
			defer func() {
				if r := recover(); r != nil {
					panicked = true
				}
			}()
			err = walletdb.Update(d, func(tx walletdb.ReadWriteTx) error {
				zzApplyOps(tx, work, nOps, nKeys)
				switch outcome {
				case 1:
					return zzErrAbort
				case 2:
					panic("harness: panic inside update")
				}
				return nil
			})
		}()
		switch outcome {
		case 0:
			verifrt.Assert(err == nil && !panicked, "c11-commit-ok")
			ref = work
			verifrt.Reach("committed")
		case 1:
			verifrt.Assert(err == zzErrAbort && !panicked, "c11-error-propagated")
			verifrt.Reach("aborted")
		case 2:
			verifrt.Assert(panicked, "c11-panic-propagated")
			verifrt.Reach("panicked")
		}
		// all-or-nothing, and the database is still usable
		zzCheckContent(d, ref, "c11")
	}
	// a read-only transaction that ends in an error or a panic changes
	// nothing and leaves the database usable (its transaction is released:
	// the close below would otherwise never return)
	fv := 0
	if finalView {
		fv = verifrt.Choice(3, "final-view")
	}
	switch fv {
	case 1:
		verr := walletdb.View(d, func(tx walletdb.ReadTx) error {
			verifrt.Assert(tx.ReadBucket([]byte("t")) != nil, "c11-view-sees-top-bucket")
			return zzErrAbort
		})
		verifrt.Assert(verr == zzErrAbort, "c11-view-error-propagated")
		verifrt.Reach("view-failed")
	case 2:
		vp := false
		func() {
			defer func() {
				if recover() != nil {
					vp = true
				}
			}()
			walletdb.View(d, func(tx walletdb.ReadTx) error { panic("harness: panic inside view") })
		}()
		verifrt.Assert(vp, "c11-view-panic-propagated")
		verifrt.Reach("view-panicked")
	}
	d = reopen()
	zzCheckContent(d, ref, "c11-reopened")
	verifrt.Reach("c11-end")
}

func ZzC11T1O2() { zzC11(1, 2) }
func ZzC11T2O1() { zzC11(2, 1) }
func ZzC11T2O2() { zzC11B(2, 2, 2, false) }
func ZzC11T3O1() { zzC11B(3, 1, len(zzKeys), false) }

// ZzC11Batch: the package-level Batch helper. The caller's function is
// coalesced by bbolt with another caller's function (before or after it in
// the shared transaction); either may fail. Whatever bbolt does to get there
// (roll the shared transaction back, run the surviving functions again), a
// Batch that returns nil has made all of its function's changes visible, one
// that returns the function's error has made none, and the other caller's
// successful function is committed exactly once.
func ZzC11Batch() {
	if !verifrt.Symbolic() {
		return // the coalescing is played by the bbolt model only
	}
	d, reopen := zzOpenDB()
	ref := &zzRef{top: map[string][]byte{}, nested: map[string][]byte{}}
	verifrt.Assert(walletdb.Update(d, func(tx walletdb.ReadWriteTx) error {
		_, err := tx.CreateTopLevelBucket([]byte("t"))
		return err
	}) == nil, "c11-setup")
	v := verifrt.Bytes("val", 2)
	mv := verifrt.Bytes("mate-val", 2)
	mine := verifrt.Choice(2, "my-outcome") // 0 ok, 1 error
	mates := verifrt.Choice(3, "mate")      // 0 none, 1 ok, 2 fails
	if mates > 0 {
		zzMbolt.mateFirst = verifrt.Choice(2, "mate-first") == 1
		zzMbolt.batchMate = func(btx *bbolt.Tx) error {
			b := btx.Bucket([]byte("t"))
			if err := b.Put([]byte("b"), mv); err != nil {
				return err
			}
			if mates == 2 {
				return zzErrAbort
			}
			return nil
		}
		verifrt.Reach("coalesced")
	}
	runs := 0
	err := walletdb.Batch(d, func(tx walletdb.ReadWriteTx) error {
		runs++
		b := tx.ReadWriteBucket([]byte("t"))
		if err := b.Put([]byte("a"), v); err != nil {
			return err
		}
		if mine == 1 {
			return zzErrAbort
		}
		return nil
	})
	if runs > 1 {
		verifrt.Reach("function-run-again")
	}
	if mine == 0 {
		verifrt.Assert(err == nil, "c11-batch-ok")
		ref.top["a"] = v
	} else {
		verifrt.Assert(err == zzErrAbort, "c11-batch-error-propagated")
	}
	if mates == 1 {
		ref.top["b"] = mv
	}
	zzCheckContent(d, ref, "c11-batch")
	d = reopen()
	zzCheckContent(d, ref, "c11-batch-reopened")
	verifrt.Reach("c11-end")
}
