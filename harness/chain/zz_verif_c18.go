//go:build verif

package chain

import "verif/verifrt"

// C18: ConcurrentQueue. Every interleaving of producer, worker and consumer
// (and every pick among ready select cases) is explored; items are symbolic.

func zzItems(n int) []interface{} {
	out := make([]interface{}, n)
	for k := range out {
		out[k] = verifrt.U32("item")
	}
	return out
}

// zzC18Run: the real NewConcurrentQueue/Start/ChanIn/ChanOut/Stop with one
// producer sending k items and the consumer taking `take` of them.
//   mode 0: the consumer is slow: it only starts after the producer finished
//           (the producer must never block on it);
//   mode 1: producer and consumer run concurrently.
func zzC18Run(k, bufSize, take, mode int) {
	q := NewConcurrentQueue(bufSize)
	q.Start()
	items := zzItems(k)
	done := make(chan struct{})
	go func() {
		for _, it := range items {
			q.ChanIn() <- it
		}
		close(done)
	}()
	if mode == 0 {
		<-done
		verifrt.Reach("producer-finished-without-consumer")
	}
	for j := 0; j < take; j++ {
		v := <-q.ChanOut()
		verifrt.Assert(v.(uint32) == items[j].(uint32), "c18-fifo-order-nothing-lost-or-duplicated")
	}
	if mode == 1 {
		<-done
	}
	if take == k {
		// nothing more may come out
		select {
		case <-q.ChanOut():
			verifrt.Assert(false, "c18-no-extra-item")
		default:
		}
		verifrt.Quiesce()
		select {
		case <-q.ChanOut():
			verifrt.Assert(false, "c18-no-extra-item")
		default:
		}
	}
	q.Stop()
	verifrt.Quiesce()
	verifrt.Assert(verifrt.LiveGoroutines() == 0, "c18-stop-terminates-worker")
	verifrt.Reach("c18-end")
}

func ZzC18K2B0() { zzC18Run(2, 0, 2, verifrt.Choice(2, "mode")) }
func ZzC18K3B0() { zzC18Run(3, 0, 3, verifrt.Choice(2, "mode")) }
func ZzC18K3B1() { zzC18Run(3, 1, 3, verifrt.Choice(2, "mode")) }
func ZzC18K3B1Take1() { zzC18Run(3, 1, 1, verifrt.Choice(2, "mode")) }
func ZzC18K4B2() { zzC18Run(4, 2, 4, verifrt.Choice(2, "mode")) }
func ZzC18K4B1() { zzC18Run(4, 1, 4, verifrt.Choice(2, "mode")) }
func ZzC18K4B0Take2() { zzC18Run(4, 0, 2, verifrt.Choice(2, "mode")) }

// zzC18Step: the worker started from an ARBITRARY state (any overflow list of
// length m<=3 and any occupancy of chanOut within its capacity – every state
// a history of any length can leave behind), then s new sends and r receives
// in every interleaving: the consumer sees chanOut-buffer ++ overflow ++ new
// items, in that order; the producer is never blocked; Stop ends the worker.
func ZzC18Step()      { zzC18Step(3, 4, 3) }
func ZzC18StepSmall() { zzC18Step(2, 3, 2) }

func zzC18Step(nCap, nOver, nSend int) {
	capOut := verifrt.Choice(nCap, "cap")
	occ := verifrt.Choice(capOut+1, "occupancy")
	m := verifrt.Choice(nOver, "overflow-len")
	s := verifrt.Choice(nSend, "new-sends")
	q := NewConcurrentQueue(capOut)
	var expect []interface{}
	for _, it := range zzItems(occ) {
		q.chanOut <- it
		expect = append(expect, it)
	}
	for _, it := range zzItems(m) {
		q.overflow.PushBack(it)
		expect = append(expect, it)
	}
	if m > 0 {
		verifrt.Reach("overflow-non-empty")
	}
	fresh := zzItems(s)
	expect = append(expect, fresh...)
	q.Start()
	done := make(chan struct{})
	go func() {
		for _, it := range fresh {
			q.ChanIn() <- it
		}
		close(done)
	}()
	r := verifrt.Choice(len(expect)+1, "receives")
	slow := verifrt.Choice(2, "slow-consumer") == 1
	if slow {
		<-done
	}
	for j := 0; j < r; j++ {
		v := <-q.ChanOut()
		verifrt.Assert(v.(uint32) == expect[j].(uint32), "c18-step-fifo")
	}
	if !slow {
		<-done
	}
	q.Stop()
	verifrt.Quiesce()
	verifrt.Assert(verifrt.LiveGoroutines() == 0, "c18-step-stop-terminates-worker")
	verifrt.Reach("c18-end")
}
