//go:build verif

package chain

import (
	"errors"

	"github.com/btcsuite/btcd/btcjson"
	"github.com/btcsuite/btcd/chaincfg/chainhash"

	"verif/verifrt"
)

// C18, third family: the notification queue as the bitcoind client uses it
// (chain/bitcoind_client.go is among the anchors). BitcoindClient.Start starts
// the queue's worker; the backend's first answer is an error (bitcoind still
// warming up) and the caller calls Start again. Whatever Start answers, the
// queue keeps ONE worker: notifications that follow reach the consumer once
// each and in the order sent, with the producer running concurrently.
func zzC18BitcoindStartRetry(bound int) {
	verifrt.PreemptionBound(bound)
	var zero chainhash.Hash
	fail := true
	verifrt.StubFunc("(*github.com/btcsuite/btcwallet/chain.BitcoindClient).GetBestBlock",
		func(c *BitcoindClient) (*chainhash.Hash, int32, error) {
			if fail {
				fail = false
				return nil, 0, errors.New("backend: still warming up")
			}
			return &zero, 0, nil
		})
	verifrt.StubFunc("(*github.com/btcsuite/btcwallet/chain.BitcoindClient).GetBlockHeaderVerbose",
		func(c *BitcoindClient, h *chainhash.Hash) (*btcjson.GetBlockHeaderVerboseResult, error) {
			return &btcjson.GetBlockHeaderVerboseResult{Time: 1600000000}, nil
		})
	c := &BitcoindClient{quit: make(chan struct{}), notificationQueue: NewConcurrentQueue(1)}
	err1 := c.Start()
	verifrt.Assert(err1 != nil, "c18-start-reports-the-backend-error")
	_ = c.Start() // the caller tries again
	const k = 3
	done := make(chan struct{})
	go func() {
		for i := 0; i < k; i++ {
			c.notificationQueue.ChanIn() <- i
		}
		close(done)
	}()
	next := 0
	for next < k {
		v := <-c.Notifications()
		if _, ok := v.(ClientConnected); ok {
			continue
		}
		verifrt.Assert(v == next, "c18-bitcoind-queue-fifo-order-nothing-lost-or-duplicated")
		next++
	}
	<-done
	c.notificationQueue.Stop()
	verifrt.Quiesce()
	verifrt.Assert(verifrt.LiveGoroutines() == 0, "c18-stop-terminates-every-worker")
	verifrt.Reach("c18-end")
}

func ZzC18BitcoindStartRetryB1() { zzC18BitcoindStartRetry(1) }
func ZzC18BitcoindStartRetryB2() { zzC18BitcoindStartRetry(2) }
