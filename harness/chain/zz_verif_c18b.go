//go:build verif

package chain

import (
	"github.com/btcsuite/btcd/chaincfg/chainhash"
	"github.com/btcsuite/btcd/rpcclient"
	"github.com/btcsuite/btcwallet/waddrmgr"
	"github.com/btcsuite/btcwallet/wtxmgr"

	"verif/verifrt"
)

// C18, second family: the notification queues inside the btcd client
// (RPCClient.handler) and the neutrino client
// (NeutrinoClient.notificationHandler) - unbounded slices between an enqueue
// and a dequeue channel. The real handler goroutine runs; the producer sends
// bursts, the consumer drains; what comes out must be exactly what went in,
// in order; closing quit ends the handler.

type zzNtfnQueue struct {
	in   chan interface{}
	out  chan interface{}
	stop func()
}

func zzStartHandler(kind int) *zzNtfnQueue {
	var zero chainhash.Hash
	if kind == 0 {
		// GetBestBlock is the promoted method of the embedded rpc client
		verifrt.StubFunc("(*github.com/btcsuite/btcd/rpcclient.Client).GetBestBlock",
			func(c *rpcclient.Client) (*chainhash.Hash, int32, error) { return &zero, 0, nil })
		verifrt.StubFunc("(*github.com/btcsuite/btcd/rpcclient.Client).Shutdown", func(c *rpcclient.Client) {})
		verifrt.StubFunc("(*github.com/btcsuite/btcd/rpcclient.Client).WaitForShutdown", func(c *rpcclient.Client) {})
		c := &RPCClient{
			enqueueNotification: make(chan interface{}),
			dequeueNotification: make(chan interface{}),
			currentBlock:        make(chan *waddrmgr.BlockStamp),
			quit:                make(chan struct{}),
			started:             true,
		}
		c.wg.Add(1)
		go c.handler()
		return &zzNtfnQueue{in: c.enqueueNotification, out: c.dequeueNotification, stop: func() { c.Stop(); c.wg.Wait() }}
	}
	verifrt.StubFunc("(*github.com/btcsuite/btcwallet/chain.NeutrinoClient).GetBestBlock",
		func(s *NeutrinoClient) (*chainhash.Hash, int32, error) { return &zero, 0, nil })
	s := &NeutrinoClient{
		enqueueNotification: make(chan interface{}),
		dequeueNotification: make(chan interface{}),
		currentBlock:        make(chan *waddrmgr.BlockStamp),
		quit:                make(chan struct{}),
		started:             true,
	}
	s.wg.Add(1)
	go s.notificationHandler()
	return &zzNtfnQueue{in: s.enqueueNotification, out: s.dequeueNotification, stop: func() { s.Stop(); s.wg.Wait() }}
}

// zzC18Handler: the producer/consumer (one goroutine) alternates bursts of
// sends and receives as given by pattern (positive: send that many, negative:
// receive that many); finally everything still queued is drained.
func zzC18Handler(kind int, pattern []int, bound int) {
	verifrt.PreemptionBound(bound)
	q := zzStartHandler(kind)
	var sent []interface{}
	got := 0
	next := 0
	for _, p := range pattern {
		for ; p > 0; p-- {
			var it interface{}
			if next%3 == 0 {
				// a block-connected notification (the handler looks inside these)
				it = BlockConnected(wtxmgr.BlockMeta{Block: wtxmgr.Block{Height: int32(next)}})
			} else {
				it = next
			}
			next++
			sent = append(sent, it)
			q.in <- it
		}
		for ; p < 0; p++ {
			v := <-q.out
			verifrt.Assert(v == sent[got], "c18-handler-fifo-order-nothing-lost-or-duplicated")
			got++
		}
	}
	if len(sent) > 33 {
		verifrt.Reach("more-than-32-pending")
	}
	for got < len(sent) {
		v := <-q.out
		verifrt.Assert(v == sent[got], "c18-handler-fifo-order-nothing-lost-or-duplicated")
		got++
	}
	q.stop()
	verifrt.Quiesce()
	// the handler closes its output when it ends
	_, open := <-q.out
	verifrt.Assert(!open, "c18-handler-stop-terminates-the-handler")
	verifrt.Reach("c18-end")
}

// zzC18HandlerConc: a producer goroutine sends k notifications while the
// consumer receives them: every interleaving (and every pick among ready
// select cases of the handler) within the preemption bound.
func zzC18HandlerConc(kind, k, bound int) {
	verifrt.PreemptionBound(bound)
	q := zzStartHandler(kind)
	items := make([]interface{}, k)
	for i := range items {
		if i%2 == 0 {
			items[i] = BlockConnected(wtxmgr.BlockMeta{Block: wtxmgr.Block{Height: int32(i)}})
		} else {
			items[i] = i
		}
	}
	done := make(chan struct{})
	go func() {
		for _, it := range items {
			q.in <- it
		}
		close(done)
	}()
	if verifrt.Choice(2, "slow-consumer") == 1 {
		<-done // the producer is never blocked by the consumer
		verifrt.Reach("producer-finished-without-consumer")
	}
	for j := 0; j < k; j++ {
		v := <-q.out
		verifrt.Assert(v == items[j], "c18-handler-fifo-order-nothing-lost-or-duplicated")
	}
	<-done
	q.stop()
	verifrt.Quiesce()
	_, open := <-q.out
	verifrt.Assert(!open, "c18-handler-stop-terminates-the-handler")
	verifrt.Reach("c18-end")
}

func ZzC18BtcdK3()     { zzC18HandlerConc(0, 3, 2) }
func ZzC18NeutrinoK3() { zzC18HandlerConc(1, 3, 2) }

// a long backlog (more than 32 pending after some were already delivered),
// no preemptive switches: the handler runs whenever the producer blocks
func ZzC18BtcdBurst()     { zzC18Handler(0, []int{5, -3, 36, -10, 20}, 0) }
func ZzC18NeutrinoBurst() { zzC18Handler(1, []int{5, -3, 36, -10, 20}, 0) }

// zzC18HandlerStopBacklog: the consumer has stopped reading (the wallet is
// shutting down) while notifications are still queued; Stop must still end
// the handler (its WaitForShutdown returns, its output channel is closed).
func zzC18HandlerStopBacklog(kind, k int) {
	verifrt.PreemptionBound(1)
	q := zzStartHandler(kind)
	for i := 0; i < k; i++ {
		q.in <- i
	}
	verifrt.Reach("stop-with-backlog")
	q.stop() // returns only when the handler goroutine has ended
	verifrt.Quiesce()
	// whatever is delivered after the stop, the channel ends closed
	for n := 0; n <= k; n++ {
		if _, open := <-q.out; !open {
			verifrt.Reach("c18-end")
			return
		}
	}
	verifrt.Assert(false, "c18-handler-stop-terminates-the-handler")
}

func ZzC18BtcdStopBacklog()     { zzC18HandlerStopBacklog(0, 3) }
func ZzC18NeutrinoStopBacklog() { zzC18HandlerStopBacklog(1, 3) }

// a burst far beyond any plausible cap on the backlog (2100 notifications
// while the consumer reads nothing): the producer is never blocked, and the
// consumer then receives all of them in order
func ZzC18BtcdLongBurst()     { zzC18Handler(0, []int{2100}, 0) }
func ZzC18NeutrinoLongBurst() { zzC18Handler(1, []int{2100}, 0) }
