//go:build verif

package waddrmgr

import (
	"time"

	"github.com/btcsuite/btcd/btcec/v2"
	"github.com/btcsuite/btcd/btcutil"
	"github.com/btcsuite/btcd/btcutil/hdkeychain"
	"github.com/btcsuite/btcwallet/snacl"
	"github.com/btcsuite/btcwallet/walletdb"

	"verif/memdb"
	"verif/verifrt"
)

// C04: nothing secret reaches the database in the clear. memdb logs every
// key and value ever handed to Put/CreateBucket (a superset of every commit
// image); every window of every logged byte string is compared with every
// secret. Passphrases and the secret script are SYMBOLIC: a window "is" the
// secret if the equality is valid (holds for all values), decided by the
// solver; seed-derived keys are concrete for the chosen seed.

type zzSecret struct {
	name string
	b    []byte
}

type zzC04World struct {
	*zzMgrWorld
	secrets     []zzSecret
	public      []zzSecret
	scanned     int
	sealScanned int
	pubPass     []byte
	prvPass     []byte
}

func (w *zzC04World) addSecret(name string, b []byte) {
	if len(b) >= 4 {
		w.secrets = append(w.secrets, zzSecret{name, append([]byte{}, b...)})
	}
}

func (w *zzC04World) addPublic(name string, b []byte) {
	w.public = append(w.public, zzSecret{name, append([]byte{}, b...)})
}

// keyAt derives the extended private key at a path below the root.
func (w *zzC04World) keyAt(path ...uint32) *hdkeychain.ExtendedKey {
	k := w.root
	for _, p := range path {
		c, err := k.DeriveNonStandard(p) // nolint:staticcheck
		zzMust(err)
		k = c
	}
	return k
}

func (w *zzC04World) addExtKey(name string, k *hdkeychain.ExtendedKey) {
	priv, err := k.ECPrivKey()
	zzMust(err)
	w.addSecret(name+" key bytes", priv.Serialize())
	w.addSecret(name+" serialized", []byte(k.String()))
	pub, err := k.Neuter()
	zzMust(err)
	w.addPublic(name+" xpub", []byte(pub.String()))
	pk, err := k.ECPubKey()
	zzMust(err)
	w.addPublic(name+" pubkey", pk.SerializeCompressed())
	w.addPublic(name+" hash160", btcutil.Hash160(pk.SerializeCompressed()))
}

func zzContains(hay, needle []byte) bool {
	if len(needle) == 0 || len(hay) < len(needle) {
		return false
	}
	for off := 0; off+len(needle) <= len(hay); off++ {
		if verifrt.Valid(verifrt.BytesEq(hay[off:off+len(needle)], needle)) {
			return true
		}
	}
	return false
}

// scan checks every new write-log record.
func (w *zzC04World) scan(checkPublic bool) {
	log := w.db.Log
	for ; w.scanned < len(log); w.scanned++ {
		rec := log[w.scanned]
		for _, s := range w.secrets {
			verifrt.Observe("secret", s.name)
			verifrt.Assert(!zzContains(rec.Key, s.b), "c04-secret-in-database-key")
			verifrt.Assert(!zzContains(rec.Value, s.b), "c04-secret-in-database-value")
		}
		if checkPublic {
			for _, s := range w.public {
				verifrt.Observe("secret", s.name)
				verifrt.Assert(!zzContains(rec.Key, s.b), "c04-public-material-in-database-key")
				verifrt.Assert(!zzContains(rec.Value, s.b), "c04-public-material-in-database-value")
			}
		}
	}
	verifrt.Observe("secret", "")
}

// scanSealed: a secret sealed under a key everybody knows is not encrypted.
// Every length-prefixed field (and every whole value) of every new write-log
// record is offered to the all-zero CryptoKey; if it opens, the plaintext is
// matched against the secrets to name what was exposed.
func (w *zzC04World) scanSealed() {
	var zeroKey snacl.CryptoKey
	log := w.db.Log
	try := func(ct []byte) {
		if len(ct) < snacl.NonceSize+snacl.Overhead {
			return
		}
		pt, err := zeroKey.Decrypt(ct)
		if err != nil {
			return
		}
		name := "unidentified plaintext of " + string(rune('0'+len(pt)/10)) + string(rune('0'+len(pt)%10)) + " bytes"
		for _, s := range w.secrets {
			if zzContains(pt, s.b) {
				name = s.name
			}
		}
		verifrt.Observe("sealed-under-zero-key", name)
		verifrt.Assert(false, "c04-secret-sealed-under-the-all-zero-key")
		verifrt.Observe("sealed-under-zero-key", "")
	}
	for ; w.sealScanned < len(log); w.sealScanned++ {
		v := log[w.sealScanned].Value
		try(v)
		for off := 0; off+4 <= len(v); off++ {
			if !verifrt.IsConcrete(v[off : off+4]) {
				continue // a length prefix is never ciphertext
			}
			n := int(uint32(v[off]) | uint32(v[off+1])<<8 | uint32(v[off+2])<<16 | uint32(v[off+3])<<24)
			if n >= snacl.NonceSize+snacl.Overhead && off+4+n <= len(v) {
				try(v[off+4 : off+4+n])
			}
		}
	}
}

// scanOpensUnder: does any stored value (or length-prefixed field of one) of
// the CURRENT database content open under key?
// scanPublicBoxes: whatever the PUBLIC crypto key opens is readable with the
// public passphrase alone (and stays in a watching-only database): none of it
// may contain a secret.
func (w *zzC04World) scanPublicBoxes() {
	try := func(ct []byte) {
		if len(ct) < snacl.NonceSize+snacl.Overhead {
			return
		}
		pt, err := w.mgr.cryptoKeyPub.Decrypt(ct)
		if err != nil {
			return
		}
		for _, s := range w.secrets {
			verifrt.Observe("secret", s.name)
			verifrt.Assert(!zzContains(pt, s.b), "c04-secret-sealed-under-the-public-crypto-key")
		}
		verifrt.Observe("secret", "")
	}
	d := w.db.Dump()
	for i := 1; i < len(d); i += 2 {
		v := d[i]
		try(v)
		for off := 0; off+4 <= len(v); off++ {
			if !verifrt.IsConcrete(v[off : off+4]) {
				continue
			}
			n := int(uint32(v[off]) | uint32(v[off+1])<<8 | uint32(v[off+2])<<16 | uint32(v[off+3])<<24)
			if n >= snacl.NonceSize+snacl.Overhead && off+4+n <= len(v) {
				try(v[off+4 : off+4+n])
			}
		}
	}
	verifrt.Reach("public-boxes-scanned")
}

func (w *zzC04World) scanOpensUnder(key *snacl.CryptoKey, what string) {
	where := ""
	try := func(ct []byte) {
		if len(ct) < snacl.NonceSize+snacl.Overhead {
			return
		}
		if _, err := key.Decrypt(ct); err == nil {
			verifrt.Observe("opens-under", what+" at "+where)
			verifrt.Assert(false, "c04-watching-only-database-keeps-private-material-the-passphrase-opens")
			verifrt.Observe("opens-under", "")
		}
	}
	d := w.db.Dump()
	for i := 1; i < len(d); i += 2 {
		v := d[i]
		where = zzPrintable(d[i-1])
		try(v)
		for off := 0; off+4 <= len(v); off++ {
			if !verifrt.IsConcrete(v[off : off+4]) {
				continue
			}
			n := int(uint32(v[off]) | uint32(v[off+1])<<8 | uint32(v[off+2])<<16 | uint32(v[off+3])<<24)
			if n >= snacl.NonceSize+snacl.Overhead && off+4+n <= len(v) {
				try(v[off+4 : off+4+n])
			}
		}
	}
	verifrt.Reach("post-conversion-content-scanned")
}

func zzPrintable(b []byte) string {
	const hex = "0123456789abcdef"
	out := make([]byte, 0, len(b))
	for _, c := range b {
		if !verifrt.IsConcrete([]byte{c}) {
			out = append(out, '?')
		} else if c >= 0x20 && c < 0x7f {
			out = append(out, c)
		} else {
			out = append(out, '\\', hex[c>>4], hex[c&15])
		}
	}
	return string(out)
}

func ZzC04() {
	w := &zzC04World{zzMgrWorld: &zzMgrWorld{db: memdb.New()}}
	w.params = zzNewParams()
	w.db.LogWrites = true
	w.pubPass = verifrt.Bytes("pub-pass", 8)
	w.prvPass = verifrt.Bytes("prv-pass", 8)
	root, err := hdkeychain.NewMaster(zzSeedA, w.params)
	zzMust(err)
	w.root = root
	w.addSecret("seed", zzSeedA)
	w.addSecret("public passphrase", w.pubPass)
	w.addSecret("private passphrase", w.prvPass)
	w.addExtKey("master", root)
	h := uint32(hdkeychain.HardenedKeyStart)
	for _, sc := range DefaultKeyScopes {
		w.addExtKey("coin-type key", w.keyAt(sc.Purpose+h, sc.Coin+h))
		w.addExtKey("account key", w.keyAt(sc.Purpose+h, sc.Coin+h, h))
	}
	zzMust(walletdb.Update(w.db, func(tx walletdb.ReadWriteTx) error {
		ns, err := tx.CreateTopLevelBucket(zzNS)
		if err != nil {
			return err
		}
		return Create(ns, root, w.pubPass, w.prvPass, w.params, zzFastScrypt, time.Unix(1600000000, 0))
	}))
	w.scan(true)
	verifrt.Reach("created")
	zzMust(w.view(func(ns walletdb.ReadBucket) error {
		m, err := Open(ns, w.pubPass, w.params)
		w.mgr = m
		return err
	}))
	zzMust(w.view(func(ns walletdb.ReadBucket) error { return w.mgr.Unlock(ns, w.prvPass) }))
	sm, err := w.mgr.FetchScopedKeyManager(KeyScopeBIP0084)
	zzMust(err)

	// issued addresses: their private keys are secrets
	var issued []ManagedAddress
	// a taproot address first: its address id (the 32-byte output key) is
	// public material that must not be in the clear either
	w.addExtKey("taproot address key", w.keyAt(86+h, 0+h, h, 0, 0))
	sm86, err := w.mgr.FetchScopedKeyManager(KeyScopeBIP0086)
	zzMust(err)
	zzMust(w.update(func(ns walletdb.ReadWriteBucket) error {
		mas, err := sm86.NextExternalAddresses(ns, 0, 1)
		if err != nil {
			return err
		}
		issued = append(issued, mas...)
		w.addPublic("taproot address id (output key)", mas[0].Address().ScriptAddress())
		return nil
	}))
	w.scan(true)
	verifrt.Reach("taproot-address-issued")
	for i := uint32(0); i < 2; i++ {
		w.addExtKey("address key", w.keyAt(84+h, 0+h, h, 0, i))
	}
	w.addExtKey("address key", w.keyAt(84+h, 0+h, h, 1, 0))
	zzMust(w.update(func(ns walletdb.ReadWriteBucket) error {
		mas, err := sm.NextExternalAddresses(ns, 0, 2)
		issued = append(issued, mas...)
		if err != nil {
			return err
		}
		mas, err = sm.NextInternalAddresses(ns, 0, 1)
		issued = append(issued, mas...)
		return err
	}))
	w.scan(true)
	// the used flag of two of them (a taproot and a witness-key address): the
	// marker must not carry the address id in the clear either
	zzMust(w.update(func(ns walletdb.ReadWriteBucket) error {
		if err := sm86.MarkUsed(ns, issued[0].Address()); err != nil {
			return err
		}
		return sm.MarkUsed(ns, issued[1].Address())
	}))
	w.scan(true)
	verifrt.Reach("marked-used")

	// imported private key and secret scripts
	priv, _ := btcec.PrivKeyFromBytes([]byte{0x11, 0x22, 0x33, 0x44, 0x55, 0x66, 0x77, 0x88, 0x99, 0xaa, 0xbb, 0xcc, 0xdd, 0xee, 0xff, 0x01,
		0x11, 0x22, 0x33, 0x44, 0x55, 0x66, 0x77, 0x88, 0x99, 0xaa, 0xbb, 0xcc, 0xdd, 0xee, 0xff, 0x02})
	wif, err := btcutil.NewWIF(priv, w.params, true)
	zzMust(err)
	w.addSecret("imported private key", priv.Serialize())
	w.addSecret("imported private key WIF", []byte(wif.String()))
	script := append([]byte{0x51}, verifrt.Bytes("script", 6)...)
	w.addSecret("imported secret script", script)
	wscript := append([]byte{0x52}, verifrt.Bytes("wscript", 6)...)
	w.addSecret("imported secret witness script", wscript)
	bs := &BlockStamp{}
	zzMust(w.update(func(ns walletdb.ReadWriteBucket) error {
		ma, err := sm.ImportPrivateKey(ns, wif, bs)
		if err != nil {
			return err
		}
		issued = append(issued, ma)
		sa, err := sm.ImportScript(ns, script, bs)
		if err != nil {
			return err
		}
		issued = append(issued, sa)
		ws, err := sm.ImportWitnessScript(ns, wscript, bs, 0, true)
		if err != nil {
			return err
		}
		issued = append(issued, ws)
		return nil
	}))
	w.scan(false)
	w.scanSealed()
	w.scanPublicBoxes()
	verifrt.Reach("imported")

	// a new account: its extended private key is a secret too
	w.addExtKey("account 1 key", w.keyAt(84+h, 0+h, h+1))
	zzMust(w.update(func(ns walletdb.ReadWriteBucket) error {
		_, err := sm.NewAccount(ns, "savings")
		return err
	}))
	w.scan(false)

	// passphrase change: neither the old nor the new one is stored
	newPass := verifrt.Bytes("new-pass", 8)
	w.addSecret("new private passphrase", newPass)
	zzMust(w.update(func(ns walletdb.ReadWriteBucket) error {
		return w.mgr.ChangePassphrase(ns, w.prvPass, newPass, true, zzFastScrypt)
	}))
	w.scan(false)
	verifrt.Reach("passphrase-changed")

	// still unlocked: another private key imported right after the change
	priv2, _ := btcec.PrivKeyFromBytes([]byte{0x21, 0x22, 0x33, 0x44, 0x55, 0x66, 0x77, 0x88, 0x99, 0xaa, 0xbb, 0xcc, 0xdd, 0xee, 0xff, 0x01,
		0x11, 0x22, 0x33, 0x44, 0x55, 0x66, 0x77, 0x88, 0x99, 0xaa, 0xbb, 0xcc, 0xdd, 0xee, 0xff, 0x03})
	wif2, err := btcutil.NewWIF(priv2, w.params, true)
	zzMust(err)
	w.addSecret("private key imported after the passphrase change", priv2.Serialize())
	w.addSecret("private key imported after the passphrase change, WIF", []byte(wif2.String()))
	verifrt.Assert(!w.mgr.IsLocked(), "c04-still-unlocked-after-change")
	zzMust(w.update(func(ns walletdb.ReadWriteBucket) error {
		ma, err := sm.ImportPrivateKey(ns, wif2, bs)
		if err != nil {
			return err
		}
		issued = append(issued, ma)
		return nil
	}))
	w.scan(false)
	w.scanSealed()

	// conversion to watching-only, optionally after the root key was neutered
	// (wallet.Create... does that for wallets that must not keep the HD root)
	var privKeyCopy, masterKeyCopy snacl.CryptoKey
	copy(privKeyCopy[:], w.mgr.cryptoKeyPriv.(*cryptoKey).CryptoKey[:])
	copy(masterKeyCopy[:], w.mgr.masterKeyPriv.Key[:])
	if verifrt.Choice(2, "neuter-root-key-first") == 1 {
		zzMust(w.update(func(ns walletdb.ReadWriteBucket) error { return w.mgr.NeuterRootKey(ns) }))
		verifrt.Reach("root-key-neutered")
	}
	zzMust(w.update(func(ns walletdb.ReadWriteBucket) error { return w.mgr.ConvertToWatchingOnly(ns) }))
	w.scan(false)
	// "no passphrase unlocks it": nothing that is still stored may open under
	// the key the private passphrase derives (master key) or under the
	// private crypto key it protects
	w.scanOpensUnder(&masterKeyCopy, "master private key")
	w.scanOpensUnder(&privKeyCopy, "private crypto key")
	w.mgr.Close()
	zzMust(w.view(func(ns walletdb.ReadBucket) error {
		m, err := Open(ns, w.pubPass, w.params)
		w.mgr = m
		return err
	}))
	verifrt.Assert(w.mgr.WatchOnly(), "c04-reopened-watching-only")
	guess := verifrt.Bytes("guess", 8)
	zzMust(w.view(func(ns walletdb.ReadBucket) error {
		// still knows every address
		for _, a := range issued {
			ma, err := w.mgr.Address(ns, a.Address())
			verifrt.Assert(err == nil && ma != nil, "c04-watching-only-still-knows-every-address")
			if pka, ok := ma.(ManagedPubKeyAddress); ok && err == nil {
				k, kerr := pka.PrivKey()
				verifrt.Assert(k == nil && kerr != nil, "c04-watching-only-returns-no-private-key")
			}
			if sa, ok := ma.(ManagedScriptAddress); ok && err == nil {
				if ws, isW := ma.(*witnessScriptAddress); !isW || ws.isSecretScript {
					sc, serr := sa.Script()
					verifrt.Assert(sc == nil && serr != nil, "c04-watching-only-returns-no-secret-script")
				}
			}
		}
		// no passphrase unlocks it
		uerr := w.mgr.Unlock(ns, guess)
		verifrt.Assert(uerr != nil && w.mgr.IsLocked(), "c04-no-passphrase-unlocks-watching-only")
		return nil
	}))
	// a private key imported into the reopened watching-only wallet: whether
	// the call is refused or keeps the public part only, no private key may
	// reach the database (the reopened manager's crypto keys are all-zero
	// placeholders)
	priv3, _ := btcec.PrivKeyFromBytes([]byte{0x61, 0x22, 0x33, 0x44, 0x55, 0x66, 0x77, 0x88, 0x99, 0xaa, 0xbb, 0xcc, 0xdd, 0xee, 0xff, 0x01,
		0x11, 0x22, 0x33, 0x44, 0x55, 0x66, 0x77, 0x88, 0x99, 0xaa, 0xbb, 0xcc, 0xdd, 0xee, 0xff, 0x0b})
	wif3, err := btcutil.NewWIF(priv3, w.params, true)
	zzMust(err)
	w.addSecret("private key imported into the watching-only wallet", priv3.Serialize())
	w.addSecret("private key imported into the watching-only wallet, WIF", []byte(wif3.String()))
	sm2, err := w.mgr.FetchScopedKeyManager(KeyScopeBIP0084)
	zzMust(err)
	ierr := w.update(func(ns walletdb.ReadWriteBucket) error {
		_, err := sm2.ImportPrivateKey(ns, wif3, bs)
		return err
	})
	if ierr == nil {
		verifrt.Reach("watching-only-import-accepted")
	}
	w.scan(false)
	w.scanSealed()
	verifrt.Reach("c04-end")
}

// ZzC04Race: a private key import racing Manager.Lock (the unlock timeout).
// Whatever the interleaving of their synchronisation operations, the import
// either fails with a locked error and writes nothing, or stores the key
// sealed under the real private crypto key - never under the zeroed key that
// Lock leaves behind.
func zzC04Race(bound int) {
	w := &zzC04World{zzMgrWorld: zzNewMgrWorld(zzSeedA)}
	w.db.LogWrites = true
	zzMust(w.view(func(ns walletdb.ReadBucket) error { return w.mgr.Unlock(ns, zzPrvPass) }))
	sm, err := w.mgr.FetchScopedKeyManager(KeyScopeBIP0084)
	zzMust(err)
	priv, _ := btcec.PrivKeyFromBytes([]byte{0x31, 0x22, 0x33, 0x44, 0x55, 0x66, 0x77, 0x88, 0x99, 0xaa, 0xbb, 0xcc, 0xdd, 0xee, 0xff, 0x01,
		0x11, 0x22, 0x33, 0x44, 0x55, 0x66, 0x77, 0x88, 0x99, 0xaa, 0xbb, 0xcc, 0xdd, 0xee, 0xff, 0x04})
	wif, err := btcutil.NewWIF(priv, w.params, true)
	zzMust(err)
	w.addSecret("private key imported while Lock runs", priv.Serialize())
	w.sealScanned = len(w.db.Log)
	verifrt.PreemptionBound(bound)
	verifrt.YieldOnUnlock(true)
	var impErr error
	done := make(chan struct{})
	go func() {
		impErr = w.update(func(ns walletdb.ReadWriteBucket) error {
			_, err := sm.ImportPrivateKey(ns, wif, &BlockStamp{})
			return err
		})
		close(done)
	}()
	lockErr := w.mgr.Lock()
	<-done
	verifrt.Assert(lockErr == nil, "c04-race-lock-succeeds")
	if impErr != nil {
		verifrt.Reach("import-refused")
		verifrt.Assert(IsError(impErr, ErrLocked), "c04-race-import-fails-only-with-locked")
	} else {
		verifrt.Reach("import-succeeded")
	}
	w.scanSealed()
	verifrt.Reach("c04-end")
}

func ZzC04RaceB1() { zzC04Race(1) }
func ZzC04RaceB2() { zzC04Race(2) }
