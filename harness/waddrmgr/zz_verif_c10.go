//go:build verif

package waddrmgr

import (
	"time"

	"github.com/btcsuite/btcd/btcec/v2"
	"github.com/btcsuite/btcd/btcutil"
	"github.com/btcsuite/btcwallet/walletdb"

	"verif/memdb"
	"verif/verifrt"
)

// C10 (address manager part): the k-th database write inside one manager
// operation fails, k symbolic. The operation must report an error; after the
// rollback the database is unchanged and the running manager answers like a
// freshly opened one; a retry succeeds with the fault-free result.
func zzC10Mgr(pre int) {
	w := &zzC08World{zzMgrWorld: zzNewMgrWorld(zzSeedA), scope: KeyScopeBIP0084, prefix: "c10-mgr-"}
	zzMust(w.view(func(ns walletdb.ReadBucket) error { return w.mgr.Unlock(ns, zzPrvPass) }))
	sm := w.sm()
	if pre > 0 {
		zzMust(w.update(func(ns walletdb.ReadWriteBucket) error {
			mas, err := sm.NextExternalAddresses(ns, 0, 1)
			w.issued = append(w.issued, mas...)
			return err
		}))
		// ... and is synced to height 7, the height whose hash a tip of
		// MaxReorgDepth+7 makes stale
		b7 := &BlockStamp{Height: 7, Timestamp: time.Unix(1600004200, 0)}
		b7.Hash[0] = 0xb5
		b7.Hash[1] = 7
		zzMust(w.update(func(ns walletdb.ReadWriteBucket) error { return w.mgr.SetSyncedTo(ns, b7) }))
		w.height = 7
	}
	type opT struct {
		name string
		run  func(ns walletdb.ReadWriteBucket) error
	}
	priv, _ := btcec.PrivKeyFromBytes([]byte{0x42, 0x42, 0x42})
	wif, err := btcutil.NewWIF(priv, w.params, true)
	zzMust(err)
	bs := &BlockStamp{Height: 1, Timestamp: time.Unix(1600000600, 0)}
	bs.Hash[0] = 0xb5
	// a tip above the reorg-safe window: PutSyncedTo also prunes the hash
	// recorded MaxReorgDepth blocks below it
	bsHigh := &BlockStamp{Height: MaxReorgDepth + 7, Timestamp: time.Unix(1606000600, 0)}
	bsHigh.Hash[0] = 0xb6
	ops := []opT{
		{"NextExternalAddresses", func(ns walletdb.ReadWriteBucket) error { _, err := sm.NextExternalAddresses(ns, 0, 2); return err }},
		{"NextInternalAddresses", func(ns walletdb.ReadWriteBucket) error { _, err := sm.NextInternalAddresses(ns, 0, 1); return err }},
		{"ExtendExternalAddresses", func(ns walletdb.ReadWriteBucket) error { return sm.ExtendExternalAddresses(ns, 0, 2) }},
		{"NewAccount", func(ns walletdb.ReadWriteBucket) error { _, err := sm.NewAccount(ns, "savings"); return err }},
		{"RenameAccount", func(ns walletdb.ReadWriteBucket) error { return sm.RenameAccount(ns, 0, "alice") }},
		{"MarkUsed", func(ns walletdb.ReadWriteBucket) error {
			if len(w.issued) == 0 {
				return nil
			}
			return sm.MarkUsed(ns, w.issued[0].Address())
		}},
		{"ImportPrivateKey", func(ns walletdb.ReadWriteBucket) error { _, err := sm.ImportPrivateKey(ns, wif, bs); return err }},
		{"ImportScript", func(ns walletdb.ReadWriteBucket) error {
			_, err := sm.ImportScript(ns, []byte{0x51, 0x52, 0x93, 0x87}, bs)
			return err
		}},
		{"SetSyncedTo", func(ns walletdb.ReadWriteBucket) error { return w.mgr.SetSyncedTo(ns, bs) }},
		{"ChangePassphrase", func(ns walletdb.ReadWriteBucket) error {
			return w.mgr.ChangePassphrase(ns, zzPrvPass, []byte("new-pass"), true, zzFastScrypt)
		}},
		{"SetBirthday", func(ns walletdb.ReadWriteBucket) error { return w.mgr.SetBirthday(ns, time.Unix(1700000000, 0)) }},
		{"ExtendInternalAddresses", func(ns walletdb.ReadWriteBucket) error { return sm.ExtendInternalAddresses(ns, 0, 1) }},
		{"ImportPublicKey", func(ns walletdb.ReadWriteBucket) error {
			_, err := sm.ImportPublicKey(ns, priv.PubKey(), bs)
			return err
		}},
		{"ImportWitnessScript", func(ns walletdb.ReadWriteBucket) error {
			_, err := sm.ImportWitnessScript(ns, []byte{0x51, 0x53, 0x93, 0x87}, bs, 0, true)
			return err
		}},
		{"NewAccountWatchingOnly", func(ns walletdb.ReadWriteBucket) error {
			k, err := zzImportedAccountKey(w.root)
			zzMust(err)
			_, err = sm.NewAccountWatchingOnly(ns, "somebody", k, 0x11223344, nil)
			return err
		}},
		{"SetBirthdayBlock", func(ns walletdb.ReadWriteBucket) error { return w.mgr.SetBirthdayBlock(ns, *bs, true) }},
		{"NeuterRootKey", func(ns walletdb.ReadWriteBucket) error { return w.mgr.NeuterRootKey(ns) }},
		{"NewScopedKeyManager", func(ns walletdb.ReadWriteBucket) error {
			_, err := w.mgr.NewScopedKeyManager(ns, KeyScope{Purpose: 1017, Coin: 0}, ScopeAddrSchema{ExternalAddrType: WitnessPubKey, InternalAddrType: WitnessPubKey})
			return err
		}},
		{"ConvertToWatchingOnly", func(ns walletdb.ReadWriteBucket) error { return w.mgr.ConvertToWatchingOnly(ns) }},
		{"SetSyncedTo(above the reorg window)", func(ns walletdb.ReadWriteBucket) error { return w.mgr.SetSyncedTo(ns, bsHigh) }},
	}
	// the addresses the next requests would hand out, learnt from a throwaway
	// manager inside a transaction that is rolled back: they are not issued
	// unless the faulted operation (or its retry) commits them
	zzMust(w.view(func(ns walletdb.ReadBucket) error {
		m, err := Open(ns, zzPubPass, w.params)
		zzMust(err)
		psm, err := m.FetchScopedKeyManager(w.scope)
		zzMust(err)
		_ = w.update(func(ns walletdb.ReadWriteBucket) error {
			mas, err := psm.NextExternalAddresses(ns, 0, 2)
			zzMust(err)
			w.dropped = append(w.dropped, mas...)
			mas, err = psm.NextInternalAddresses(ns, 0, 1)
			zzMust(err)
			w.dropped = append(w.dropped, mas...)
			return zzErrRollback
		})
		m.Close()
		return nil
	}))
	op := ops[verifrt.Choice(len(ops), "op")]
	verifrt.Note("faulted: " + op.name)
	verifrt.Observe("op", op.name)
	verifrt.Observe("tx", "rolled-back")
	before := w.db.Dump()

	k := verifrt.Int("fault-at")
	verifrt.Assume(verifrt.And(k >= 0, k < 64))
	verifrt.ArmFault(k)
	ferr := w.update(op.run)
	hit := verifrt.FaultHit()
	verifrt.ArmFault(-1)
	if !hit {
		verifrt.Assert(ferr == nil, "c10-mgr-no-fault-no-error")
		verifrt.Reach("fault-not-reached")
		return
	}
	verifrt.Reach("fault-hit")
	verifrt.Assert(ferr != nil, "c10-mgr-failed-write-reported")
	if ferr == nil {
		return
	}
	verifrt.Assert(memdb.EqualDumps(w.db.Dump(), before), "c10-mgr-rollback-restores-database")
	if !w.compare() {
		return
	}
	// ... and still opens with its passphrase - first while still unlocked
	// (Unlock then compares with a salted hash kept in memory), where a
	// passphrase that was never installed must be refused, then from locked
	if !w.mgr.WatchOnly() {
		if !w.mgr.IsLocked() {
			var e1, e2 error
			zzMust(w.view(func(ns walletdb.ReadBucket) error {
				e1 = w.mgr.Unlock(ns, zzPrvPass)
				e2 = w.mgr.Unlock(ns, []byte("new-pass"))
				return nil
			}))
			verifrt.Assert(e1 == nil, "c10-mgr-passphrase-still-accepted-while-unlocked-after-the-rolled-back-operation")
			verifrt.Assert(e2 != nil, "c10-mgr-never-installed-passphrase-refused-after-the-rolled-back-operation")
		}
		if !w.mgr.IsLocked() {
			zzMust(w.mgr.Lock())
		}
		var uerr error
		zzMust(w.view(func(ns walletdb.ReadBucket) error {
			uerr = w.mgr.Unlock(ns, zzPrvPass)
			return nil
		}))
		verifrt.Assert(uerr == nil && !w.mgr.IsLocked(), "c10-mgr-passphrase-still-unlocks-after-the-rolled-back-operation")
		if uerr != nil {
			return
		}
	}
	// retry without the fault
	verifrt.Observe("tx", "committed")
	w.dropped = nil // the retry may issue them
	rerr := w.update(op.run)
	verifrt.Assert(rerr == nil, "c10-mgr-retry-succeeds")
	if op.name == "SetSyncedTo" {
		w.height = 1
	}
	if op.name == "SetSyncedTo(above the reorg window)" {
		w.height = bsHigh.Height
	}
	w.compare()
	if !w.mgr.WatchOnly() {
		pass := zzPrvPass
		if op.name == "ChangePassphrase" {
			pass = []byte("new-pass")
		}
		if !w.mgr.IsLocked() {
			zzMust(w.mgr.Lock())
		}
		var uerr error
		zzMust(w.view(func(ns walletdb.ReadBucket) error {
			uerr = w.mgr.Unlock(ns, pass)
			return nil
		}))
		verifrt.Assert(uerr == nil, "c10-mgr-current-passphrase-unlocks-after-the-retry")
	}
	verifrt.Reach("c10-end")
}

func ZzC10Mgr0() { zzC10Mgr(0) }

var _ = memdb.EqualDumps

func ZzC10Mgr1() { zzC10Mgr(1) }
