//go:build verif

package waddrmgr

import (
	"time"

	"github.com/btcsuite/btcd/btcutil/hdkeychain"
	"github.com/btcsuite/btcd/chaincfg"
	"github.com/btcsuite/btcwallet/walletdb"

	"verif/memdb"
	"verif/verifrt"
)

// Shared set-up of the address-manager family (C03, C04, C05, C08, C10).

var (
	zzNS      = []byte("waddrmgr")
	zzPubPass = []byte("pub-pass")
	zzPrvPass = []byte("prv-pass")
	zzSeedA   = []byte{0x2a, 0x64, 0xdf, 0x08, 0x5e, 0xef, 0xed, 0xd8, 0xbf, 0xdb, 0xb3, 0x31, 0x76, 0xb5, 0xba, 0x2e,
		0x62, 0xe8, 0xbe, 0x8b, 0x56, 0xc8, 0x83, 0x77, 0x95, 0x59, 0x8b, 0xb6, 0xc4, 0x40, 0xc0, 0x64}
	// zzSeedLegacy: a seed whose m/84'/0' private key has a leading zero
	// byte (about 1 seed in 256), where btcsuite's legacy hardened
	// derivation differs from BIP32 one level further down
	zzSeedLegacy = []byte{0, 0, 0, 56, 0, 0, 0, 0, 0, 0, 0, 0, 0, 0, 0, 0, 0, 0, 0, 0, 0, 0, 0, 0, 0, 0, 0, 0, 0, 0, 0, 1}
	// zzSeedLegacyPurpose: a seed whose m/84' private key has a leading zero
	// byte: the legacy rule already departs from BIP32 at the coin-type key
	// (found by notes/seedfind)
	zzSeedLegacyPurpose = []byte{0, 0, 1, 0x6d, 0, 0, 0, 0, 0, 0, 0, 0, 0, 0, 0, 0, 0, 0, 0, 0, 0, 0, 0, 0, 0, 0, 0, 0, 0, 0, 0, 2}
	zzFastScrypt        = &ScryptOptions{N: 16, R: 8, P: 1}
)

type zzMgrWorld struct {
	db     *memdb.DB
	mgr    *Manager
	params *chaincfg.Params
	root   *hdkeychain.ExtendedKey
}

func zzMust(err error) {
	if err != nil {
		panic(err)
	}
}

func zzNewMgrWorld(seed []byte) *zzMgrWorld { return zzNewMgrWorldPass(seed, zzPrvPass) }

// zzNewMgrWorldPass: a manager created with the given private passphrase.
func zzNewMgrWorldPass(seed, prvPass []byte) *zzMgrWorld {
	w := &zzMgrWorld{db: memdb.New(), params: &chaincfg.MainNetParams}
	root, err := hdkeychain.NewMaster(seed, w.params)
	zzMust(err)
	w.root = root
	zzMust(walletdb.Update(w.db, func(tx walletdb.ReadWriteTx) error {
		ns, err := tx.CreateTopLevelBucket(zzNS)
		if err != nil {
			return err
		}
		return Create(ns, root, zzPubPass, prvPass, w.params, zzFastScrypt, time.Unix(1600000000, 0))
	}))
	w.open()
	return w
}

func (w *zzMgrWorld) open() {
	zzMust(walletdb.View(w.db, func(tx walletdb.ReadTx) error {
		m, err := Open(tx.ReadBucket(zzNS), zzPubPass, w.params)
		if err != nil {
			return err
		}
		w.mgr = m
		return nil
	}))
}

func (w *zzMgrWorld) update(f func(ns walletdb.ReadWriteBucket) error) error {
	return walletdb.Update(w.db, func(tx walletdb.ReadWriteTx) error { return f(tx.ReadWriteBucket(zzNS)) })
}

func (w *zzMgrWorld) view(f func(ns walletdb.ReadBucket) error) error {
	return walletdb.View(w.db, func(tx walletdb.ReadTx) error { return f(tx.ReadBucket(zzNS)) })
}

// ZzMgrSmoke: create, open, derive, unlock, private key.
func ZzMgrSmoke() {
	w := zzNewMgrWorld(zzSeedA)
	sm, err := w.mgr.FetchScopedKeyManager(KeyScopeBIP0084)
	zzMust(err)
	var addrs []ManagedAddress
	zzMust(w.update(func(ns walletdb.ReadWriteBucket) error {
		var err error
		addrs, err = sm.NextExternalAddresses(ns, 0, 2)
		return err
	}))
	verifrt.Assert(len(addrs) == 2, "two-addresses")
	println("addr0", addrs[0].Address().EncodeAddress())
	zzMust(w.view(func(ns walletdb.ReadBucket) error { return w.mgr.Unlock(ns, zzPrvPass) }))
	pk, err := addrs[0].(ManagedPubKeyAddress).PrivKey()
	verifrt.Assert(err == nil && pk != nil, "privkey")
	verifrt.Reach("end")
}

// ---------------------------------------------------------------- oracle

// zzExpectPub derives m/purpose'/coin'/account'/branch/index from the root
// key with the library's derivation applied along the statement's path.
func (w *zzMgrWorld) zzExpectPub(scope KeyScope, account, branch, index uint32) []byte {
	k := w.root
	for _, step := range []uint32{scope.Purpose + hdkeychain.HardenedKeyStart, scope.Coin + hdkeychain.HardenedKeyStart,
		account + hdkeychain.HardenedKeyStart, branch, index} {
		c, err := k.DeriveNonStandard(step) // nolint:staticcheck
		zzMust(err)
		k = c
	}
	pub, err := k.ECPubKey()
	zzMust(err)
	return pub.SerializeCompressed()
}

type zzIssued struct {
	scope                  KeyScope
	account, branch, index uint32
	addr                   ManagedAddress
	how                    string
}

func zzBytesEq(a, b []byte) bool {
	if len(a) != len(b) {
		return false
	}
	for i := range a {
		if a[i] != b[i] {
			return false
		}
	}
	return true
}

// checkAddress asserts C03's clauses for one issued address; unlocked says
// whether the manager is currently unlocked.
func (w *zzMgrWorld) checkAddress(is *zzIssued, ma ManagedAddress, label string) {
	pka, ok := ma.(ManagedPubKeyAddress)
	verifrt.Assert(ok, label+"-is-pubkey-address")
	if !ok {
		return
	}
	want := w.zzExpectPub(is.scope, is.account, is.branch, is.index)
	verifrt.Assert(zzBytesEq(pka.PubKey().SerializeCompressed(), want), label+"-public-key-is-the-seeds-bip32-child")
	sc, path, okInfo := pka.DerivationInfo()
	// the path element of the account is its hardened child number
	wantAcct := is.account + hdkeychain.HardenedKeyStart
	if is.how == "DeriveFromKeyPath" {
		wantAcct = is.account // the caller's path is echoed
	}
	verifrt.Assert(okInfo && sc == is.scope && path.Account == wantAcct && path.Branch == is.branch &&
		path.Index == is.index && path.InternalAccount == is.account, label+"-derivation-path-true")
	verifrt.Assert(ma.InternalAccount() == is.account, label+"-account-true")
	verifrt.Assert(ma.Internal() == (is.branch == InternalBranch), label+"-internal-flag-true")
	verifrt.Assert(!ma.Imported() && ma.Compressed(), label+"-not-imported-compressed")
	// address format of the scope
	schema := ScopeAddrMap[is.scope]
	wantType := schema.ExternalAddrType
	if is.branch == InternalBranch {
		wantType = schema.InternalAddrType
	}
	verifrt.Assert(ma.AddrType() == wantType, label+"-address-format-of-scope")
	if !w.mgr.IsLocked() && !w.mgr.WatchOnly() {
		verifrt.Observe("accessor", "PrivKey")
		verifrt.Observe("issued-by", is.how)
		priv, err := pka.PrivKey()
		verifrt.Assert(err == nil && priv != nil, label+"-private-key-available-when-unlocked")
		if err == nil && priv != nil {
			verifrt.Assert(zzBytesEq(priv.PubKey().SerializeCompressed(), want), label+"-private-key-matches-public-key")
		}
		verifrt.Reach("privkey-checked")
	}
}

func zzNewParams() *chaincfg.Params { return &chaincfg.MainNetParams }
