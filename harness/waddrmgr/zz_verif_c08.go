//go:build verif

package waddrmgr

import (
	"errors"
	"time"

	"github.com/btcsuite/btcd/chaincfg/chainhash"
	"github.com/btcsuite/btcwallet/walletdb"

	"verif/verifrt"
)

// C08: histories mixing committed, rolled-back (dry-run) and commit-failed
// database transactions; after every transaction the running manager must
// answer exactly as a manager freshly opened on the same database.

var zzErrRollback = errors.New("harness: roll back")

type zzC08World struct {
	*zzMgrWorld
	prefix   string
	scope    KeyScope
	issued   []ManagedAddress // committed issues only
	height   int32
	names    int
	accounts []uint32
	acct     uint32           // the account the operations work on
	dropped  []ManagedAddress // addresses handed out inside transactions that did not commit
	force    int              // 0: outcome chosen per transaction; 1: never commits; 2: commits
	replay   int              // >= 0: step() repeats this operation instead of choosing one
	lastOp   int
	// a batch: several operations inside ONE database transaction
	batchNS      walletdb.ReadWriteBucket
	batchOutcome int
	batchName    string
}

// batch runs n operations inside one database transaction that is committed,
// rolled back or fails at commit.
func (w *zzC08World) batch(n int) {
	// committed batches only: what a transaction that does not commit leaves
	// behind is the subject of the single-operation histories (and of the
	// known findings recorded for them)
	w.batchOutcome = 0
	w.batchName = "batch"
	run := func(ns walletdb.ReadWriteBucket) error {
		w.batchNS = ns
		defer func() { w.batchNS = nil }()
		for k := 0; k < n; k++ {
			w.step()
		}
		return nil
	}
	verifrt.Observe("tx", "committed")
	zzMust(w.update(run))
	verifrt.Reach("batch-committed")
}

// zzC08Batch: one transaction holding two operations (the wallet's block
// connection, account import and funding paths do several address-manager
// operations per transaction), optionally after one committed operation.
func zzC08Batch(pre int) {
	w := &zzC08World{zzMgrWorld: zzNewMgrWorld(zzSeedA), scope: KeyScopeBIP0084, prefix: "c08-", replay: -1}
	for s := 0; s < pre; s++ {
		w.force = 2
		w.step()
	}
	w.force = 0
	w.batch(2)
	if w.compare() {
		verifrt.Reach("batch-agrees")
	}
	verifrt.Reach("c08-end")
}

func ZzC08Batch0() { zzC08Batch(0) }
func ZzC08Batch1() { zzC08Batch(1) }

var _ = 0

func (w *zzC08World) sm() *ScopedKeyManager {
	sm, err := w.mgr.FetchScopedKeyManager(w.scope)
	zzMust(err)
	return sm
}

// tx runs op in one database transaction whose outcome is chosen: committed,
// rolled back by an error (dry run), or failing at commit.
func (w *zzC08World) tx(name string, op func(ns walletdb.ReadWriteBucket) error) (committed bool) {
	if w.batchNS != nil {
		// inside a batch: the operation runs in the batch's transaction,
		// whose outcome was chosen for the whole batch
		verifrt.Observe("op", w.batchName+"+"+name)
		w.batchName += "+" + name
		zzMust(op(w.batchNS))
		return w.batchOutcome == 0
	}
	var outcome int
	switch w.force {
	case 1: // a transaction that does not commit (either way)
		outcome = 1 + verifrt.Choice(2, "tx-outcome")
	case 2: // committed
		outcome = 0
	default:
		outcome = verifrt.Choice(3, "tx-outcome")
	}
	verifrt.Observe("op", name)
	switch outcome {
	case 0:
		verifrt.Observe("tx", "committed")
		verifrt.Note(name + " (committed)")
		zzMust(w.update(op))
		return true
	case 1:
		verifrt.Observe("tx", "rolled-back")
		verifrt.Note(name + " (rolled back)")
		err := w.update(func(ns walletdb.ReadWriteBucket) error {
			if err := op(ns); err != nil {
				return err
			}
			return zzErrRollback
		})
		verifrt.Assert(err == zzErrRollback, "c08-op-succeeds-before-rollback")
		verifrt.Reach("rolled-back")
		return false
	default:
		verifrt.Observe("tx", "commit-failed")
		verifrt.Note(name + " (commit failed)")
		w.db.FailNextCommit = true
		err := w.update(op)
		verifrt.Assert(err != nil, "c08-commit-failure-reported")
		verifrt.Reach("commit-failed")
		return false
	}
}

func (w *zzC08World) step() {
	sm := w.sm()
	op := w.replay
	if op < 0 {
		op = verifrt.Choice(7, "op")
	}
	w.lastOp = op
	switch op {
	case 0:
		var mas []ManagedAddress
		if w.tx("NextExternalAddresses", func(ns walletdb.ReadWriteBucket) error {
			var err error
			mas, err = sm.NextExternalAddresses(ns, w.acct, 1)
			return err
		}) {
			w.issued = append(w.issued, mas...)
		} else {
			w.dropped = append(w.dropped, mas...)
		}
	case 1:
		var mas []ManagedAddress
		if w.tx("NextInternalAddresses", func(ns walletdb.ReadWriteBucket) error {
			var err error
			mas, err = sm.NextInternalAddresses(ns, w.acct, 1)
			return err
		}) {
			w.issued = append(w.issued, mas...)
		} else {
			w.dropped = append(w.dropped, mas...)
		}
	case 2:
		if w.replay < 0 {
			w.names++
		}
		name := []string{"alice", "bob", "carol", "dave"}[w.names%4]
		w.tx("RenameAccount", func(ns walletdb.ReadWriteBucket) error { return sm.RenameAccount(ns, w.acct, name) })
	case 3:
		if len(w.issued) == 0 {
			verifrt.Assume(false)
		}
		a := w.issued[0].Address()
		w.tx("MarkUsed", func(ns walletdb.ReadWriteBucket) error { return sm.MarkUsed(ns, a) })
	case 4:
		h := w.height + 1
		if w.height >= 1 && verifrt.Choice(2, "sync-direction") == 1 {
			// backwards, to the block already recorded below the tip (what
			// a disconnected block or the start-up rollback does)
			h = w.height - 1
			verifrt.Reach("synced-backwards")
		}
		bs := &BlockStamp{Height: h, Timestamp: time.Unix(1600000000+int64(h)*600, 0)}
		bs.Hash[0] = 0xb5
		bs.Hash[1] = byte(h)
		if h == 0 {
			// the sync point a manager is created with: the genesis block
			p := w.mgr.ChainParams()
			*bs = BlockStamp{Hash: *p.GenesisHash, Timestamp: p.GenesisBlock.Header.Timestamp}
		}
		if w.tx("SetSyncedTo", func(ns walletdb.ReadWriteBucket) error { return w.mgr.SetSyncedTo(ns, bs) }) {
			w.height = h
		}
	case 5:
		if w.mgr.IsLocked() {
			zzMust(w.view(func(ns walletdb.ReadBucket) error { return w.mgr.Unlock(ns, zzPrvPass) }))
		}
		var acct uint32
		if w.tx("NewAccount", func(ns walletdb.ReadWriteBucket) error {
			var err error
			acct, err = sm.NewAccount(ns, []string{"savings", "holiday", "rent"}[len(w.accounts)%3])
			return err
		}) {
			w.accounts = append(w.accounts, acct)
		}
	case 6:
		var last uint32
		readProps := func(ns walletdb.ReadBucket) error {
			p, err := sm.AccountProperties(ns, w.acct)
			zzMust(err)
			last = p.ExternalKeyCount + 1
			return nil
		}
		if w.batchNS != nil {
			// inside a batch: read through the batch's own transaction (a
			// second, concurrent read transaction would see - and cache -
			// the state before the batch)
			zzMust(readProps(w.batchNS))
		} else {
			zzMust(w.view(readProps))
		}
		w.tx("ExtendExternalAddresses", func(ns walletdb.ReadWriteBucket) error { return sm.ExtendExternalAddresses(ns, w.acct, last) })
	}
}

// compare: the running manager against a freshly opened one. Returns false
// at the first difference (the rest of the path would only repeat it).
func (w *zzC08World) compare() bool {
	var fresh *Manager
	zzMust(w.view(func(ns walletdb.ReadBucket) error {
		m, err := Open(ns, zzPubPass, w.params)
		fresh = m
		return err
	}))
	defer fresh.Close()
	ok := true
	eq := func(c bool, label string) {
		verifrt.Observe("query", label)
		verifrt.Assert(c, w.prefix+label)
		if !c {
			ok = false
		}
	}
	rsm := w.sm()
	fsm, err := fresh.FetchScopedKeyManager(w.scope)
	zzMust(err)
	zzMust(w.view(func(ns walletdb.ReadBucket) error {
		for _, acct := range append([]uint32{0}, w.accounts...) {
			rp, rerr := rsm.AccountProperties(ns, acct)
			fp, ferr := fsm.AccountProperties(ns, acct)
			eq((rerr == nil) == (ferr == nil), "account-known")
			if rerr != nil || ferr != nil {
				continue
			}
			eq(rp.AccountName == fp.AccountName, "account-name")
			eq(rp.ExternalKeyCount == fp.ExternalKeyCount, "next-external-index")
			eq(rp.InternalKeyCount == fp.InternalKeyCount, "next-internal-index")
			eq(rp.ImportedKeyCount == fp.ImportedKeyCount, "imported-count")
			rn, rerr := rsm.AccountName(ns, acct)
			fn, ferr := fsm.AccountName(ns, acct)
			eq(rerr == nil && ferr == nil && rn == fn, "account-name-lookup")
			ra, rerr := rsm.LookupAccount(ns, fp.AccountName)
			eq(rerr == nil && ra == acct, "lookup-account-by-name")
			rl, rerr := rsm.LastExternalAddress(ns, acct)
			fl, ferr := fsm.LastExternalAddress(ns, acct)
			eq((rerr == nil) == (ferr == nil), "last-external-known")
			if rerr == nil && ferr == nil {
				eq(rl.Address().String() == fl.Address().String(), "last-external-address")
			}
			rl, rerr = rsm.LastInternalAddress(ns, acct)
			fl, ferr = fsm.LastInternalAddress(ns, acct)
			eq((rerr == nil) == (ferr == nil), "last-internal-known")
			if rerr == nil && ferr == nil {
				eq(rl.Address().String() == fl.Address().String(), "last-internal-address")
			}
		}
		// sync state and mode
		eq(w.mgr.WatchOnly() == fresh.WatchOnly(), "watching-only-flag")
		rb, rv, rerr := w.mgr.BirthdayBlock(ns)
		fb, fv, ferr := fresh.BirthdayBlock(ns)
		eq((rerr == nil) == (ferr == nil) && (rerr != nil || (rb.Height == fb.Height && rb.Hash == fb.Hash && rv == fv)), "birthday-block")
		_, rserr := w.mgr.FetchScopedKeyManager(KeyScope{Purpose: 1017, Coin: 0})
		_, fserr := fresh.FetchScopedKeyManager(KeyScope{Purpose: 1017, Coin: 0})
		eq((rserr == nil) == (fserr == nil), "custom-scope-known")
		eq(w.mgr.Birthday().Unix() == fresh.Birthday().Unix(), "birthday")
		rs, fs := w.mgr.SyncedTo(), fresh.SyncedTo()
		eq(rs.Height == fs.Height && rs.Hash == fs.Hash && rs.Timestamp.Unix() == fs.Timestamp.Unix(), "synced-to")
		eq(fs.Height == w.height, "synced-to-is-last-committed")
		for h := w.height; h > 0 && h > w.height-3; h-- {
			rh, rerr := w.mgr.BlockHash(ns, h)
			fh, ferr := fresh.BlockHash(ns, h)
			// the tip's hash is recorded; below it both managers answer
			// alike (a jump ahead leaves no hash for the skipped heights)
			eq((h < w.height || (rerr == nil && ferr == nil)) && (rerr == nil) == (ferr == nil) && (rerr != nil || *rh == *fh), "block-hash")
		}
		// nothing that was issued is forgotten, and both agree on it
		for _, ia := range w.issued {
			ra, rerr := w.mgr.Address(ns, ia.Address())
			fa, ferr := fresh.Address(ns, ia.Address())
			eq(rerr == nil && ferr == nil, "issued-address-known")
			if rerr != nil || ferr != nil {
				continue
			}
			eq(ra.InternalAccount() == fa.InternalAccount() && ra.Internal() == fa.Internal() && ra.Compressed() == fa.Compressed() &&
				ra.Imported() == fa.Imported() && ra.AddrType() == fa.AddrType(), "issued-address-metadata")
			eq(ra.Used(ns) == fa.Used(ns), "used-flag")
			_, rpth, _ := ra.(ManagedPubKeyAddress).DerivationInfo()
			_, fpth, _ := fa.(ManagedPubKeyAddress).DerivationInfo()
			eq(rpth == fpth, "issued-address-path")
		}
		// an address handed out inside a transaction that did not commit was
		// never issued: both managers must say the same about it
		for _, da := range w.dropped {
			known := false
			for _, ia := range w.issued {
				if ia.Address().String() == da.Address().String() {
					known = true // re-issued later by a committed request
				}
			}
			if known {
				continue
			}
			_, rerr := w.mgr.Address(ns, da.Address())
			_, ferr := fresh.Address(ns, da.Address())
			eq((rerr == nil) == (ferr == nil), "never-issued-address-known")
		}
		return nil
	}))
	verifrt.Observe("query", "")
	return ok
}

func zzC08(steps int) { zzC08On(steps, false) }

func zzC08On(steps int, imported bool) {
	w := &zzC08World{zzMgrWorld: zzNewMgrWorld(zzSeedA), scope: KeyScopeBIP0084, prefix: "c08-", replay: -1}
	w.run(steps, imported, false)
}

// zzC08Retry: "a database transaction that is rolled back does not advance
// address indices, and the next committed request issues the very address a
// restarted wallet would issue": [one committed operation], then an operation
// in a transaction that does NOT commit, then - without looking in between -
// the SAME request again in a committed transaction; afterwards the running
// manager and a freshly opened one must agree, and an address request must
// have returned the address the fresh manager knows as its last one.
func zzC08Retry(pre int) {
	w := &zzC08World{zzMgrWorld: zzNewMgrWorld(zzSeedA), scope: KeyScopeBIP0084, prefix: "c08-retry-", replay: -1}
	for s := 0; s < pre; s++ {
		w.force = 2
		w.step()
	}
	w.force = 1
	w.step()
	w.force, w.replay = 2, w.lastOp
	w.step()
	verifrt.Observe("tx", "committed-retry-after-rollback")
	if w.compare() {
		verifrt.Reach("retry-agrees")
	}
	verifrt.Reach("c08-end")
}

func ZzC08Retry0() { zzC08Retry(0) }
func ZzC08Retry1() { zzC08Retry(1) }

func (w *zzC08World) run(steps int, imported, _ bool) {
	if imported {
		// the operations work on an imported extended-public-key account
		// that already has two external and one internal address
		acctKey, err := zzImportedAccountKey(w.root)
		zzMust(err)
		zzMust(w.update(func(ns walletdb.ReadWriteBucket) error {
			// with an address schema that differs from the scope's and
			// has different formats on its two branches
			acct, err := w.sm().NewAccountWatchingOnly(ns, "somebody", acctKey, 0x11223344,
				&ScopeAddrSchema{ExternalAddrType: NestedWitnessPubKey, InternalAddrType: WitnessPubKey})
			if err != nil {
				return err
			}
			w.acct = acct
			mas, err := w.sm().NextExternalAddresses(ns, acct, 2)
			if err != nil {
				return err
			}
			w.issued = append(w.issued, mas...)
			mas, err = w.sm().NextInternalAddresses(ns, acct, 1)
			w.issued = append(w.issued, mas...)
			return err
		}))
		w.accounts = append(w.accounts, w.acct)
		verifrt.Reach("imported-account")
	}
	for s := 0; s < steps; s++ {
		w.step()
		if !w.compare() {
			return
		}
	}
	verifrt.Reach("c08-end")
}

func ZzC08L1()         { zzC08(1) }
func ZzC08L2()         { zzC08(2) }
func ZzC08L3()         { zzC08(3) }
func ZzC08ImportedL1() { zzC08On(1, true) }
func ZzC08ImportedL2() { zzC08On(2, true) }

var _ = chainhash.Hash{}
