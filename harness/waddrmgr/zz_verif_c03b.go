//go:build verif

package waddrmgr

import (
	"github.com/btcsuite/btcd/btcec/v2"
	"github.com/btcsuite/btcd/btcec/v2/schnorr"
	"github.com/btcsuite/btcd/btcutil"
	"github.com/btcsuite/btcd/btcutil/hdkeychain"
	"github.com/btcsuite/btcd/txscript"
	"github.com/btcsuite/btcwallet/walletdb"

	"verif/verifrt"
)

// C03, second harness family: several accounts (seeded account 0, accounts
// created during the history, an imported extended-public-key account with an
// overriding address format), imported keys and scripts, private passphrase
// change, and the clauses the first family does not assert: the *address*
// encodes the expected public key in the expected format, and a wallet
// re-created from the same seed issues the same addresses.

type zzAcct struct {
	number           uint32
	imported         bool
	key              *hdkeychain.ExtendedKey // imported: the account public key handed in
	schema           *ScopeAddrSchema        // overriding address format, or nil
	nextExt, nextInt uint32
}

type zzC03bIssued struct {
	acct          *zzAcct
	branch, index uint32
	addr          btcutil.Address
	how           string
}

type zzC03bWorld struct {
	*zzMgrWorld
	scope   KeyScope
	accts   []*zzAcct
	issued  []*zzC03bIssued
	pass    []byte
	impKey  ManagedPubKeyAddress
	impPriv []byte
	impScr  ManagedScriptAddress
	impScrB []byte
	created int
}

func (w *zzC03bWorld) sm() *ScopedKeyManager {
	sm, err := w.mgr.FetchScopedKeyManager(w.scope)
	zzMust(err)
	return sm
}

// expectPub: the statement's derivation. Seeded account: along
// m/purpose'/coin'/a'/b/i from the root; imported account: child b/i of the
// imported account key.
func (w *zzC03bWorld) expectPub(a *zzAcct, branch, index uint32) []byte {
	if !a.imported {
		return w.zzExpectPub(w.scope, a.number, branch, index)
	}
	k, err := a.key.Derive(branch)
	zzMust(err)
	k, err = k.Derive(index)
	zzMust(err)
	pub, err := k.ECPubKey()
	zzMust(err)
	return pub.SerializeCompressed()
}

// expectAddr encodes pub in the given address format, with btcutil only.
func (w *zzC03bWorld) expectAddr(pub []byte, t AddressType) btcutil.Address {
	h := btcutil.Hash160(pub)
	switch t {
	case PubKeyHash:
		a, err := btcutil.NewAddressPubKeyHash(h, w.params)
		zzMust(err)
		return a
	case WitnessPubKey:
		a, err := btcutil.NewAddressWitnessPubKeyHash(h, w.params)
		zzMust(err)
		return a
	case NestedWitnessPubKey:
		wa, err := btcutil.NewAddressWitnessPubKeyHash(h, w.params)
		zzMust(err)
		prog, err := txscript.PayToAddrScript(wa)
		zzMust(err)
		a, err := btcutil.NewAddressScriptHash(prog, w.params)
		zzMust(err)
		return a
	case TaprootPubKey:
		pk, err := btcec.ParsePubKey(pub)
		zzMust(err)
		tk := txscript.ComputeTaprootKeyNoScript(pk)
		a, err := btcutil.NewAddressTaproot(schnorr.SerializePubKey(tk), w.params)
		zzMust(err)
		return a
	}
	panic("address type")
}

func (w *zzC03bWorld) wantType(a *zzAcct, branch uint32) AddressType {
	schema := ScopeAddrMap[w.scope]
	if a.schema != nil {
		schema = *a.schema
	}
	if branch == InternalBranch {
		return schema.InternalAddrType
	}
	return schema.ExternalAddrType
}

func (w *zzC03bWorld) check(is *zzC03bIssued, ma ManagedAddress, label string) {
	pka, ok := ma.(ManagedPubKeyAddress)
	verifrt.Assert(ok, label+"-is-pubkey-address")
	if !ok {
		return
	}
	want := w.expectPub(is.acct, is.branch, is.index)
	verifrt.Assert(zzBytesEq(pka.PubKey().SerializeCompressed(), want), label+"-public-key-is-the-statements-child")
	wt := w.wantType(is.acct, is.branch)
	verifrt.Assert(ma.AddrType() == wt, label+"-address-format-of-scope-or-account")
	wa := w.expectAddr(want, wt)
	verifrt.Assert(zzBytesEq(ma.Address().ScriptAddress(), wa.ScriptAddress()) && ma.Address().String() == wa.String(),
		label+"-address-encodes-the-public-key-in-the-format")
	sc, path, okInfo := pka.DerivationInfo()
	verifrt.Assert(okInfo && sc == w.scope && path.Branch == is.branch && path.Index == is.index &&
		path.InternalAccount == is.acct.number, label+"-derivation-path-true")
	verifrt.Assert(ma.InternalAccount() == is.acct.number, label+"-account-true")
	verifrt.Assert(ma.Internal() == (is.branch == InternalBranch), label+"-internal-flag-true")
	verifrt.Assert(!ma.Imported() && ma.Compressed(), label+"-not-imported-compressed")
	if !w.mgr.IsLocked() {
		priv, err := pka.PrivKey()
		if !is.acct.imported {
			verifrt.Observe("issued-by", is.how)
			verifrt.Assert(err == nil && priv != nil, label+"-private-key-available-when-unlocked")
		}
		if err == nil && priv != nil {
			verifrt.Assert(zzBytesEq(priv.PubKey().SerializeCompressed(), want), label+"-private-key-matches-public-key")
		}
		verifrt.Reach("privkey-checked")
	}
}

func (w *zzC03bWorld) pickAcct() *zzAcct {
	if len(w.accts) == 1 {
		return w.accts[0]
	}
	return w.accts[verifrt.Choice(len(w.accts), "account")]
}

func (w *zzC03bWorld) record(a *zzAcct, mas []ManagedAddress, branch, first uint32, how string) {
	for k, ma := range mas {
		w.issued = append(w.issued, &zzC03bIssued{acct: a, branch: branch, index: first + uint32(k), addr: ma.Address(), how: how})
	}
}

var zzC03bPriv = []byte{0x21, 0x22, 0x33, 0x44, 0x55, 0x66, 0x77, 0x88, 0x99, 0xaa, 0xbb, 0xcc, 0xdd, 0xee, 0xff, 0x01,
	0x11, 0x22, 0x33, 0x44, 0x55, 0x66, 0x77, 0x88, 0x99, 0xaa, 0xbb, 0xcc, 0xdd, 0xee, 0xff, 0x03}

func (w *zzC03bWorld) step(ops []int) {
	sm := w.sm()
	switch ops[verifrt.Choice(len(ops), "op")] {
	case 0:
		a := w.pickAcct()
		n := uint32(1 + verifrt.Choice(2, "count"))
		verifrt.Note("next-external")
		var mas []ManagedAddress
		zzMust(w.update(func(ns walletdb.ReadWriteBucket) error {
			var err error
			mas, err = sm.NextExternalAddresses(ns, a.number, n)
			return err
		}))
		verifrt.Assert(uint32(len(mas)) == n, "c03b-count-issued")
		w.record(a, mas, ExternalBranch, a.nextExt, "NextExternalAddresses")
		a.nextExt += n
	case 1:
		a := w.pickAcct()
		verifrt.Note("next-internal")
		var mas []ManagedAddress
		zzMust(w.update(func(ns walletdb.ReadWriteBucket) error {
			var err error
			mas, err = sm.NextInternalAddresses(ns, a.number, 1)
			return err
		}))
		w.record(a, mas, InternalBranch, a.nextInt, "NextInternalAddresses")
		a.nextInt++
	case 2: // extend the internal branch (recovery)
		a := w.pickAcct()
		last := a.nextInt + uint32(verifrt.Choice(2, "extend-by"))
		verifrt.Note("extend-internal")
		zzMust(w.update(func(ns walletdb.ReadWriteBucket) error { return sm.ExtendInternalAddresses(ns, a.number, last) }))
		for i := a.nextInt; i <= last; i++ {
			w.issued = append(w.issued, &zzC03bIssued{acct: a, branch: InternalBranch, index: i, how: "ExtendInternalAddresses"})
		}
		a.nextInt = last + 1
		zzMust(w.view(func(ns walletdb.ReadBucket) error {
			ma, err := sm.LastInternalAddress(ns, a.number)
			zzMust(err)
			w.check(&zzC03bIssued{acct: a, branch: InternalBranch, index: last, how: "ExtendInternalAddresses"}, ma, "c03b-last-internal")
			return nil
		}))
		verifrt.Reach("extended")
	case 3:
		verifrt.Note("lock")
		if w.mgr.IsLocked() {
			verifrt.Assume(false)
		}
		zzMust(w.mgr.Lock())
	case 4:
		verifrt.Note("unlock")
		if !w.mgr.IsLocked() {
			verifrt.Assume(false)
		}
		zzMust(w.view(func(ns walletdb.ReadBucket) error { return w.mgr.Unlock(ns, w.pass) }))
	case 5:
		verifrt.Note("restart")
		w.mgr.Close()
		w.open()
		verifrt.Reach("restarted")
	case 6: // private passphrase change (locked or unlocked)
		verifrt.Note("change-passphrase")
		np := []byte("prv-pass-2")
		if zzBytesEq(w.pass, np) {
			np = []byte("prv-pass-3")
		}
		old := w.pass
		zzMust(w.update(func(ns walletdb.ReadWriteBucket) error {
			return w.mgr.ChangePassphrase(ns, old, np, true, zzFastScrypt)
		}))
		w.pass = np
		verifrt.Reach("passphrase-changed")
	case 7: // create a further seeded account
		if w.created >= 1 || w.mgr.IsLocked() {
			verifrt.Assume(false)
		}
		verifrt.Note("new-account")
		var num uint32
		zzMust(w.update(func(ns walletdb.ReadWriteBucket) error {
			var err error
			num, err = sm.NewAccount(ns, "second")
			return err
		}))
		verifrt.Assert(num == uint32(len(w.accts)), "c03b-account-numbers-consecutive")
		w.accts = append(w.accts, &zzAcct{number: num})
		w.created++
		verifrt.Reach("account-created")
	case 8: // import a private key and a script
		if w.impKey != nil || w.mgr.IsLocked() {
			verifrt.Assume(false)
		}
		verifrt.Note("import")
		priv, _ := btcec.PrivKeyFromBytes(zzC03bPriv)
		wif, err := btcutil.NewWIF(priv, w.params, true)
		zzMust(err)
		bs := &BlockStamp{Height: 0}
		w.impPriv = zzC03bPriv
		w.impScrB = []byte{0x51, 0x52, 0x93, 0x88}
		zzMust(w.update(func(ns walletdb.ReadWriteBucket) error {
			ma, err := sm.ImportPrivateKey(ns, wif, bs)
			if err != nil {
				return err
			}
			w.impKey = ma
			sa, err := sm.ImportScript(ns, w.impScrB, bs)
			if err != nil {
				return err
			}
			w.impScr = sa
			return nil
		}))
		verifrt.Reach("imported")
	case 9: // derive by path on a chosen account (possibly locked), index not yet issued
		a := w.pickAcct()
		verifrt.Note("derive-from-path")
		idx := a.nextExt + 1
		var ma ManagedAddress
		zzMust(w.view(func(ns walletdb.ReadBucket) error {
			var err error
			ma, err = sm.DeriveFromKeyPath(ns, DerivationPath{InternalAccount: a.number, Account: a.number, Branch: ExternalBranch, Index: idx})
			return err
		}))
		w.check(&zzC03bIssued{acct: a, branch: ExternalBranch, index: idx, how: "DeriveFromKeyPath"}, ma, "c03b-derived")
	}
}

func (w *zzC03bWorld) checkAll() {
	sm := w.sm()
	zzMust(w.view(func(ns walletdb.ReadBucket) error {
		for _, is := range w.issued {
			if is.addr == nil {
				// extended: its address is the expected one by construction of the oracle
				is.addr = w.expectAddr(w.expectPub(is.acct, is.branch, is.index), w.wantType(is.acct, is.branch))
			}
			ma, err := w.mgr.Address(ns, is.addr)
			verifrt.Assert(err == nil, "c03b-issued-address-known")
			if err != nil {
				continue
			}
			w.check(is, ma, "c03b")
		}
		for _, a := range w.accts {
			props, err := sm.AccountProperties(ns, a.number)
			zzMust(err)
			verifrt.Assert(props.ExternalKeyCount == a.nextExt && props.InternalKeyCount == a.nextInt, "c03b-indices-consecutive")
		}
		// imported key and script are returned unchanged
		if w.impKey != nil {
			ma, err := w.mgr.Address(ns, w.impKey.Address())
			verifrt.Assert(err == nil, "c03b-imported-key-address-known")
			if err == nil {
				pka := ma.(ManagedPubKeyAddress)
				verifrt.Assert(ma.Imported() && ma.InternalAccount() == ImportedAddrAccount, "c03b-imported-key-flagged-imported")
				priv0, _ := btcec.PrivKeyFromBytes(w.impPriv)
				verifrt.Assert(zzBytesEq(pka.PubKey().SerializeCompressed(), priv0.PubKey().SerializeCompressed()), "c03b-imported-public-key-unchanged")
				if !w.mgr.IsLocked() {
					priv, err := pka.PrivKey()
					verifrt.Assert(err == nil && priv != nil && zzBytesEq(priv.Serialize(), w.impPriv), "c03b-imported-private-key-returned-unchanged")
					wif, err := pka.ExportPrivKey()
					verifrt.Assert(err == nil && wif != nil && zzBytesEq(wif.PrivKey.Serialize(), w.impPriv) && wif.CompressPubKey, "c03b-imported-private-key-exported-unchanged")
				}
			}
			sa, err := w.mgr.Address(ns, w.impScr.Address())
			verifrt.Assert(err == nil, "c03b-imported-script-address-known")
			if err == nil && !w.mgr.IsLocked() {
				sc, err := sa.(ManagedScriptAddress).Script()
				verifrt.Assert(err == nil && zzBytesEq(sc, w.impScrB), "c03b-imported-script-returned-unchanged")
			}
		}
		return nil
	}))
}

// recreate: a second wallet made from the same seed issues the same
// addresses, account by account and branch by branch.
func (w *zzC03bWorld) recreate(seed []byte) {
	w2 := zzNewMgrWorld(seed)
	sm2, err := w2.mgr.FetchScopedKeyManager(w.scope)
	zzMust(err)
	zzMust(w2.view(func(ns walletdb.ReadBucket) error { return w2.mgr.Unlock(ns, zzPrvPass) }))
	for _, a := range w.accts {
		if a.imported {
			continue
		}
		var ext, in []ManagedAddress
		zzMust(w2.update(func(ns walletdb.ReadWriteBucket) error {
			if a.number != 0 {
				num, err := sm2.NewAccount(ns, "again")
				if err != nil {
					return err
				}
				verifrt.Assert(num == a.number || len(w.accts) > 2, "c03b-recreated-account-number")
				if num != a.number {
					return nil
				}
			}
			var err error
			if a.nextExt > 0 {
				if ext, err = sm2.NextExternalAddresses(ns, a.number, a.nextExt); err != nil {
					return err
				}
			}
			if a.nextInt > 0 {
				in, err = sm2.NextInternalAddresses(ns, a.number, a.nextInt)
			}
			return err
		}))
		for _, is := range w.issued {
			if is.acct != a || is.addr == nil {
				continue
			}
			var got ManagedAddress
			if is.branch == ExternalBranch && int(is.index) < len(ext) {
				got = ext[is.index]
			} else if is.branch == InternalBranch && int(is.index) < len(in) {
				got = in[is.index]
			}
			if got == nil {
				continue
			}
			verifrt.Assert(got.Address().String() == is.addr.String(), "c03b-recreated-wallet-issues-the-same-address")
			verifrt.Reach("recreated-compared")
		}
	}
}

func zzOps(n int) []int {
	var l []int
	for i := 0; i < n; i++ {
		l = append(l, i)
	}
	return l
}

// zzC03bTwoLocked: two seeded accounts, manager LOCKED: addresses issued while
// locked get their private keys at the next Unlock (derive-on-unlock list,
// which then holds entries of both accounts).
func zzC03bTwoLocked(scope KeyScope, steps int) {
	w := &zzC03bWorld{zzMgrWorld: zzNewMgrWorld(zzSeedA), scope: scope, pass: zzPrvPass}
	w.accts = []*zzAcct{{number: 0}}
	zzMust(w.view(func(ns walletdb.ReadBucket) error { return w.mgr.Unlock(ns, zzPrvPass) }))
	var num uint32
	zzMust(w.update(func(ns walletdb.ReadWriteBucket) error {
		var err error
		num, err = w.sm().NewAccount(ns, "second")
		return err
	}))
	w.accts = append(w.accts, &zzAcct{number: num})
	w.created = 1
	zzMust(w.mgr.Lock())
	for s := 0; s < steps; s++ {
		// next-external, next-internal, lock, unlock, restart
		w.step([]int{0, 1, 3, 4, 5})
		w.checkAll()
		if !w.mgr.IsLocked() && len(w.issued) >= 2 {
			verifrt.Reach("unlocked-after-issuing-while-locked")
		}
	}
	verifrt.Reach("c03b-end")
}

func ZzC03TwoAcctsLockedL3() { zzC03bTwoLocked(KeyScopeBIP0084, 3) }
func ZzC03TwoAcctsLockedL4() { zzC03bTwoLocked(KeyScopeBIP0084, 4) }

func zzC03b(scope KeyScope, steps, nOps int, imported bool, schema *ScopeAddrSchema) {
	ops := zzOps(nOps)
	w := &zzC03bWorld{zzMgrWorld: zzNewMgrWorld(zzSeedA), scope: scope, pass: zzPrvPass}
	w.accts = []*zzAcct{{number: 0}}
	zzMust(w.view(func(ns walletdb.ReadBucket) error { return w.mgr.Unlock(ns, zzPrvPass) }))
	if imported {
		// somebody else's account key: m/scope/9' of the same seed, neutered
		k := w.root
		for _, i := range []uint32{scope.Purpose + hdkeychain.HardenedKeyStart, scope.Coin + hdkeychain.HardenedKeyStart, 9 + hdkeychain.HardenedKeyStart} {
			c, err := k.DeriveNonStandard(i) // nolint:staticcheck
			zzMust(err)
			k = c
		}
		pubK, err := k.Neuter()
		zzMust(err)
		var num uint32
		zzMust(w.update(func(ns walletdb.ReadWriteBucket) error {
			var err error
			num, err = w.sm().NewAccountWatchingOnly(ns, "somebody", pubK, 0x11223344, schema)
			return err
		}))
		ia := &zzAcct{number: num, imported: true, key: pubK, schema: schema}
		// only the imported account is driven in this entry
		w.accts = []*zzAcct{ia}
		verifrt.Reach("imported-account")
	}
	for s := 0; s < steps; s++ {
		w.step(ops)
		w.checkAll()
	}
	if !imported {
		w.recreate(zzSeedA)
	}
	verifrt.Reach("c03b-end")
}

// entries: ops 0..9 = next-ext, next-int, extend-int, lock, unlock, restart,
// change-passphrase, new-account, import, derive
func ZzC03AcctsL2()   { zzC03b(KeyScopeBIP0084, 2, 10, false, nil) }
func ZzC03AcctsL3()   { zzC03b(KeyScopeBIP0084, 3, 10, false, nil) }
func ZzC03Accts86L3() { zzC03b(KeyScopeBIP0086, 3, 10, false, nil) }
func ZzC03Accts44L3() { zzC03b(KeyScopeBIP0044, 3, 10, false, nil) }
func ZzC03ImportedL2() {
	zzC03b(KeyScopeBIP0049Plus, 2, 7, true, &ScopeAddrSchema{ExternalAddrType: NestedWitnessPubKey, InternalAddrType: NestedWitnessPubKey})
}
func ZzC03ImportedL3() {
	zzC03b(KeyScopeBIP0049Plus, 3, 7, true, &ScopeAddrSchema{ExternalAddrType: NestedWitnessPubKey, InternalAddrType: NestedWitnessPubKey})
}
func ZzC03ImportedPlainL3() { zzC03b(KeyScopeBIP0084, 3, 7, true, nil) }
func ZzC03ImportedTaprootL2() {
	zzC03b(KeyScopeBIP0044, 2, 7, true, &ScopeAddrSchema{ExternalAddrType: TaprootPubKey, InternalAddrType: WitnessPubKey})
}

// the override p2pkh/p2pkh is the zero value of ScopeAddrSchema, yet a valid
// override in a scope whose default is something else
func ZzC03ImportedLegacyL2() {
	zzC03b(KeyScopeBIP0084, 2, 7, true, &ScopeAddrSchema{ExternalAddrType: PubKeyHash, InternalAddrType: PubKeyHash})
}
