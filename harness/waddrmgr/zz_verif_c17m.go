//go:build verif

package waddrmgr

import (
	"github.com/btcsuite/btcwallet/snacl"
	"github.com/btcsuite/btcwallet/walletdb"

	"verif/verifrt"
)

// C17 at the address manager (observe_at: waddrmgr.Manager.Encrypt/Decrypt):
// Manager.Encrypt runs concurrently with Manager.Lock. Whatever the
// interleaving of their synchronisation operations, Encrypt either fails
// with a locked error or returns a ciphertext that the same key opens to the
// original bytes once the manager is unlocked again - never one sealed under
// the zeroed key that Lock leaves behind.
func zzC17EncryptVsLock(bound int, kt CryptoKeyType) {
	w := zzNewMgrWorld(zzSeedA)
	zzMust(w.view(func(ns walletdb.ReadBucket) error { return w.mgr.Unlock(ns, zzPrvPass) }))
	pt := verifrt.Bytes("plaintext", 3)
	verifrt.PreemptionBound(bound)
	verifrt.YieldOnUnlock(true)
	var ct []byte
	var encErr error
	done := make(chan struct{})
	go func() {
		ct, encErr = w.mgr.Encrypt(kt, pt)
		close(done)
	}()
	lockErr := w.mgr.Lock()
	<-done
	verifrt.Assert(lockErr == nil, "c17-race-lock-succeeds")
	if encErr != nil {
		verifrt.Reach("encrypt-refused")
		verifrt.Assert(IsError(encErr, ErrLocked), "c17-race-encrypt-fails-only-with-locked")
		verifrt.Reach("c17-end")
		return
	}
	verifrt.Reach("encrypt-succeeded")
	// not under the key Lock leaves behind
	var zeroKey snacl.CryptoKey
	_, zerr := zeroKey.Decrypt(ct)
	verifrt.Assert(zerr != nil, "c17-race-ciphertext-does-not-open-under-the-zeroed-key")
	// the same key opens it to the original bytes
	zzMust(w.view(func(ns walletdb.ReadBucket) error { return w.mgr.Unlock(ns, zzPrvPass) }))
	back, derr := w.mgr.Decrypt(kt, ct)
	verifrt.Assert(derr == nil && zzBytesEq(back, pt), "c17-race-same-key-decrypts-to-the-original-bytes")
	verifrt.Reach("c17-end")
}

func ZzC17EncryptVsLockB2()       { zzC17EncryptVsLock(2, CKTPrivate) }
func ZzC17EncryptVsLockB4()       { zzC17EncryptVsLock(4, CKTPrivate) }
func ZzC17EncryptPublicVsLockB2() { zzC17EncryptVsLock(2, CKTPublic) }
