//go:build verif

package waddrmgr

import (
	"github.com/btcsuite/btcd/btcutil/hdkeychain"
	"github.com/btcsuite/btcwallet/walletdb"

	"verif/verifrt"
)

// C03: bounded histories of address-manager operations; after every step
// every address issued so far is looked up again and must be the seed's
// BIP32 child with a usable private key whenever the manager is unlocked.

type zzC03World struct {
	*zzMgrWorld
	scope   KeyScope
	issued  []*zzIssued
	nextExt uint32
	nextInt uint32
}

func (w *zzC03World) sm() *ScopedKeyManager {
	sm, err := w.mgr.FetchScopedKeyManager(w.scope)
	zzMust(err)
	return sm
}

func (w *zzC03World) record(mas []ManagedAddress, branch uint32, first uint32, how string) {
	for k, ma := range mas {
		is := &zzIssued{scope: w.scope, account: 0, branch: branch, index: first + uint32(k), addr: ma, how: how}
		w.issued = append(w.issued, is)
	}
}

func (w *zzC03World) step() {
	sm := w.sm()
	switch verifrt.Choice(8, "op") {
	case 0: // next external addresses
		n := uint32(1 + verifrt.Choice(2, "count"))
		verifrt.Note("next-external")
		var mas []ManagedAddress
		zzMust(w.update(func(ns walletdb.ReadWriteBucket) error {
			var err error
			mas, err = sm.NextExternalAddresses(ns, 0, n)
			return err
		}))
		verifrt.Assert(uint32(len(mas)) == n, "c03-count-issued")
		w.record(mas, ExternalBranch, w.nextExt, "NextExternalAddresses")
		w.nextExt += n
	case 1: // next internal address
		verifrt.Note("next-internal")
		var mas []ManagedAddress
		zzMust(w.update(func(ns walletdb.ReadWriteBucket) error {
			var err error
			mas, err = sm.NextInternalAddresses(ns, 0, 1)
			return err
		}))
		w.record(mas, InternalBranch, w.nextInt, "NextInternalAddresses")
		w.nextInt++
	case 2: // extend the external branch up to an index (recovery)
		last := w.nextExt + uint32(verifrt.Choice(2, "extend-by"))
		verifrt.Note("extend-external")
		zzMust(w.update(func(ns walletdb.ReadWriteBucket) error { return sm.ExtendExternalAddresses(ns, 0, last) }))
		for i := w.nextExt; i <= last; i++ {
			w.issued = append(w.issued, &zzIssued{scope: w.scope, branch: ExternalBranch, index: i, how: "ExtendExternalAddresses"})
		}
		w.nextExt = last + 1
		// the last address reported is the one just extended to
		zzMust(w.view(func(ns walletdb.ReadBucket) error {
			ma, err := sm.LastExternalAddress(ns, 0)
			zzMust(err)
			w.checkAddress(&zzIssued{scope: w.scope, branch: ExternalBranch, index: last, how: "ExtendExternalAddresses"}, ma, "c03-last-external")
			return nil
		}))
		verifrt.Reach("extended")
	case 3: // mark the first issued address used (evicts it from the cache)
		if len(w.issued) == 0 || w.issued[0].addr == nil {
			verifrt.Assume(false)
		}
		verifrt.Note("mark-used")
		a := w.issued[0].addr.Address()
		zzMust(w.update(func(ns walletdb.ReadWriteBucket) error { return sm.MarkUsed(ns, a) }))
	case 4:
		verifrt.Note("lock")
		if w.mgr.IsLocked() {
			verifrt.Assume(false)
		}
		zzMust(w.mgr.Lock())
	case 5:
		verifrt.Note("unlock")
		if !w.mgr.IsLocked() {
			verifrt.Assume(false)
		}
		zzMust(w.view(func(ns walletdb.ReadBucket) error { return w.mgr.Unlock(ns, zzPrvPass) }))
	case 6:
		verifrt.Note("restart")
		w.mgr.Close()
		w.open()
		verifrt.Reach("restarted")
	case 7: // derive by path (possibly while locked), an index not yet issued
		verifrt.Note("derive-from-path")
		idx := w.nextExt + 1
		var ma ManagedAddress
		zzMust(w.view(func(ns walletdb.ReadBucket) error {
			var err error
			ma, err = sm.DeriveFromKeyPath(ns, DerivationPath{InternalAccount: 0, Account: 0, Branch: ExternalBranch, Index: idx})
			return err
		}))
		// derived addresses are not "issued" (not persisted) but must be correct
		w.checkAddress(&zzIssued{scope: w.scope, branch: ExternalBranch, index: idx, how: "DeriveFromKeyPath"}, ma, "c03-derived")
	}
}

// checkAll looks every issued address up again (through the address index)
// and checks it.
func (w *zzC03World) checkAll() {
	sm := w.sm()
	zzMust(w.view(func(ns walletdb.ReadBucket) error {
		for _, is := range w.issued {
			// find it by its address: derive the expected address via DeriveFromKeyPath
			// only for those we do not hold; issued ones are looked up by address
			if is.addr == nil {
				ma, err := sm.DeriveFromKeyPath(ns, DerivationPath{Account: is.account, Branch: is.branch, Index: is.index})
				zzMust(err)
				is.addr = ma
			}
			ma, err := w.mgr.Address(ns, is.addr.Address())
			verifrt.Assert(err == nil, "c03-issued-address-known")
			if err != nil {
				continue
			}
			w.checkAddress(is, ma, "c03")
		}
		// indices are consecutive from zero without repetition
		props, err := sm.AccountProperties(ns, 0)
		zzMust(err)
		verifrt.Assert(props.ExternalKeyCount == w.nextExt && props.InternalKeyCount == w.nextInt, "c03-indices-consecutive")
		return nil
	}))
}

func zzC03(scope KeyScope, steps int, startUnlocked bool) {
	zzC03Seed(zzSeedA, scope, steps, startUnlocked)
}

func zzC03Seed(seed []byte, scope KeyScope, steps int, startUnlocked bool) {
	w := &zzC03World{zzMgrWorld: zzNewMgrWorld(seed), scope: scope}
	if len(seed) == len(zzSeedLegacyPurpose) && seed[3] == zzSeedLegacyPurpose[3] && seed[2] == 1 {
		k, err := w.root.DeriveNonStandard(scope.Purpose + hdkeychain.HardenedKeyStart) // nolint:staticcheck
		zzMust(err)
		if k.IsAffectedByIssue172() {
			verifrt.Reach("legacy-rule-differs-from-bip32-at-the-coin-type-key")
		}
	}
	if len(seed) == len(zzSeedLegacy) && seed[3] == zzSeedLegacy[3] && seed[0] == 0 && seed[2] == 0 {
		// the seed was chosen for this: check it, so that the entry is not vacuous
		k, err := w.root.DeriveNonStandard(scope.Purpose + hdkeychain.HardenedKeyStart) // nolint:staticcheck
		zzMust(err)
		k, err = k.DeriveNonStandard(scope.Coin + hdkeychain.HardenedKeyStart) // nolint:staticcheck
		zzMust(err)
		if k.IsAffectedByIssue172() {
			verifrt.Reach("legacy-rule-differs-from-bip32")
		}
	}
	if startUnlocked {
		zzMust(w.view(func(ns walletdb.ReadBucket) error { return w.mgr.Unlock(ns, zzPrvPass) }))
	}
	for s := 0; s < steps; s++ {
		w.step()
		w.checkAll()
	}
	verifrt.Reach("c03-end")
}

func ZzC03Bip84L2()             { zzC03(KeyScopeBIP0084, 2, true) }
func ZzC03Bip84L3()             { zzC03(KeyScopeBIP0084, 3, true) }
func ZzC03Bip84L3Locked()       { zzC03(KeyScopeBIP0084, 3, false) }
func ZzC03Bip44L3()             { zzC03(KeyScopeBIP0044, 3, true) }
func ZzC03Bip49L3()             { zzC03(KeyScopeBIP0049Plus, 3, true) }
func ZzC03Bip86L3()             { zzC03(KeyScopeBIP0086, 3, true) }
func ZzC03Bip84L4()             { zzC03(KeyScopeBIP0084, 4, true) }
func ZzC03LegacySeedL2()        { zzC03Seed(zzSeedLegacy, KeyScopeBIP0084, 2, true) }
func ZzC03LegacyPurposeSeedL2() { zzC03Seed(zzSeedLegacyPurpose, KeyScopeBIP0084, 2, true) }
