//go:build verif

package waddrmgr

import (
	"github.com/btcsuite/btcd/btcec/v2"
	"github.com/btcsuite/btcd/btcutil"
	"github.com/btcsuite/btcd/btcutil/hdkeychain"
	"github.com/btcsuite/btcwallet/walletdb"

	"verif/verifrt"
)

// C05: lock wipes memory; locked means no private access; only the current
// passphrase unlocks.

type zzC05World struct {
	*zzMgrWorld
	sm       *ScopedKeyManager
	pubAddr  []ManagedPubKeyAddress // chained and imported key addresses
	scripts  []ManagedScriptAddress // imported script addresses (secret)
	cached   []DerivationPath       // paths used with DeriveFromKeyPathCache
	privCT   []byte                 // a ciphertext under the private crypto key
	scriptCT []byte                 // a ciphertext under the script crypto key
	pass     []byte
	taproot  ManagedTaprootScriptAddress
	kept     []ManagedPubKeyAddress // derived by path while unlocked, held by the caller only
}

func zzAllZero(b []byte) bool {
	for _, x := range b {
		if x != 0 {
			return false
		}
	}
	return true
}

func zzNewC05World(state0 int) *zzC05World {
	state := state0
	if state == 5 || state == 6 {
		state = 1
	}
	w := &zzC05World{zzMgrWorld: zzNewMgrWorld(zzSeedA), pass: zzPrvPass}
	sm, err := w.mgr.FetchScopedKeyManager(KeyScopeBIP0084)
	zzMust(err)
	w.sm = sm
	zzMust(w.view(func(ns walletdb.ReadBucket) error { return w.mgr.Unlock(ns, zzPrvPass) }))
	var e error
	w.privCT, e = w.mgr.Encrypt(CKTPrivate, []byte{1, 2, 3})
	zzMust(e)
	w.scriptCT, e = w.mgr.Encrypt(CKTScript, []byte{4, 5, 6})
	zzMust(e)
	if state >= 1 {
		// issued addresses, a lookup, a cached derivation
		zzMust(w.update(func(ns walletdb.ReadWriteBucket) error {
			mas, err := sm.NextExternalAddresses(ns, 0, 2)
			if err != nil {
				return err
			}
			for _, ma := range mas {
				w.pubAddr = append(w.pubAddr, ma.(ManagedPubKeyAddress))
			}
			mas, err = sm.NextInternalAddresses(ns, 0, 1)
			if err != nil {
				return err
			}
			w.pubAddr = append(w.pubAddr, mas[0].(ManagedPubKeyAddress))
			_, err = w.mgr.Address(ns, w.pubAddr[0].Address())
			return err
		}))
		// an address object derived by path while unlocked and kept by the
		// caller: the manager does not hold it (Lock cannot wipe it), its
		// accessors must still refuse once the manager is locked
		zzMust(w.view(func(ns walletdb.ReadBucket) error {
			ma, err := sm.DeriveFromKeyPath(ns, DerivationPath{InternalAccount: 0, Account: 0, Branch: ExternalBranch, Index: 7})
			if err != nil {
				return err
			}
			pk, err := ma.(ManagedPubKeyAddress).PrivKey()
			verifrt.Assert(err == nil && pk != nil, "c05-setup-derived-address-has-key")
			w.kept = append(w.kept, ma.(ManagedPubKeyAddress))
			return nil
		}))
		verifrt.Reach("kept-derived-address")
		kp := DerivationPath{InternalAccount: 0, Account: 0, Branch: ExternalBranch, Index: 1}
		k, err := sm.DeriveFromKeyPathCache(kp)
		zzMust(err)
		verifrt.Assert(k != nil, "c05-setup-cached-derivation")
		w.cached = append(w.cached, kp)
	}
	if state >= 2 {
		// imported private key, P2SH script, secret witness script
		priv, _ := btcec.PrivKeyFromBytes([]byte{0x11, 0x22, 0x33, 0x44, 0x55, 0x66, 0x77, 0x88, 0x99, 0xaa, 0xbb, 0xcc, 0xdd, 0xee, 0xff, 0x01,
			0x11, 0x22, 0x33, 0x44, 0x55, 0x66, 0x77, 0x88, 0x99, 0xaa, 0xbb, 0xcc, 0xdd, 0xee, 0xff, 0x02})
		wif, err := btcutil.NewWIF(priv, w.params, true)
		zzMust(err)
		bs := &BlockStamp{Height: 0}
		zzMust(w.update(func(ns walletdb.ReadWriteBucket) error {
			ma, err := sm.ImportPrivateKey(ns, wif, bs)
			if err != nil {
				return err
			}
			w.pubAddr = append(w.pubAddr, ma)
			sa, err := sm.ImportScript(ns, []byte{0x51, 0x52, 0x93, 0x87}, bs)
			if err != nil {
				return err
			}
			w.scripts = append(w.scripts, sa)
			ws, err := sm.ImportWitnessScript(ns, []byte{0x51, 0x53, 0x93, 0x87}, bs, 0, true)
			if err != nil {
				return err
			}
			w.scripts = append(w.scripts, ws)
			// a secret taproot script (full output key only)
			tpriv, _ := btcec.PrivKeyFromBytes([]byte{0x41, 0x22, 0x33, 0x44, 0x55, 0x66, 0x77, 0x88, 0x99, 0xaa, 0xbb, 0xcc, 0xdd, 0xee, 0xff, 0x01,
				0x11, 0x22, 0x33, 0x44, 0x55, 0x66, 0x77, 0x88, 0x99, 0xaa, 0xbb, 0xcc, 0xdd, 0xee, 0xff, 0x07})
			ts, err := sm.ImportTaprootScript(ns, &Tapscript{Type: TaprootFullKeyOnly, FullOutputKey: tpriv.PubKey()}, bs, 1, true)
			if err != nil {
				return err
			}
			w.scripts = append(w.scripts, ts)
			w.taproot = ts
			// read it once while unlocked (whatever the accessor keeps from
			// this call must not be served after Lock)
			tsc, err := ts.TaprootScript()
			verifrt.Assert(err == nil && tsc != nil && tsc.Type == TaprootFullKeyOnly, "c05-setup-taproot-script-readable-unlocked")
			verifrt.Reach("taproot-script-imported")
			return nil
		}))
		for _, sa := range w.scripts {
			sc, err := sa.Script()
			verifrt.Assert(err == nil && len(sc) >= 4, "c05-setup-script-readable-unlocked")
		}
		verifrt.Reach("imports")
	}
	if state == 4 {
		// an imported extended-public-key (watch-only) account inside the
		// seeded manager, loaded into the account cache by issuing an address
		acctKey, err := zzImportedAccountKey(w.root)
		zzMust(err)
		zzMust(w.update(func(ns walletdb.ReadWriteBucket) error {
			acct, err := sm.NewAccountWatchingOnly(ns, "somebody", acctKey, 0x11223344, nil)
			if err != nil {
				return err
			}
			_, err = sm.NextExternalAddresses(ns, acct, 1)
			return err
		}))
		verifrt.Reach("watch-only-account-loaded")
	}
	return w
}

// zzImportedAccountKey: the public account key m/84'/0'/7' of the same seed,
// handed to the manager as somebody else's xpub.
func zzImportedAccountKey(root *hdkeychain.ExtendedKey) (*hdkeychain.ExtendedKey, error) {
	k := root
	for _, i := range []uint32{84 + hdkeychain.HardenedKeyStart, hdkeychain.HardenedKeyStart, 7 + hdkeychain.HardenedKeyStart} {
		c, err := k.DeriveNonStandard(i)
		if err != nil {
			return nil, err
		}
		k = c
	}
	return k.Neuter()
}

// wiped: (a) after Lock every clear-text secret in memory is zero.
func (w *zzC05World) wiped(label string) {
	m := w.mgr
	verifrt.Assert(m.IsLocked(), label+"-locked")
	verifrt.Assert(zzAllZero(m.masterKeyPriv.Key[:]), label+"-master-key-zeroed")
	verifrt.Assert(zzAllZero(m.cryptoKeyPriv.(*cryptoKey).CryptoKey[:]), label+"-crypto-key-priv-zeroed")
	verifrt.Assert(zzAllZero(m.cryptoKeyScript.(*cryptoKey).CryptoKey[:]), label+"-crypto-key-script-zeroed")
	verifrt.Assert(zzAllZero(m.hashedPrivPassphrase[:]), label+"-hashed-passphrase-zeroed")
	for _, sm := range m.scopedManagers {
		for _, ai := range sm.acctInfo {
			verifrt.Assert(ai.acctKeyPriv == nil, label+"-account-private-key-dropped")
			// the account's cached last addresses are address objects of
			// their own (derived when the account row is loaded), not
			// necessarily members of sm.addrs
			for _, la := range []ManagedAddress{ai.lastExternalAddr, ai.lastInternalAddr} {
				if a, ok := la.(*managedAddress); ok {
					verifrt.Reach("last-address-checked")
					verifrt.Assert(zzAllZero(a.privKeyCT), label+"-account-last-address-private-key-zeroed")
				}
			}
		}
		for _, ma := range sm.addrs {
			switch a := ma.(type) {
			case *managedAddress:
				verifrt.Observe("address-kind", "managedAddress")
				verifrt.Assert(zzAllZero(a.privKeyCT), label+"-address-private-key-zeroed")
			case *scriptAddress:
				verifrt.Observe("address-kind", "scriptAddress")
				verifrt.Assert(zzAllZero(a.scriptClearText), label+"-script-cleartext-zeroed")
			case *witnessScriptAddress:
				verifrt.Observe("address-kind", "witnessScriptAddress")
				if a.isSecretScript {
					verifrt.Assert(zzAllZero(a.scriptClearText), label+"-witness-script-cleartext-zeroed")
				}
			case *taprootScriptAddress:
				verifrt.Observe("address-kind", "taprootScriptAddress")
				if a.isSecretScript {
					verifrt.Assert(zzAllZero(a.scriptClearText), label+"-taproot-script-cleartext-zeroed")
				}
			}
		}
		verifrt.Observe("address-kind", "")
		// the address objects the manager itself handed out (issued or
		// imported; not the caller-owned results of DeriveFromKeyPath) are
		// its own objects: wiped too, whether or not it still indexes them
		for _, pa := range w.pubAddr {
			if a, ok := pa.(*managedAddress); ok {
				verifrt.Assert(zzAllZero(a.privKeyCT), label+"-handed-out-address-private-key-zeroed")
			}
		}
		for _, kp := range w.cached {
			ck, err := sm.privKeyCache.Get(kp)
			if err == nil && ck != nil {
				verifrt.Assert(zzAllZero(ck.key.Serialize()), label+"-cached-derived-key-zeroed")
			}
		}
	}
}

// gated: (b) every private accessor fails while locked (or watching-only).
func (w *zzC05World) gated(label string) {
	isLockErr := func(err error) bool {
		return IsError(err, ErrLocked) || IsError(err, ErrWatchingOnly)
	}
	for _, a := range append(append([]ManagedPubKeyAddress{}, w.pubAddr...), w.kept...) {
		verifrt.Observe("accessor", "PrivKey")
		k, err := a.PrivKey()
		verifrt.Assert(k == nil && isLockErr(err), label+"-privkey-refused")
		verifrt.Observe("accessor", "ExportPrivKey")
		wif, err := a.ExportPrivKey()
		verifrt.Assert(wif == nil && isLockErr(err), label+"-export-refused")
	}
	for _, s := range w.scripts {
		verifrt.Observe("accessor", "Script")
		sc, err := s.Script()
		verifrt.Assert(sc == nil && isLockErr(err), label+"-script-refused")
	}
	if w.taproot != nil {
		verifrt.Observe("accessor", "TaprootScript")
		ts, err := w.taproot.TaprootScript()
		verifrt.Assert(ts == nil && isLockErr(err), label+"-taproot-script-refused")
	}
	verifrt.Observe("accessor", "Decrypt")
	d, err := w.mgr.Decrypt(CKTPrivate, w.privCT)
	verifrt.Assert(d == nil && isLockErr(err), label+"-decrypt-private-refused")
	d, err = w.mgr.Decrypt(CKTScript, w.scriptCT)
	verifrt.Assert(d == nil && isLockErr(err), label+"-decrypt-script-refused")
	verifrt.Observe("accessor", "DeriveFromKeyPathCache")
	for _, kp := range w.cached {
		k, err := w.sm.DeriveFromKeyPathCache(kp)
		verifrt.Assert(k == nil && isLockErr(err), label+"-cached-derivation-refused")
	}
	k, err := w.sm.DeriveFromKeyPathCache(DerivationPath{Branch: ExternalBranch, Index: 5})
	verifrt.Assert(k == nil && isLockErr(err), label+"-derivation-refused")
	verifrt.Observe("accessor", "NewAccount")
	rerr := w.update(func(ns walletdb.ReadWriteBucket) error {
		_, err := w.sm.NewAccount(ns, "savings")
		verifrt.Assert(isLockErr(err), label+"-new-account-refused")
		priv, _ := btcec.PrivKeyFromBytes([]byte{9, 9, 9})
		wif, e := btcutil.NewWIF(priv, w.params, true)
		zzMust(e)
		verifrt.Observe("accessor", "ImportPrivateKey")
		_, err = w.sm.ImportPrivateKey(ns, wif, &BlockStamp{})
		verifrt.Assert(isLockErr(err), label+"-import-key-refused")
		verifrt.Observe("accessor", "ImportScript")
		_, err = w.sm.ImportScript(ns, []byte{0x51, 0x54, 0x93, 0x87}, &BlockStamp{})
		verifrt.Assert(isLockErr(err), label+"-import-script-refused")
		return walletdb.ErrDryRunRollBack
	})
	verifrt.Assert(rerr == walletdb.ErrDryRunRollBack, label+"-dry-run")
	verifrt.Observe("accessor", "")
}

func zzC05Lock(state int) {
	w := zzNewC05World(state)
	if state == 3 {
		// restart, unlock, then have the account row loaded while unlocked
		// (AccountProperties derives the account's last addresses with
		// their private keys)
		w.mgr.Close()
		w.open()
		sm, err := w.mgr.FetchScopedKeyManager(KeyScopeBIP0084)
		zzMust(err)
		w.sm = sm
		zzMust(w.view(func(ns walletdb.ReadBucket) error { return w.mgr.Unlock(ns, zzPrvPass) }))
		zzMust(w.view(func(ns walletdb.ReadBucket) error {
			_, err := w.sm.AccountProperties(ns, 0)
			return err
		}))
		w.pubAddr, w.scripts, w.cached = nil, nil, nil
	}
	if state == 5 {
		// restart, unlock, and import a private key and a secret script into
		// a key scope in which NO account has been loaded in this session
		w.mgr.Close()
		w.open()
		sm, err := w.mgr.FetchScopedKeyManager(KeyScopeBIP0049Plus)
		zzMust(err)
		w.sm = sm
		w.pubAddr, w.scripts, w.cached = nil, nil, nil
		zzMust(w.view(func(ns walletdb.ReadBucket) error { return w.mgr.Unlock(ns, zzPrvPass) }))
		priv, _ := btcec.PrivKeyFromBytes([]byte{0x31, 0x22, 0x33, 0x44, 0x55, 0x66, 0x77, 0x88, 0x99, 0xaa, 0xbb, 0xcc, 0xdd, 0xee, 0xff, 0x01,
			0x11, 0x22, 0x33, 0x44, 0x55, 0x66, 0x77, 0x88, 0x99, 0xaa, 0xbb, 0xcc, 0xdd, 0xee, 0xff, 0x05})
		wif, err := btcutil.NewWIF(priv, w.params, true)
		zzMust(err)
		zzMust(w.update(func(ns walletdb.ReadWriteBucket) error {
			ma, err := sm.ImportPrivateKey(ns, wif, &BlockStamp{})
			if err != nil {
				return err
			}
			w.pubAddr = append(w.pubAddr, ma)
			sa, err := sm.ImportScript(ns, []byte{0x51, 0x55, 0x93, 0x87}, &BlockStamp{})
			if err != nil {
				return err
			}
			w.scripts = append(w.scripts, sa)
			return nil
		}))
		verifrt.Assert(len(sm.acctInfo) == 0, "c05-setup-no-account-loaded-in-scope")
		verifrt.Reach("imports-into-untouched-scope")
	}
	if state == 6 {
		// a cached derivation whose account is then dropped from the account cache
		kp := DerivationPath{InternalAccount: 0, Account: 0, Branch: ExternalBranch, Index: 3}
		k, err := w.sm.DeriveFromKeyPathCache(kp)
		zzMust(err)
		verifrt.Assert(k != nil, "c05-setup-cached-derivation")
		w.cached = append(w.cached, kp)
		w.sm.InvalidateAccountCache(0)
		verifrt.Reach("account-cache-invalidated")
	}
	zzMust(w.mgr.Lock())
	w.wiped("c05-wipe")
	w.gated("c05-gate")
	verifrt.Reach("c05-end")
}

func ZzC05LockUntouchedScope() { zzC05Lock(5) }
func ZzC05LockInvalidated()    { zzC05Lock(6) }
func ZzC05LockFresh()          { zzC05Lock(0) }
func ZzC05LockIssued()         { zzC05Lock(1) }
func ZzC05LockImports()        { zzC05Lock(2) }
func ZzC05LockReloaded()       { zzC05Lock(3) }

// ZzC05Guess: Unlock with an arbitrary same-length passphrase succeeds iff it
// is the passphrase; a failed attempt leaves the manager locked.
func zzC05Guess(state int) {
	w := zzNewC05World(state)
	zzMust(w.mgr.Lock())
	guess := verifrt.Bytes("guess", len(zzPrvPass))
	var err error
	zzMust(w.view(func(ns walletdb.ReadBucket) error {
		err = w.mgr.Unlock(ns, guess)
		return nil
	}))
	same := verifrt.BytesEq(guess, zzPrvPass)
	verifrt.Assert((err == nil) == same, "c05-exactly-the-passphrase-unlocks")
	if err != nil {
		verifrt.Assert(IsError(err, ErrWrongPassphrase), "c05-wrong-passphrase-error")
		verifrt.Assert(w.mgr.IsLocked(), "c05-failed-unlock-leaves-locked")
		w.gated("c05-after-failed-unlock")
		verifrt.Reach("wrong-passphrase")
	} else {
		verifrt.Assert(!w.mgr.IsLocked(), "c05-unlocked")
		for _, a := range w.pubAddr {
			k, e := a.PrivKey()
			verifrt.Assert(e == nil && k != nil, "c05-keys-available-after-unlock")
		}
		verifrt.Reach("right-passphrase")
	}
	verifrt.Reach("c05-end")
}

func ZzC05GuessFresh()            { zzC05Guess(0) }
func ZzC05GuessImports()          { zzC05Guess(2) }
func ZzC05GuessWatchOnlyAccount() { zzC05Guess(4) }
func ZzC05LockWatchOnlyAccount()  { zzC05Lock(4) }

// ZzC05FailedUnlock: an Unlock that fails half way (here: the account row's
// encrypted private key is damaged, so the step after the master and crypto
// keys were already decrypted fails) must leave the manager locked AND wiped.
func ZzC05FailedUnlock() {
	w := zzNewC05World(1)
	zzMust(w.mgr.Lock())
	ai := w.sm.acctInfo[0]
	verifrt.Assert(ai != nil && len(ai.acctKeyEncrypted) > 30, "c05-setup-account-cached")
	ai.acctKeyEncrypted[30] ^= 0x40
	var err error
	zzMust(w.view(func(ns walletdb.ReadBucket) error {
		err = w.mgr.Unlock(ns, zzPrvPass)
		return nil
	}))
	verifrt.Assert(err != nil, "c05-damaged-account-key-fails-unlock")
	w.wiped("c05-failed-unlock-wipe")
	w.gated("c05-failed-unlock-gate")
	verifrt.Reach("c05-end")
}

// ZzC05Change: changing the private (or public) passphrase makes the new one
// work and the old one fail, immediately and after restart; a wrong old
// passphrase changes nothing.
func ZzC05Change() {
	w := zzNewC05World(1)
	newPass := []byte("new-pass")
	private := verifrt.Choice(2, "which-passphrase") == 0
	if verifrt.Choice(2, "locked-during-change") == 1 {
		zzMust(w.mgr.Lock())
	}
	wrongOld := verifrt.Choice(2, "wrong-old") == 1
	oldP := zzPubPass
	if private {
		oldP = zzPrvPass
	}
	given := oldP
	if wrongOld {
		given = []byte("bad-pass")
	}
	err := w.update(func(ns walletdb.ReadWriteBucket) error {
		return w.mgr.ChangePassphrase(ns, given, newPass, private, zzFastScrypt)
	})
	verifrt.Assert((err == nil) == !wrongOld, "c05-change-needs-old-passphrase")
	cur, other := newPass, oldP
	if wrongOld {
		cur, other = oldP, newPass
		verifrt.Reach("wrong-old")
	}
	check := func(label string) {
		if private {
			// an Unlock on a manager that is still unlocked takes a
			// different path (cached passphrase hash): try it both without
			// and with a Lock in between
			mode := 0
			if !w.mgr.IsLocked() {
				mode = verifrt.Choice(3, "recheck-mode")
				if mode == 0 {
					zzMust(w.mgr.Lock())
				} else {
					verifrt.Reach("unlock-while-unlocked")
				}
			}
			zzMust(w.view(func(ns walletdb.ReadBucket) error {
				if mode == 1 {
					verifrt.Assert(w.mgr.Unlock(ns, cur) == nil && !w.mgr.IsLocked(), label+"-current-private-passphrase-accepted-while-unlocked")
				}
				verifrt.Assert(w.mgr.Unlock(ns, other) != nil && w.mgr.IsLocked(), label+"-other-private-passphrase-fails")
				verifrt.Assert(w.mgr.Unlock(ns, cur) == nil && !w.mgr.IsLocked(), label+"-current-private-passphrase-unlocks")
				return nil
			}))
			for _, a := range w.pubAddr {
				k, e := a.PrivKey()
				verifrt.Assert(e == nil && k != nil, label+"-keys-available")
			}
		}
	}
	check("c05-now")
	// restart
	w.mgr.Close()
	pub := zzPubPass
	if !private && !wrongOld {
		pub = newPass
		zzMust(w.view(func(ns walletdb.ReadBucket) error {
			_, err := Open(ns, zzPubPass, w.params)
			verifrt.Assert(err != nil, "c05-old-public-passphrase-fails-after-restart")
			return nil
		}))
	}
	zzMust(w.view(func(ns walletdb.ReadBucket) error {
		m, err := Open(ns, pub, w.params)
		verifrt.Assert(err == nil, "c05-current-public-passphrase-opens")
		w.mgr = m
		return err
	}))
	// re-fetch the addresses from the new manager
	sm, err := w.mgr.FetchScopedKeyManager(KeyScopeBIP0084)
	zzMust(err)
	w.sm = sm
	var fresh []ManagedPubKeyAddress
	zzMust(w.view(func(ns walletdb.ReadBucket) error {
		for _, a := range w.pubAddr {
			ma, err := w.mgr.Address(ns, a.Address())
			zzMust(err)
			fresh = append(fresh, ma.(ManagedPubKeyAddress))
		}
		return nil
	}))
	w.pubAddr = fresh
	if !private {
		zzMust(w.view(func(ns walletdb.ReadBucket) error { return w.mgr.Unlock(ns, zzPrvPass) }))
	}
	check("c05-after-restart")
	verifrt.Reach("c05-end")
}

// ZzC05LongPassphrase: a private passphrase of 110 bytes (longer than any
// hash block or scratch buffer). Both ways Unlock checks a passphrase - from
// locked (key derivation) and while already unlocked (salted hash kept in
// memory) - accept the passphrase and refuse a guess that differs from it in
// one byte, at the beginning, around the 64-, 96- and 128-byte marks of
// salt||passphrase or at the very end; a refused guess locks the manager.
func ZzC05LongPassphrase() {
	pass := make([]byte, 110)
	for i := range pass {
		pass[i] = byte('A' + i%26)
	}
	w := zzNewMgrWorldPass(zzSeedA, pass)
	positions := []int{0, 31, 32, 63, 64, 95, 96, 97, 109}
	pos := positions[verifrt.Choice(len(positions), "differs-at")]
	mask := verifrt.U8("mask")
	verifrt.Assume(mask != 0)
	guess := append([]byte{}, pass...)
	guess[pos] ^= mask
	whileUnlocked := verifrt.Choice(2, "guess-while-unlocked") == 1
	zzMust(w.view(func(ns walletdb.ReadBucket) error {
		verifrt.Assert(w.mgr.Unlock(ns, pass) == nil && !w.mgr.IsLocked(), "c05-long-passphrase-unlocks")
		verifrt.Assert(w.mgr.Unlock(ns, pass) == nil && !w.mgr.IsLocked(), "c05-long-passphrase-accepted-while-unlocked")
		if !whileUnlocked {
			zzMust(w.mgr.Lock())
		} else {
			verifrt.Reach("guess-while-unlocked")
		}
		err := w.mgr.Unlock(ns, guess)
		verifrt.Assert(err != nil && IsError(err, ErrWrongPassphrase), "c05-long-passphrase-one-byte-off-refused")
		verifrt.Assert(w.mgr.IsLocked(), "c05-refused-guess-leaves-it-locked")
		verifrt.Assert(w.mgr.Unlock(ns, pass) == nil, "c05-long-passphrase-unlocks-again")
		return nil
	}))
	verifrt.Reach("c05-end")
}

// zzC05LockedHistory: "the current private passphrase always unlocks it,
// whatever accounts and addresses have been created or loaded". The manager
// (fresh, with issued addresses, or restarted) is LOCKED; then `steps`
// operations that are allowed while locked - issuing an external or internal
// address (its private key is owed at the next unlock), renaming the account,
// looking the account up, dropping it from the account cache - in any order;
// then Unlock with the current passphrase succeeds (no error, no panic), every
// address issued while locked answers PrivKey with the key matching its public
// key, a wrong passphrase afterwards locks the manager again, and the lock
// wipes everything.
func zzC05LockedHistory(state, steps int) {
	w := zzNewC05World(state)
	if verifrt.Choice(2, "restarted") == 1 {
		w.mgr.Close()
		w.open()
		sm, err := w.mgr.FetchScopedKeyManager(KeyScopeBIP0084)
		zzMust(err)
		w.sm = sm
		w.pubAddr, w.scripts, w.cached, w.kept = nil, nil, nil, nil
		w.taproot = nil
		verifrt.Reach("restarted")
	} else {
		zzMust(w.mgr.Lock())
	}
	var owed []ManagedPubKeyAddress
	names := 0
	for s := 0; s < steps; s++ {
		switch verifrt.Choice(5, "locked-op") {
		case 0, 1:
			internal := false
			if verifrt.Choice(2, "branch") == 1 {
				internal = true
			}
			zzMust(w.update(func(ns walletdb.ReadWriteBucket) error {
				var mas []ManagedAddress
				var err error
				if internal {
					mas, err = w.sm.NextInternalAddresses(ns, 0, 1)
				} else {
					mas, err = w.sm.NextExternalAddresses(ns, 0, 1)
				}
				if err != nil {
					return err
				}
				owed = append(owed, mas[0].(ManagedPubKeyAddress))
				return nil
			}))
			verifrt.Reach("issued-while-locked")
		case 2:
			names++
			zzMust(w.update(func(ns walletdb.ReadWriteBucket) error {
				return w.sm.RenameAccount(ns, 0, []string{"alice", "bob", "carol"}[names%3])
			}))
			verifrt.Reach("renamed-while-locked")
		case 3:
			zzMust(w.view(func(ns walletdb.ReadBucket) error {
				_, err := w.sm.AccountProperties(ns, 0)
				return err
			}))
		case 4:
			w.sm.InvalidateAccountCache(0)
		}
	}
	uerr := w.view(func(ns walletdb.ReadBucket) error { return w.mgr.Unlock(ns, w.pass) })
	verifrt.Assert(uerr == nil && !w.mgr.IsLocked(), "c05-current-passphrase-unlocks-after-any-locked-history")
	if uerr != nil {
		return
	}
	for _, a := range owed {
		priv, err := a.PrivKey()
		verifrt.Assert(err == nil && priv != nil, "c05-address-issued-while-locked-has-its-private-key-after-unlock")
		if err == nil && priv != nil {
			verifrt.Assert(zzBytesEq(priv.PubKey().SerializeCompressed(), a.PubKey().SerializeCompressed()), "c05-private-key-issued-while-locked-matches-its-public-key")
		}
		// ... also when the address is looked up afresh
		zzMust(w.view(func(ns walletdb.ReadBucket) error {
			ma, err := w.mgr.Address(ns, a.Address())
			zzMust(err)
			p2, err := ma.(ManagedPubKeyAddress).PrivKey()
			verifrt.Assert(err == nil && p2 != nil && zzBytesEq(p2.PubKey().SerializeCompressed(), a.PubKey().SerializeCompressed()), "c05-looked-up-address-has-its-private-key-after-unlock")
			return nil
		}))
		w.pubAddr = append(w.pubAddr, a)
	}
	// a wrong passphrase now fails and leaves the manager locked
	werr := w.view(func(ns walletdb.ReadBucket) error { return w.mgr.Unlock(ns, []byte("not-the-passphrase")) })
	verifrt.Assert(werr != nil && w.mgr.IsLocked(), "c05-wrong-passphrase-fails-and-locks")
	w.wiped("c05-history-wipe")
	w.gated("c05-history-gate")
	verifrt.Reach("c05-end")
}

func ZzC05LockedHistoryL2() { zzC05LockedHistory(1, 2) }
func ZzC05LockedHistoryL3() { zzC05LockedHistory(1, 3) }
