//go:build verif

package wallet

import (
	"github.com/btcsuite/btcwallet/waddrmgr"
	"github.com/btcsuite/btcwallet/walletdb"

	"verif/verifrt"
)

// C04 at the wallet level: Wallet.InitAccounts(scope, watchOnly=true, n) is
// the wallet's "migrate to watching-only" entry point (wallet.go, anchors).
// Whether the accounts 1..n exist already (the wallet was started before
// without the migration) or are created by the same call, a nil result means
// the conversion happened: the running and a reopened manager are
// watching-only and the private passphrase no longer unlocks anything.
func ZzC04WalletInit() {
	ww := zzNewWalletWorld(10001, 2)
	zzW(walletdb.View(ww.db, func(tx walletdb.ReadTx) error {
		return ww.w.Manager.Unlock(tx.ReadBucket(waddrmgrNamespaceKey), zzWPriv)
	}))
	sm, err := ww.w.Manager.FetchScopedKeyManager(waddrmgr.KeyScopeBIP0084)
	zzW(err)
	const n = 2
	switch verifrt.Choice(3, "accounts-before-the-migration") {
	case 1: // started once before without the migration: all accounts exist
		zzW(ww.w.InitAccounts(sm, false, n))
		verifrt.Reach("accounts-existed-already")
	case 2: // only some of them exist
		zzW(ww.w.InitAccounts(sm, false, 1))
	}
	err = ww.w.InitAccounts(sm, true, n)
	verifrt.Assert(err == nil, "c04w-migration-succeeds")
	if err != nil {
		return
	}
	verifrt.Assert(ww.w.Manager.WatchOnly(), "c04w-running-manager-watching-only-after-migration")
	zzW(walletdb.View(ww.db, func(tx walletdb.ReadTx) error {
		ns := tx.ReadBucket(waddrmgrNamespaceKey)
		fresh, err := waddrmgr.Open(ns, zzWPub, ww.params)
		zzW(err)
		verifrt.Assert(fresh.WatchOnly(), "c04w-reopened-wallet-watching-only-after-migration")
		uerr := fresh.Unlock(ns, zzWPriv)
		verifrt.Assert(uerr != nil && fresh.IsLocked(), "c04w-passphrase-unlocks-nothing-after-migration")
		// every account of the migration exists
		fsm, err := fresh.FetchScopedKeyManager(waddrmgr.KeyScopeBIP0084)
		zzW(err)
		for a := uint32(1); a <= n; a++ {
			_, err := fsm.AccountName(ns, a)
			verifrt.Assert(err == nil, "c04w-accounts-created")
		}
		return nil
	}))
	verifrt.Reach("c04w-end")
}
