//go:build verif

package wallet

import (
	"github.com/btcsuite/btcd/wire"
	"github.com/btcsuite/btcwallet/waddrmgr"
	"github.com/btcsuite/btcwallet/walletdb"

	"verif/verifrt"
)

// C08 at the wallet level: dry-run transaction creation (txToOutputs with
// dryRun=true ends its database transaction with ErrDryRunRollBack) does not
// advance address indices - whether the authored transaction carries a change
// output or the change was dropped as dust (the SYMBOLIC amount puts the
// solver on that boundary) - and the next committed change-address request
// returns the address a restarted wallet would issue.
func ZzC08WalletDryRun()  { zzC08WalletDryRun(1) }
func ZzC08WalletDryRun2() { zzC08WalletDryRun(2) }

func zzC08WalletDryRun(n int) {
	ww := zzNewWalletWorld(10001, 2)
	ww.fund9() // two confirmed coins (400000 and 401000 sat), then watching-only
	scope := waddrmgr.KeyScopeBIP0084
	counts := func(m *waddrmgr.Manager) (ext, in uint32) {
		zzW(walletdb.View(ww.db, func(tx walletdb.ReadTx) error {
			sm, err := m.FetchScopedKeyManager(scope)
			zzW(err)
			p, err := sm.AccountProperties(tx.ReadBucket(waddrmgrNamespaceKey), 0)
			zzW(err)
			ext, in = p.ExternalKeyCount, p.InternalKeyCount
			return nil
		}))
		return
	}
	ext0, in0 := counts(ww.w.Manager)
	amount := verifrt.I64("send")
	verifrt.Assume(verifrt.And(amount >= 399000, amount <= 400900))
	for k := 0; k < n; k++ {
		out := wire.NewTxOut(amount, []byte{0x00, 0x14, 7, 7, 7, 7, 7, 7, 7, 7, 7, 7, 7, 7, 7, 7, 7, 7, 7, 7, 7, 7})
		atx, err := ww.w.txToOutputs([]*wire.TxOut{out}, &scope, &scope, 0, 1, 2000, CoinSelectionLargest, true, nil, nil)
		if err != nil {
			verifrt.Reach("dry-run-insufficient")
			continue
		}
		if atx.ChangeIndex >= 0 {
			verifrt.Reach("dry-run-with-change")
		} else {
			verifrt.Reach("dry-run-without-change")
		}
	}
	ext1, in1 := counts(ww.w.Manager)
	verifrt.Assert(ext1 == ext0 && in1 == in0, "c08w-dry-run-does-not-advance-indices-in-memory")
	fresh, err := Open(ww.db, zzWPub, nil, ww.params, 0)
	zzW(err)
	extF, inF := counts(fresh.Manager)
	verifrt.Assert(extF == ext0 && inF == in0, "c08w-dry-run-does-not-advance-indices-on-disk")
	// the next committed request issues the address a restarted wallet would issue
	var want string
	_ = walletdb.Update(ww.db, func(tx walletdb.ReadWriteTx) error {
		sm, err := fresh.Manager.FetchScopedKeyManager(scope)
		zzW(err)
		mas, err := sm.NextInternalAddresses(tx.ReadWriteBucket(waddrmgrNamespaceKey), 0, 1)
		zzW(err)
		want = mas[0].Address().String()
		return walletdb.ErrDryRunRollBack
	})
	got, err := ww.w.NewChangeAddress(0, scope)
	zzW(err)
	verifrt.Assert(got.String() == want, "c08w-next-committed-request-issues-the-restarted-wallets-address")
	verifrt.Reach("c08w-end")
}
