//go:build verif

package wallet

import (
	"github.com/btcsuite/btcd/btcutil/hdkeychain"
	"github.com/btcsuite/btcd/chaincfg"
	"github.com/btcsuite/btcd/wire"
	"github.com/btcsuite/btcwallet/waddrmgr"
	"github.com/btcsuite/btcwallet/walletdb"

	"verif/verifrt"
)

// C08 at the wallet level: dry-run transaction creation (txToOutputs with
// dryRun=true ends its database transaction with ErrDryRunRollBack) does not
// advance address indices - whether the authored transaction carries a change
// output or the change was dropped as dust (the SYMBOLIC amount puts the
// solver on that boundary) - and the next committed change-address request
// returns the address a restarted wallet would issue.
func ZzC08WalletDryRun()  { zzC08WalletDryRun(1) }
func ZzC08WalletDryRun2() { zzC08WalletDryRun(2) }

func zzC08WalletDryRun(n int) {
	ww := zzNewWalletWorld(10001, 2)
	ww.fund9() // two confirmed coins (400000 and 401000 sat), then watching-only
	scope := waddrmgr.KeyScopeBIP0084
	counts := func(m *waddrmgr.Manager) (ext, in uint32) {
		zzW(walletdb.View(ww.db, func(tx walletdb.ReadTx) error {
			sm, err := m.FetchScopedKeyManager(scope)
			zzW(err)
			p, err := sm.AccountProperties(tx.ReadBucket(waddrmgrNamespaceKey), 0)
			zzW(err)
			ext, in = p.ExternalKeyCount, p.InternalKeyCount
			return nil
		}))
		return
	}
	ext0, in0 := counts(ww.w.Manager)
	amount := verifrt.I64("send")
	verifrt.Assume(verifrt.And(amount >= 399000, amount <= 400900))
	for k := 0; k < n; k++ {
		out := wire.NewTxOut(amount, []byte{0x00, 0x14, 7, 7, 7, 7, 7, 7, 7, 7, 7, 7, 7, 7, 7, 7, 7, 7, 7, 7, 7, 7})
		atx, err := ww.w.txToOutputs([]*wire.TxOut{out}, &scope, &scope, 0, 1, 2000, CoinSelectionLargest, true, nil, nil)
		if err != nil {
			verifrt.Reach("dry-run-insufficient")
			continue
		}
		if atx.ChangeIndex >= 0 {
			verifrt.Reach("dry-run-with-change")
		} else {
			verifrt.Reach("dry-run-without-change")
		}
	}
	ext1, in1 := counts(ww.w.Manager)
	verifrt.Assert(ext1 == ext0 && in1 == in0, "c08w-dry-run-does-not-advance-indices-in-memory")
	fresh, err := Open(ww.db, zzWPub, nil, ww.params, 0)
	zzW(err)
	extF, inF := counts(fresh.Manager)
	verifrt.Assert(extF == ext0 && inF == in0, "c08w-dry-run-does-not-advance-indices-on-disk")
	// the next committed request issues the address a restarted wallet would issue
	var want string
	_ = walletdb.Update(ww.db, func(tx walletdb.ReadWriteTx) error {
		sm, err := fresh.Manager.FetchScopedKeyManager(scope)
		zzW(err)
		mas, err := sm.NextInternalAddresses(tx.ReadWriteBucket(waddrmgrNamespaceKey), 0, 1)
		zzW(err)
		want = mas[0].Address().String()
		return walletdb.ErrDryRunRollBack
	})
	got, err := ww.w.NewChangeAddress(0, scope)
	zzW(err)
	verifrt.Assert(got.String() == want, "c08w-next-committed-request-issues-the-restarted-wallets-address")
	verifrt.Reach("c08w-end")
}

func zzAcctXpub(acct uint32) *hdkeychain.ExtendedKey {
	root, err := hdkeychain.NewMaster([]byte{9, 8, 7, 6, 5, 4, 3, 2, 1, 0, 1, 2, 3, 4, 5, 6, 7, 8, 9, 0, 1, 2, 3, 4, 5, 6, 7, 8, 9, 0, 1, 2}, &chaincfg.MainNetParams)
	zzW(err)
	k := root
	for _, i := range []uint32{84 + hdkeychain.HardenedKeyStart, hdkeychain.HardenedKeyStart, acct + hdkeychain.HardenedKeyStart} {
		k, err = k.DeriveNonStandard(i) // nolint:staticcheck
		zzW(err)
	}
	pub, err := k.Neuter()
	zzW(err)
	pub, err = pub.CloneWithVersion([]byte{0x04, 0xb2, 0x47, 0x46}) // zpub
	zzW(err)
	return pub
}

// ZzC08WalletImportDryRun: a dry-run account import (always rolled back) that
// succeeds, or fails AFTER the account was created and cached (more addresses
// requested than an account can hold); then a committed import of ANOTHER
// account key, which receives the account number the dry run had used. The
// running wallet and a reopened one report the same account (name, key, key
// counts) and issue the same next address.
func ZzC08WalletImportDryRun() {
	ww := zzNewWalletWorld(10001, 2)
	scope := waddrmgr.KeyScopeBIP0084
	at := waddrmgr.WitnessPubKey
	pubA, pubB := zzAcctXpub(5), zzAcctXpub(6)
	n := uint32(1)
	if verifrt.Choice(2, "dry-run-outcome") == 1 {
		n = waddrmgr.MaxAddressesPerAccount + 1
	}
	_, _, _, err := ww.w.ImportAccountDryRun("preview", pubA, 0x01020304, &at, n)
	if n == 1 {
		zzW(err)
		verifrt.Reach("dry-run-ok")
	} else {
		verifrt.Assert(err != nil, "c08w-too-many-addresses-refused")
		verifrt.Reach("dry-run-failed")
	}
	props, err := ww.w.ImportAccount("hardware", pubB, 0x05060708, &at)
	zzW(err)
	acct := props.AccountNumber
	fresh, err := Open(ww.db, zzWPub, nil, ww.params, 0)
	zzW(err)
	type view struct {
		name, key string
		ext, in   uint32
		next      string
	}
	look := func(m *waddrmgr.Manager) (v view) {
		_ = walletdb.Update(ww.db, func(tx walletdb.ReadWriteTx) error {
			ns := tx.ReadWriteBucket(waddrmgrNamespaceKey)
			sm, err := m.FetchScopedKeyManager(scope)
			zzW(err)
			p, err := sm.AccountProperties(ns, acct)
			zzW(err)
			v.name, v.ext, v.in = p.AccountName, p.ExternalKeyCount, p.InternalKeyCount
			if p.AccountPubKey != nil {
				v.key = p.AccountPubKey.String()
			}
			mas, err := sm.NextExternalAddresses(ns, acct, 1)
			zzW(err)
			v.next = mas[0].Address().String()
			return walletdb.ErrDryRunRollBack
		})
		m2, _ := m.FetchScopedKeyManager(scope)
		m2.InvalidateAccountCache(acct)
		return
	}
	fv := look(fresh.Manager)
	rv := look(ww.w.Manager)
	verifrt.Assert(fv.name == "hardware" && fv.key == pubB.String(), "c08w-reopened-wallet-reports-the-imported-account")
	verifrt.Assert(rv.name == fv.name, "c08w-account-name-running-vs-reopened")
	verifrt.Assert(rv.key == fv.key, "c08w-account-key-running-vs-reopened")
	verifrt.Assert(rv.ext == fv.ext && rv.in == fv.in, "c08w-key-counts-running-vs-reopened")
	verifrt.Assert(rv.next == fv.next, "c08w-next-address-running-vs-reopened")
	verifrt.Reach("c08w-end")
}
