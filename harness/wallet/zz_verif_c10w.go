//go:build verif

package wallet

import (
	"time"

	"github.com/btcsuite/btcd/chaincfg/chainhash"
	"github.com/btcsuite/btcwallet/waddrmgr"
	"github.com/btcsuite/btcwallet/walletdb"
	"github.com/btcsuite/btcwallet/wtxmgr"

	"verif/memdb"
	"verif/verifrt"
)

// C10 at the wallet level: DropTransactionHistory (with or without keeping
// the transaction labels) on a wallet holding two labelled transactions; the
// k-th database write fails, k symbolic. The call reports the error and the
// database is exactly as before; a retry without the fault drops the history,
// resets the sync point to the birthday block and - when asked to - keeps
// every label.
func ZzC10WalletDropHistory() {
	ww := zzNewWalletWorld(10001, 3)
	c := ww.chain
	var hashes []chainhash.Hash
	for k := 0; k < 2; k++ {
		addr := ww.newAddress(waddrmgr.KeyScopeBIP0084, false)
		tx := zzPayTo(addr, 50000+int64(k), byte(k+1))
		rec, err := wtxmgr.NewTxRecordFromMsgTx(tx, time.Unix(1600000000, 0))
		zzW(err)
		m := c.meta(c.blocks[1+k])
		zzW(walletdb.Update(ww.db, func(dbtx walletdb.ReadWriteTx) error { return ww.w.addRelevantTx(dbtx, rec, &m) }))
		zzW(ww.w.LabelTransaction(rec.Hash, []string{"rent", "salary"}[k], false))
		hashes = append(hashes, rec.Hash)
	}
	keep := verifrt.Choice(2, "keep-labels") == 1
	before := ww.db.Dump()

	k := verifrt.Int("fault-at")
	verifrt.Assume(verifrt.And(k >= 0, k < 64))
	verifrt.ArmFault(k)
	ferr := DropTransactionHistory(ww.db, keep)
	hit := verifrt.FaultHit()
	verifrt.ArmFault(-1)
	if hit {
		verifrt.Reach("fault-hit")
		verifrt.Assert(ferr != nil, "c10w-failed-write-reported")
		verifrt.Assert(memdb.EqualDumps(ww.db.Dump(), before), "c10w-rollback-restores-database")
		// retry
		zzW(DropTransactionHistory(ww.db, keep))
	} else {
		zzW(ferr)
		verifrt.Reach("fault-not-reached")
	}
	// the fault-free result
	zzW(walletdb.View(ww.db, func(tx walletdb.ReadTx) error {
		ns := tx.ReadBucket(wtxmgrNamespaceKey)
		for i, h := range hashes {
			d, err := ww.w.TxStore.TxDetails(ns, &h)
			verifrt.Assert(err == nil && d == nil, "c10w-history-dropped")
			l, err := wtxmgr.FetchTxLabel(ns, h)
			if keep {
				verifrt.Assert(err == nil && l == []string{"rent", "salary"}[i], "c10w-every-label-kept")
			} else {
				verifrt.Assert(err != nil, "c10w-labels-dropped")
			}
		}
		ans := tx.ReadBucket(waddrmgrNamespaceKey)
		b, _, err := ww.w.Manager.BirthdayBlock(ans)
		zzW(err)
		fresh, err := waddrmgr.Open(ans, zzWPub, ww.params)
		zzW(err)
		st := fresh.SyncedTo()
		verifrt.Assert(st.Height == b.Height && st.Hash == b.Hash, "c10w-sync-point-reset-to-the-birthday-block")
		fresh.Close()
		return nil
	}))
	if keep {
		verifrt.Reach("labels-kept")
	}
	verifrt.Reach("c10w-end")
}
