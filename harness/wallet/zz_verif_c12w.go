//go:build verif

package wallet

import (
	"time"

	"github.com/btcsuite/btcd/wire"
	"github.com/btcsuite/btcwallet/wtxmgr"

	"verif/verifrt"
)

// C12 at the wallet level (observe_at: Wallet.LeaseOutput / ReleaseOutput):
// one funded wallet, the real store clock (time.Now: arbitrary non-decreasing
// instants under the executor). A lease keeps the coin out of the balance and
// out of ListUnspent until the instant the lease expires or it is released by
// its owner; another identifier can neither take nor release it meanwhile;
// an unknown outpoint cannot be leased.
func ZzC12Wallet()      { zzC12Wallet(false) }
func ZzC12WalletSmall() { zzC12Wallet(true) }

func zzC12Wallet(small bool) {
	w := zzNewC20WorldAmt(1234567)
	op := wire.OutPoint{Hash: w.fund.TxHash(), Index: 0}
	id1, id2 := wtxmgr.LockID{1}, wtxmgr.LockID{2}
	d := 10 * time.Minute
	if !small {
		d = []time.Duration{time.Second, 10 * time.Minute}[verifrt.Choice(2, "duration")]
	}

	_, err := w.w.LeaseOutput(id1, wire.OutPoint{Hash: op.Hash, Index: 7}, d)
	verifrt.Assert(err == wtxmgr.ErrUnknownOutput, "c12w-unknown-output-cannot-be-leased")

	t0 := time.Now()
	exp, err := w.w.LeaseOutput(id1, op, d)
	t1 := time.Now()
	zzW(err)
	verifrt.Assert(!exp.Before(t0.Add(d)) && !exp.After(t1.Add(d)), "c12w-expiry-is-now-plus-duration")
	// the persisted expiry has whole seconds
	expSec := exp.Unix()

	observe := func(label string, released bool) {
		b0 := time.Now()
		bal := w.balance(0)
		lst, err := w.w.ListUnspent(0, 9999999, "")
		zzW(err)
		b1 := time.Now()
		listed := false
		for _, r := range lst {
			if r.TxID == op.Hash.String() && r.Vout == op.Index {
				listed = true
			}
		}
		if released {
			verifrt.Assert(bal == w.fundAmt && listed, label+"-available-after-release")
			return
		}
		if b1.Unix() < expSec {
			// certainly still leased
			verifrt.Assert(bal == 0 && !listed, label+"-leased-output-out-of-reach")
			verifrt.Reach("observed-while-leased")
		}
		if b0.Unix() >= expSec {
			// certainly expired
			verifrt.Assert(bal == w.fundAmt && listed, label+"-available-once-expired")
			verifrt.Reach("observed-after-expiry")
		}
	}
	observe("c12w", false)

	then := 0
	if small {
		then = []int{0, 2}[verifrt.Choice(2, "then")]
	} else {
		then = verifrt.Choice(4, "then")
	}
	switch then {
	case 0: // another identifier tries to take it
		a0 := time.Now()
		_, err := w.w.LeaseOutput(id2, op, d)
		a1 := time.Now()
		if a1.Unix() < expSec {
			verifrt.Assert(err == wtxmgr.ErrOutputAlreadyLocked, "c12w-other-identifier-cannot-lease")
			verifrt.Reach("other-id-refused")
		}
		if a0.Unix() >= expSec {
			verifrt.Assert(err == nil, "c12w-other-identifier-can-lease-after-expiry")
		}
	case 1: // another identifier tries to release it
		err := w.w.ReleaseOutput(id2, op)
		r1 := time.Now()
		if r1.Unix() < expSec {
			verifrt.Assert(err == wtxmgr.ErrOutputUnlockNotAllowed, "c12w-other-identifier-cannot-release")
			observe("c12w-after-foreign-release", false)
		}
	case 2: // the owner releases it
		zzW(w.w.ReleaseOutput(id1, op))
		observe("c12w", true)
		verifrt.Reach("released")
	case 3: // the owner extends it
		e0 := time.Now()
		exp2, err := w.w.LeaseOutput(id1, op, d)
		zzW(err)
		verifrt.Assert(!exp2.Before(e0.Add(d)), "c12w-extended")
		expSec = exp2.Unix()
		observe("c12w-extended", false)
		// leases are listed with value and script
		ls, err := w.w.ListLeasedOutputs()
		zzW(err)
		l1 := time.Now()
		if l1.Unix() < expSec {
			verifrt.Assert(len(ls) == 1 && ls[0].Outpoint == op && ls[0].LockID == id1 && ls[0].Value == w.fundAmt, "c12w-listed-with-value")
		}
	}
	verifrt.Reach("c12w-end")
}
