//go:build verif

package wallet

import (
	"github.com/btcsuite/btcd/btcutil"
	"github.com/btcsuite/btcwallet/waddrmgr"
	"github.com/btcsuite/btcwallet/walletdb"

	"verif/verifrt"
)

// C09: two goroutines call address-issuing wallet functions concurrently on
// the same account; the cooperative scheduler explores the interleavings of
// their synchronisation operations (locks, the database writer lock, the
// point between releasing it and running the commit handlers) up to a bound
// on preemptive switches.

func (ww *zzWalletWorld) issue(op int) (btcutil.Address, bool, error) {
	scope := waddrmgr.KeyScopeBIP0084
	switch op {
	case 0:
		a, err := ww.w.NewAddress(0, scope)
		return a, true, err
	case 1:
		a, err := ww.w.NewChangeAddress(0, scope)
		return a, true, err
	default:
		a, err := ww.w.CurrentAddress(0, scope)
		return a, false, err // not necessarily a new address
	}
}

func zzC09(bound int, nOps int) {
	ww := zzNewWalletWorld(10001, 2)
	verifrt.PreemptionBound(bound)
	opA := verifrt.Choice(nOps, "op-a")
	opB := verifrt.Choice(nOps, "op-b")
	names := []string{"NewAddress", "NewChangeAddress", "CurrentAddress"}
	verifrt.Note(names[opA] + " || " + names[opB])
	var (
		addrA, addrB btcutil.Address
		newA, newB   bool
		errA, errB   error
	)
	done := make(chan struct{})
	go func() {
		addrA, newA, errA = ww.issue(opA)
		close(done)
	}()
	addrB, newB, errB = ww.issue(opB)
	<-done
	verifrt.Assert(errA == nil && errB == nil, "c09-calls-succeed")
	if errA != nil || errB != nil {
		return
	}
	if newA && newB {
		verifrt.Assert(addrA.String() != addrB.String(), "c09-no-two-calls-obtain-the-same-address")
	}
	// gap-free indices and memory == database
	fresh, err := Open(ww.db, zzWPub, nil, ww.params, 0)
	zzW(err)
	zzW(walletdb.View(ww.db, func(tx walletdb.ReadTx) error {
		ns := tx.ReadBucket(waddrmgrNamespaceKey)
		rsm, err := ww.w.Manager.FetchScopedKeyManager(waddrmgr.KeyScopeBIP0084)
		zzW(err)
		fsm, err := fresh.Manager.FetchScopedKeyManager(waddrmgr.KeyScopeBIP0084)
		zzW(err)
		rp, err := rsm.AccountProperties(ns, 0)
		zzW(err)
		fp, err := fsm.AccountProperties(ns, 0)
		zzW(err)
		verifrt.Assert(rp.ExternalKeyCount == fp.ExternalKeyCount && rp.InternalKeyCount == fp.InternalKeyCount, "c09-database-agrees-with-memory")
		wantExt, wantInt := uint32(0), uint32(0)
		for _, op := range []int{opA, opB} {
			switch op {
			case 0:
				wantExt++
			case 1:
				wantInt++
			}
		}
		if opA == 2 || opB == 2 {
			// CurrentAddress issues one external address unless a fresh unused one exists
			verifrt.Assert(fp.ExternalKeyCount >= wantExt && fp.ExternalKeyCount <= wantExt+2, "c09-indices-gap-free")
			if fp.ExternalKeyCount == 0 {
				verifrt.Assert(false, "c09-current-address-issued-something")
			}
		} else {
			verifrt.Assert(fp.ExternalKeyCount == wantExt && fp.InternalKeyCount == wantInt, "c09-indices-gap-free")
		}
		// every obtained address is known to the database
		for _, a := range []btcutil.Address{addrA, addrB} {
			_, err := fresh.Manager.Address(ns, a)
			verifrt.Assert(err == nil, "c09-obtained-address-persisted")
		}
		return nil
	}))
	verifrt.Reach("c09-end")
}

func ZzC09B1()     { zzC09(1, 2) }
func ZzC09B1All()  { zzC09(1, 3) }
func ZzC09B2()     { zzC09(2, 2) }
func ZzC09B2All()  { zzC09(2, 3) }
