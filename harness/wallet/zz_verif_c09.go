//go:build verif

package wallet

import (
	"time"

	"github.com/btcsuite/btcd/btcec/v2"
	"github.com/btcsuite/btcd/btcutil"
	"github.com/btcsuite/btcd/btcutil/hdkeychain"
	"github.com/btcsuite/btcd/btcutil/psbt"
	"github.com/btcsuite/btcd/chaincfg"
	"github.com/btcsuite/btcd/txscript"
	"github.com/btcsuite/btcd/wire"
	"github.com/btcsuite/btcwallet/wtxmgr"
	"github.com/btcsuite/btcwallet/waddrmgr"
	"github.com/btcsuite/btcwallet/walletdb"

	"verif/verifrt"
)

// C09: two goroutines call address-issuing wallet functions concurrently on
// the same account; the cooperative scheduler explores the interleavings of
// their synchronisation operations (locks, the database writer lock, the
// point between releasing it and running the commit handlers) up to a bound
// on preemptive switches.

func (ww *zzWalletWorld) issue(op int) (btcutil.Address, bool, error) {
	scope := waddrmgr.KeyScopeBIP0084
	switch op {
	case 0:
		a, err := ww.w.NewAddress(0, scope)
		return a, true, err
	case 1:
		a, err := ww.w.NewChangeAddress(0, scope)
		return a, true, err
	case 2:
		a, err := ww.w.CurrentAddress(0, scope)
		return a, false, err // not necessarily a new address
	case 3:
		// a transaction that needs change (authored and committed on a
		// watching-only wallet, so nothing is signed)
		out := wire.NewTxOut(100000, []byte{0x00, 0x14, 7, 7, 7, 7, 7, 7, 7, 7, 7, 7, 7, 7, 7, 7, 7, 7, 7, 7, 7, 7})
		atx, err := ww.w.txToOutputs([]*wire.TxOut{out}, &scope, &scope, 0, 1, 2000, CoinSelectionLargest, false, nil, nil)
		if err != nil {
			return nil, true, err
		}
		if atx.ChangeIndex < 0 {
			return nil, true, nil
		}
		return ww.addrOf(atx.Tx.TxOut[atx.ChangeIndex].PkScript), true, nil
	case 6:
		// a transaction spending the coin of an IMPORTED key: its change
		// address comes from account 0 of the scope
		out := wire.NewTxOut(100000, []byte{0x00, 0x14, 6, 6, 6, 6, 6, 6, 6, 6, 6, 6, 6, 6, 6, 6, 6, 6, 6, 6, 6, 6})
		atx, err := ww.w.txToOutputs([]*wire.TxOut{out}, &scope, &scope, waddrmgr.ImportedAddrAccount, 1, 2000, CoinSelectionLargest, false, nil, nil)
		if err != nil {
			return nil, true, err
		}
		if atx.ChangeIndex < 0 {
			return nil, true, nil
		}
		return ww.addrOf(atx.Tx.TxOut[atx.ChangeIndex].PkScript), true, nil
	case 5:
		// dry-run import of somebody's account key into the SAME key scope:
		// derives addresses of a new account inside a transaction that is
		// always rolled back (the sixth newAddrMtx site)
		root, err := hdkeychain.NewMaster([]byte{9, 8, 7, 6, 5, 4, 3, 2, 1, 0, 1, 2, 3, 4, 5, 6, 7, 8, 9, 0, 1, 2, 3, 4, 5, 6, 7, 8, 9, 0, 1, 2}, &chaincfg.MainNetParams)
		zzW(err)
		k := root
		for _, i := range []uint32{84 + hdkeychain.HardenedKeyStart, hdkeychain.HardenedKeyStart, 5 + hdkeychain.HardenedKeyStart} {
			k, err = k.DeriveNonStandard(i) // nolint:staticcheck
			zzW(err)
		}
		pub, err := k.Neuter()
		zzW(err)
		pub, err = pub.CloneWithVersion([]byte{0x04, 0xb2, 0x47, 0x46}) // zpub
		zzW(err)
		at := waddrmgr.WitnessPubKey
		props, ext, _, err := ww.w.ImportAccountDryRun("dry", pub, 0x01020304, &at, 1)
		if err != nil {
			return nil, false, err
		}
		ww.dryAcct = props.AccountNumber
		if len(ext) != 1 {
			return nil, false, nil
		}
		return ext[0].Address(), false, nil
	default:
		// PSBT funding with a caller-supplied input that leaves change
		tx := wire.NewMsgTx(2)
		tx.AddTxIn(wire.NewTxIn(&ww.coins9[1], nil, nil))
		tx.AddTxOut(wire.NewTxOut(100000, []byte{0x00, 0x14, 8, 8, 8, 8, 8, 8, 8, 8, 8, 8, 8, 8, 8, 8, 8, 8, 8, 8, 8, 8}))
		packet := &psbt.Packet{UnsignedTx: tx, Inputs: make([]psbt.PInput, 1), Outputs: make([]psbt.POutput, 1)}
		idx, err := ww.w.FundPsbt(packet, &scope, 1, 0, 2000, CoinSelectionLargest)
		if err != nil {
			return nil, true, err
		}
		if idx < 0 {
			return nil, true, nil
		}
		return ww.addrOf(packet.UnsignedTx.TxOut[idx].PkScript), true, nil
	}
}

func (ww *zzWalletWorld) addrOf(pkScript []byte) btcutil.Address {
	_, addrs, _, err := txscript.ExtractPkScriptAddrs(pkScript, ww.params)
	zzW(err)
	if len(addrs) != 1 {
		panic("harness: change script with " + string(rune('0'+len(addrs))) + " addresses")
	}
	return addrs[0]
}

// fund9 gives the wallet two confirmed coins and makes it watching-only.
func (ww *zzWalletWorld) fund9() {
	for k := 0; k < 2; k++ {
		a := ww.newAddress(waddrmgr.KeyScopeBIP0084, false)
		f := zzPayTo(a, 400000+int64(k)*1000, byte(20+k))
		rec, err := wtxmgr.NewTxRecordFromMsgTx(f, time.Unix(1600000000, 0))
		zzW(err)
		m := ww.chain.meta(ww.chain.blocks[1])
		zzW(walletdb.Update(ww.db, func(tx walletdb.ReadWriteTx) error { return ww.w.addRelevantTx(tx, rec, &m) }))
		ww.coins9 = append(ww.coins9, wire.OutPoint{Hash: f.TxHash(), Index: 0})
	}
	if ww.withImported {
		// an imported public key holding a confirmed coin
		priv, _ := btcec.PrivKeyFromBytes([]byte{0x51, 0x22, 0x33, 0x44, 0x55, 0x66, 0x77, 0x88, 0x99, 0xaa, 0xbb, 0xcc, 0xdd, 0xee, 0xff, 0x01,
			0x11, 0x22, 0x33, 0x44, 0x55, 0x66, 0x77, 0x88, 0x99, 0xaa, 0xbb, 0xcc, 0xdd, 0xee, 0xff, 0x09})
		var ia btcutil.Address
		zzW(walletdb.Update(ww.db, func(tx walletdb.ReadWriteTx) error {
			sm, err := ww.w.Manager.FetchScopedKeyManager(waddrmgr.KeyScopeBIP0084)
			if err != nil {
				return err
			}
			ma, err := sm.ImportPublicKey(tx.ReadWriteBucket(waddrmgrNamespaceKey), priv.PubKey(), &waddrmgr.BlockStamp{})
			if err != nil {
				return err
			}
			ia = ma.Address()
			return nil
		}))
		f := zzPayTo(ia, 500000, 30)
		rec, err := wtxmgr.NewTxRecordFromMsgTx(f, time.Unix(1600000000, 0))
		zzW(err)
		m := ww.chain.meta(ww.chain.blocks[1])
		zzW(walletdb.Update(ww.db, func(tx walletdb.ReadWriteTx) error { return ww.w.addRelevantTx(tx, rec, &m) }))
	}
	zzW(walletdb.Update(ww.db, func(tx walletdb.ReadWriteTx) error {
		return ww.w.Manager.ConvertToWatchingOnly(tx.ReadWriteBucket(waddrmgrNamespaceKey))
	}))
}

func zzC09(bound int, nOps int) { zzC09Pairs(bound, nOps, nil) }

// zzC09Pairs: the pair of concurrent calls is chosen among all nOps x nOps
// pairs, or among the listed pairs.
func zzC09Pairs(bound int, nOps int, pairs [][2]int) {
	ww := zzNewWalletWorld(10001, 2)
	verifrt.PreemptionBound(bound)
	// the address-issuing pairs also with every lock release as a scheduling
	// point (a critical section that ends too early shows there)
	verifrt.YieldOnUnlock(pairs == nil)
	var opA, opB int
	if pairs != nil {
		p := pairs[verifrt.Choice(len(pairs), "pair")]
		opA, opB = p[0], p[1]
		ww.withImported = true
	} else {
		opA = verifrt.Choice(nOps, "op-a")
		opB = verifrt.Choice(nOps, "op-b")
	}
	names := []string{"NewAddress", "NewChangeAddress", "CurrentAddress", "txToOutputs", "FundPsbt", "ImportAccountDryRun", "txToOutputs(imported account)"}
	baseExt := uint32(0)
	if opA == 3 || opB == 3 || opA == 4 || opB == 4 || opA == 6 || opB == 6 {
		ww.fund9()
		baseExt = 2 // the two funding addresses
		verifrt.Reach("spending-caller")
	}
	verifrt.Note(names[opA] + " || " + names[opB])
	var (
		addrA, addrB btcutil.Address
		newA, newB   bool
		errA, errB   error
	)
	done := make(chan struct{})
	go func() {
		addrA, newA, errA = ww.issue(opA)
		close(done)
	}()
	addrB, newB, errB = ww.issue(opB)
	<-done
	verifrt.Assert(errA == nil && errB == nil, "c09-calls-succeed")
	if errA != nil || errB != nil {
		return
	}
	if addrA == nil || addrB == nil {
		verifrt.Assert(false, "c09-spending-call-produced-change")
		return
	}
	if newA && newB {
		verifrt.Assert(addrA.String() != addrB.String(), "c09-no-two-calls-obtain-the-same-address")
	}
	// gap-free indices and memory == database
	fresh, err := Open(ww.db, zzWPub, nil, ww.params, 0)
	zzW(err)
	zzW(walletdb.View(ww.db, func(tx walletdb.ReadTx) error {
		ns := tx.ReadBucket(waddrmgrNamespaceKey)
		rsm, err := ww.w.Manager.FetchScopedKeyManager(waddrmgr.KeyScopeBIP0084)
		zzW(err)
		fsm, err := fresh.Manager.FetchScopedKeyManager(waddrmgr.KeyScopeBIP0084)
		zzW(err)
		rp, err := rsm.AccountProperties(ns, 0)
		zzW(err)
		fp, err := fsm.AccountProperties(ns, 0)
		zzW(err)
		verifrt.Assert(rp.ExternalKeyCount == fp.ExternalKeyCount && rp.InternalKeyCount == fp.InternalKeyCount, "c09-database-agrees-with-memory")
		wantExt, wantInt := baseExt, uint32(0)
		for _, op := range []int{opA, opB} {
			switch op {
			case 0:
				wantExt++
			case 1, 3, 4, 6:
				wantInt++
			}
		}
		if opA == 2 || opB == 2 {
			// CurrentAddress issues one external address unless a fresh unused one exists
			verifrt.Assert(fp.ExternalKeyCount >= wantExt && fp.ExternalKeyCount <= wantExt+2, "c09-indices-gap-free")
			if fp.ExternalKeyCount == 0 {
				verifrt.Assert(false, "c09-current-address-issued-something")
			}
		} else {
			verifrt.Assert(fp.ExternalKeyCount == wantExt && fp.InternalKeyCount == wantInt, "c09-indices-gap-free")
		}
		// every obtained address is known to the database (a dry run
		// obtains nothing: its account must exist nowhere afterwards)
		for k, a := range []btcutil.Address{addrA, addrB} {
			if []int{opA, opB}[k] == 5 {
				_, rerr := rsm.AccountProperties(ns, ww.dryAcct)
				_, ferr := fsm.AccountProperties(ns, ww.dryAcct)
				verifrt.Assert(rerr != nil && ferr != nil, "c09-dry-run-account-exists-nowhere")
				_, rerr = rsm.LookupAccount(ns, "dry")
				verifrt.Assert(rerr != nil, "c09-dry-run-account-name-free")
				verifrt.Reach("dry-run-caller")
				continue
			}
			_, err := fresh.Manager.Address(ns, a)
			verifrt.Assert(err == nil, "c09-obtained-address-persisted")
		}
		return nil
	}))
	verifrt.Reach("c09-end")
}

func ZzC09B1()     { zzC09(1, 2) }
func ZzC09B1All()  { zzC09(1, 3) }
func ZzC09B2()     { zzC09(2, 2) }
func ZzC09B2All()  { zzC09(2, 3) }
func ZzC09B1Five() { zzC09(1, 5) }
func ZzC09B2Five() { zzC09(2, 5) }
func ZzC09B1Six()  { zzC09(1, 6) }

// a spend from the imported-keys account (change from account 0) against the
// callers that issue internal addresses of account 0, both orders
func ZzC09B1Imported() {
	zzC09Pairs(1, 0, [][2]int{{6, 1}, {1, 6}, {6, 3}, {6, 4}})
}
func ZzC09B2Imported() {
	zzC09Pairs(2, 0, [][2]int{{6, 1}, {1, 6}, {6, 3}, {3, 6}, {6, 4}, {6, 6}})
}
func ZzC09B2Six()  { zzC09(2, 6) }
