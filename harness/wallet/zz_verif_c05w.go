//go:build verif

package wallet

import (
	"github.com/btcsuite/btcwallet/waddrmgr"

	"verif/verifrt"
)

// C05 / C17 at the wallet level: the public Wallet.Unlock goes through the
// walletLocker goroutine. A first request with the right passphrase unlocks;
// a SECOND request - while the wallet is still unlocked, or after Wallet.Lock
// - with an arbitrary passphrase of the same length succeeds iff it is the
// passphrase, and a wrong one leaves the wallet locked.
func ZzC05WalletUnlockTwice() {
	ww := zzNewWalletWorld(10001, 2)
	ww.w.wg.Add(1)
	go ww.w.walletLocker()
	verifrt.Assert(ww.w.Locked(), "c05w-starts-locked")
	zzW(ww.w.Unlock(zzWPriv, nil))
	verifrt.Assert(!ww.w.Locked(), "c05w-right-passphrase-unlocks")
	var guess []byte
	var same bool
	if verifrt.Choice(2, "locked-in-between") == 1 {
		ww.w.Lock()
		verifrt.Assert(ww.w.Locked(), "c05w-lock-locks")
		verifrt.Reach("locked-in-between")
		// from locked the passphrase goes through the key derivation: any
		// passphrase of the same length
		guess = verifrt.Bytes("guess", len(zzWPriv))
		same = verifrt.BytesEq(guess, zzWPriv)
	} else {
		verifrt.Reach("second-request-while-unlocked")
		// while unlocked it is compared through a salted hash (modelled as
		// an injective token, so equality is decided on concrete shapes):
		// the passphrase itself, or the passphrase with any one byte changed
		guess = append([]byte{}, zzWPriv...)
		same = true
		if pos := verifrt.Choice(len(zzWPriv)+1, "differs-at"); pos > 0 {
			mask := verifrt.U8("mask")
			verifrt.Assume(mask != 0)
			guess[pos-1] ^= mask
			same = false
		}
	}
	err := ww.w.Unlock(guess, nil)
	verifrt.Assert((err == nil) == same, "c05w-exactly-the-passphrase-is-accepted")
	if err != nil {
		verifrt.Assert(waddrmgr.IsError(err, waddrmgr.ErrWrongPassphrase), "c05w-wrong-passphrase-error")
		verifrt.Assert(ww.w.Locked(), "c05w-wrong-passphrase-leaves-the-wallet-locked")
		verifrt.Reach("wrong-passphrase")
	} else {
		verifrt.Assert(!ww.w.Locked(), "c05w-unlocked")
		verifrt.Reach("right-passphrase")
	}
	close(ww.w.quit)
	verifrt.Quiesce()
	verifrt.Reach("c05w-end")
}
