//go:build verif

package wallet

import (
	"time"

	"github.com/btcsuite/btcd/btcutil"
	"github.com/btcsuite/btcd/chaincfg/chainhash"
	"github.com/btcsuite/btcwallet/chain"
	"github.com/btcsuite/btcwallet/waddrmgr"
	"github.com/btcsuite/btcwallet/walletdb"
	"github.com/btcsuite/btcwallet/wtxmgr"

	"verif/verifrt"
)

// C15: the real handleChainNotifications goroutine consumes notifications
// describing a valid evolution of the best chain (extensions, reorgs of depth
// 1..2, duplicate and stale disconnects, a wallet transaction in one of the
// blocks); after each one the wallet's tip, remembered hashes and reported
// confirmations must agree with the chain model. Block timestamps symbolic.

type zzC15World struct {
	*zzWalletWorld
	txHash  *chainhash.Hash
	txBlock *zzBlk // where the wallet tx is confirmed on the best chain (nil = not / no longer)
	lastDisc *wtxmgr.BlockMeta
	budget  int
}

func (w *zzC15World) send(n interface{}) {
	w.chain.ntfns <- n
	verifrt.Quiesce()
	w.budget--
}

func (w *zzC15World) connectNew(withTx bool) {
	c := w.chain
	t := c.tip()
	b := zzBlk{height: t.height + 1, fork: c.nextFrk}
	c.nextFrk++
	c.blocks = append(c.blocks, b)
	m := c.meta(b)
	if withTx && w.txHash == nil {
		addr := w.newAddress(waddrmgr.KeyScopeBIP0084, false)
		tx := zzPayTo(addr, 50000, 1)
		rec, err := wtxmgr.NewTxRecordFromMsgTx(tx, time.Unix(1600000000, 0))
		zzW(err)
		w.txHash = &rec.Hash
		bb := b
		w.txBlock = &bb
		verifrt.Note("connect block with wallet tx")
		w.send(chain.FilteredBlockConnected{Block: &m, RelevantTxs: []*wtxmgr.TxRecord{rec}})
		w.send(chain.BlockConnected(m))
		verifrt.Reach("wallet-tx-confirmed")
		return
	}
	verifrt.Note("connect")
	w.send(chain.BlockConnected(m))
}

func (w *zzC15World) disconnectTip() {
	c := w.chain
	t := c.tip()
	m := c.meta(t)
	c.blocks = c.blocks[:len(c.blocks)-1]
	if w.txBlock != nil && w.txBlock.height == t.height {
		w.txBlock = nil
		verifrt.Reach("wallet-tx-unconfirmed-by-reorg")
	}
	w.lastDisc = &m
	verifrt.Note("disconnect")
	w.send(chain.BlockDisconnected(m))
}

func (w *zzC15World) check(label string) {
	c := w.chain
	t := c.tip()
	st := w.w.Manager.SyncedTo()
	verifrt.Assert(st.Height == t.height && st.Hash == zzHash(t.height, t.fork), label+"-synced-to-is-backend-tip")
	verifrt.Assert(st.Timestamp.Unix() == c.ts(t.height, t.fork), label+"-tip-timestamp")
	zzW(walletdb.View(w.db, func(tx walletdb.ReadTx) error {
		ns := tx.ReadBucket(waddrmgrNamespaceKey)
		for _, b := range c.blocks {
			h, err := w.w.Manager.BlockHash(ns, b.height)
			verifrt.Assert(err == nil && h != nil && *h == zzHash(b.height, b.fork), label+"-remembered-hash-on-best-chain")
		}
		if w.txHash != nil {
			d, err := w.w.TxStore.TxDetails(tx.ReadBucket(wtxmgrNamespaceKey), w.txHash)
			zzW(err)
			verifrt.Assert(d != nil, label+"-wallet-tx-known")
			if d != nil {
				if w.txBlock == nil {
					verifrt.Assert(d.Block.Height == -1, label+"-no-confirmation-in-orphaned-block")
				} else {
					verifrt.Assert(d.Block.Height == w.txBlock.height && d.Block.Hash == zzHash(w.txBlock.height, w.txBlock.fork), label+"-confirmation-on-best-chain")
				}
			}
		}
		return nil
	}))
}

func zzC15(base int32, steps int) { zzC15P(base, nil, steps) }

// zzC15P: the evolutions in pre, then `steps` free ones.
func zzC15P(base int32, pre []int, steps int) {
	w := &zzC15World{zzWalletWorld: zzNewWalletWorld(base, 3), budget: 100}
	w.w.wg.Add(1)
	go w.w.handleChainNotifications()
	w.check("c15-initial")
	for s := 0; s < len(pre)+steps; s++ {
		ev := 0
		if s < len(pre) {
			ev = pre[s]
		} else {
			ev = verifrt.Choice(9, "evolution")
		}
		switch ev {
		case 0:
			w.connectNew(false)
		case 1:
			w.connectNew(true)
		case 2: // reorg of depth 1: the tip is replaced
			if len(w.chain.blocks) < 2 {
				verifrt.Assume(false)
			}
			w.disconnectTip()
			w.check("c15-mid-reorg")
			w.connectNew(false)
			verifrt.Reach("reorg-1")
		case 3: // reorg of depth 2
			if len(w.chain.blocks) < 3 {
				verifrt.Assume(false)
			}
			w.disconnectTip()
			w.disconnectTip()
			w.check("c15-mid-reorg")
			w.connectNew(false)
			w.connectNew(false)
			verifrt.Reach("reorg-2")
		case 4: // the last disconnect notification is delivered again
			if w.lastDisc == nil {
				verifrt.Assume(false)
			}
			verifrt.Note("duplicate disconnect")
			w.send(chain.BlockDisconnected(*w.lastDisc))
			verifrt.Reach("duplicate-disconnect")
		case 5: // a stale disconnect for a block that is not on the wallet's chain
			t := w.chain.tip()
			m := wtxmgr.BlockMeta{Block: wtxmgr.Block{Hash: zzHash(t.height, 99), Height: t.height}, Time: time.Unix(1600000000, 0)}
			verifrt.Note("stale disconnect")
			w.send(chain.BlockDisconnected(m))
			verifrt.Reach("stale-disconnect")
		case 6: // a reorg of depth 2 that starts while a rescan is running:
			// the wallet ignores chain notifications until the rescan has
			// finished (modelled by the chain-synced flag, which is what the
			// RescanFinished handler sets), so it misses the first
			// disconnect and then receives one for a block BELOW its tip
			if len(w.chain.blocks) < 3 {
				verifrt.Assume(false)
			}
			w.w.SetChainSynced(false)
			w.disconnectTip()
			w.w.SetChainSynced(true)
			w.disconnectTip()
			w.check("c15-mid-reorg")
			w.connectNew(false)
			w.connectNew(false)
			verifrt.Reach("reorg-started-during-rescan")
		case 7: // two new blocks, the notification for the SECOND arrives first
			// (out of order, as after a rescan): it must be refused and leave
			// the wallet's tip where it was; then both arrive in order
			c := w.chain
			t := c.tip()
			b1 := zzBlk{height: t.height + 1, fork: c.nextFrk}
			b2 := zzBlk{height: t.height + 2, fork: c.nextFrk + 1}
			c.nextFrk += 2
			m1, m2 := c.meta(b1), c.meta(b2)
			verifrt.Note("out-of-order connect")
			w.send(chain.BlockConnected(m2))
			st := w.w.Manager.SyncedTo()
			verifrt.Assert(st.Height == t.height && st.Hash == zzHash(t.height, t.fork), "c15-refused-out-of-order-connect-leaves-the-tip")
			c.blocks = append(c.blocks, b1, b2)
			w.send(chain.BlockConnected(m1))
			w.send(chain.BlockConnected(m2))
			verifrt.Reach("out-of-order-connect")
		case 8: // a reorg of depth 1 that happens entirely while a rescan is
			// running: the disconnect is not processed, the wallet follows
			// through the connect at its own tip height, which replaces the
			// remembered hash (no wallet transaction in the replaced block)
			if len(w.chain.blocks) < 2 || (w.txBlock != nil && w.txBlock.height == w.chain.tip().height) {
				verifrt.Assume(false)
			}
			w.w.SetChainSynced(false)
			w.disconnectTip()
			w.connectNew(false)
			w.w.SetChainSynced(true)
			verifrt.Reach("reorg-entirely-during-rescan")
		}
		w.check("c15")
	}
	close(w.w.quit)
	verifrt.Quiesce()
	verifrt.Reach("c15-end")
}

func ZzC15L2()      { zzC15(10001, 2) }

// the wallet transaction confirmed one block BELOW the tip, then any evolution
func ZzC15TxBelowTipL1() { zzC15P(10001, []int{1, 0}, 1) }
func ZzC15L3()      { zzC15(10001, 3) }
func ZzC15L3Low()   { zzC15(1, 3) }
func ZzC15L4()      { zzC15(10001, 4) }

// zzC15Startup: the best chain changes while the wallet is stopped (a reorg
// of the given depth below the wallet's tip, the new branch possibly longer);
// syncWithChain must roll the wallet back to the last common block. The
// wallet is shutting down, so the final rescan request returns
// ErrWalletShuttingDown after the rollback was committed.
func zzC15Startup(depth int) { zzC15StartupF(depth, 0) }

// zzC15StartupF: fault > 0 makes the k-th database write of the first
// syncWithChain attempt fail (k symbolic); the attempt reports an error, the
// wallet process is restarted (fault == 1: reopened from the database, as
// after a crash) and synchronises again: the outcome is the fault-free one.
func zzC15StartupF(depth, fault int) {
	w := &zzC15World{zzWalletWorld: zzNewWalletWorld(10001, 5)}
	c := w.chain
	// a wallet transaction confirmed in one of the last blocks
	txAt := 1 + verifrt.Choice(4, "tx-block")
	addr := w.newAddress(waddrmgr.KeyScopeBIP0084, false)
	tx := zzPayTo(addr, 50000, 1)
	rec, err := wtxmgr.NewTxRecordFromMsgTx(tx, time.Unix(1600000000, 0))
	zzW(err)
	m := c.meta(c.blocks[txAt])
	zzW(walletdb.Update(w.db, func(dbtx walletdb.ReadWriteTx) error { return w.w.addRelevantTx(dbtx, rec, &m) }))
	w.txHash = &rec.Hash
	bb := c.blocks[txAt]
	w.txBlock = &bb

	// the wallet's birthday block: any block of the chain as the wallet knew it
	bIdx := verifrt.Choice(len(c.blocks), "birthday-block")
	birthday := c.meta(c.blocks[bIdx])

	// while stopped: the last `depth` blocks are replaced
	common := len(c.blocks) - 1 - depth
	if bIdx > common {
		verifrt.Reach("birthday-block-orphaned")
	}
	c.blocks = c.blocks[:common+1]
	extra := verifrt.Choice(2, "new-branch-longer")
	for k := 0; k < depth+extra; k++ {
		t := c.tip()
		c.blocks = append(c.blocks, zzBlk{height: t.height + 1, fork: c.nextFrk})
		c.nextFrk++
	}
	if txAt > common {
		w.txBlock = nil
		verifrt.Reach("wallet-tx-orphaned")
	}
	bs := &waddrmgr.BlockStamp{Height: birthday.Height, Hash: birthday.Hash, Timestamp: birthday.Time}
	if fault > 0 {
		k := verifrt.Int("fault-at")
		verifrt.Assume(verifrt.And(k >= 0, k < 48))
		verifrt.ArmFault(k)
		close(w.w.quit)
		ferr := w.w.syncWithChain(bs)
		hit := verifrt.FaultHit()
		verifrt.ArmFault(-1)
		if hit {
			verifrt.Reach("fault-hit")
			verifrt.Assert(ferr != nil && ferr != ErrWalletShuttingDown, "c15-startup-failed-write-reported")
			if fault == 1 {
				// restart: a new process opens the database
				nw, err := Open(w.db, zzWPub, nil, w.params, 0)
				zzW(err)
				nw.chainClient = c
				close(nw.quit)
				w.w = nw
			} else {
				// the same process tries again (the retry loop of
				// handleChainNotifications)
				verifrt.Reach("retried-in-the-same-process")
			}
			// the birthday block as the next attempt finds it
			zzW(walletdb.View(w.db, func(tx walletdb.ReadTx) error {
				b, _, err := w.w.Manager.BirthdayBlock(tx.ReadBucket(waddrmgrNamespaceKey))
				if err == nil {
					bs = &b
				}
				return nil
			}))
		} else {
			// the first attempt ran to the rescan request without a fault
			verifrt.Assert(ferr == ErrWalletShuttingDown, "c15-startup-first-attempt-stops-at-the-rescan")
			verifrt.Reach("fault-not-reached")
		}
	} else {
		close(w.w.quit)
	}
	err = w.w.syncWithChain(bs)
	verifrt.Assert(err == ErrWalletShuttingDown, "c15-startup-sync-reaches-rescan")

	// the wallet sits on the last common block
	cb := c.blocks[common]
	st := w.w.Manager.SyncedTo()
	verifrt.Assert(st.Height == cb.height && st.Hash == zzHash(cb.height, cb.fork), "c15-startup-rolled-back-to-last-common-block")
	verifrt.Assert(st.Timestamp.Unix() == c.ts(cb.height, cb.fork), "c15-startup-common-block-timestamp")
	saved := c.blocks
	c.blocks = c.blocks[:common+1]
	w.check("c15-startup")
	c.blocks = saved
	verifrt.Reach("c15-end")
}

// zzC15StartupRecovery: the same, with the wallet started in recovery mode
// (recoveryWindow > 0, as on a resumed recovery): recovery extends the tip
// along the backend's chain, so afterwards the wallet may sit anywhere from
// the last common block to the backend's tip - but on the best chain, with
// every remembered hash up to there on it and no confirmation in an orphaned
// block.
func zzC15StartupRecovery(depth int) {
	w := &zzC15World{zzWalletWorld: zzNewWalletWorld(10001, 4)}
	c := w.chain
	w.w.recoveryWindow = 1
	txAt := 1 + verifrt.Choice(3, "tx-block")
	addr := w.newAddress(waddrmgr.KeyScopeBIP0084, false)
	tx := zzPayTo(addr, 50000, 1)
	rec, err := wtxmgr.NewTxRecordFromMsgTx(tx, time.Unix(1600000000, 0))
	zzW(err)
	m := c.meta(c.blocks[txAt])
	zzW(walletdb.Update(w.db, func(dbtx walletdb.ReadWriteTx) error { return w.w.addRelevantTx(dbtx, rec, &m) }))
	w.txHash = &rec.Hash
	bb := c.blocks[txAt]
	w.txBlock = &bb
	birthday := c.meta(c.blocks[0])

	common := len(c.blocks) - 1 - depth
	c.blocks = c.blocks[:common+1]
	extra := verifrt.Choice(3, "new-branch-longer-by")
	for k := 0; k < depth+extra; k++ {
		t := c.tip()
		c.blocks = append(c.blocks, zzBlk{height: t.height + 1, fork: c.nextFrk})
		c.nextFrk++
	}
	if txAt > common {
		w.txBlock = nil
		verifrt.Reach("wallet-tx-orphaned")
	}
	if extra > 0 {
		verifrt.Reach("new-branch-longer")
	}
	bs := &waddrmgr.BlockStamp{Height: birthday.Height, Hash: birthday.Hash, Timestamp: birthday.Time}
	close(w.w.quit)
	err = w.w.syncWithChain(bs)
	verifrt.Assert(err == ErrWalletShuttingDown, "c15-startup-recovery-sync-reaches-rescan")

	cb := c.blocks[common]
	st := w.w.Manager.SyncedTo()
	verifrt.Assert(st.Height >= cb.height && st.Height <= c.tip().height, "c15-startup-recovery-tip-between-common-block-and-backend-tip")
	saved := c.blocks
	for i, b := range c.blocks {
		if b.height == st.Height {
			c.blocks = c.blocks[:i+1]
		}
	}
	w.check("c15-startup-recovery")
	c.blocks = saved
	verifrt.Reach("c15-end")
}

func ZzC15StartupRecovery1() { zzC15StartupRecovery(1) }
func ZzC15StartupRecovery2() { zzC15StartupRecovery(2) }
func ZzC15StartupFault1() { zzC15StartupF(1, 1) }
func ZzC15StartupFault2() { zzC15StartupF(2, 1) }
func ZzC15StartupRetry1() { zzC15StartupF(1, 2) }
func ZzC15Startup1() { zzC15Startup(1) }
func ZzC15Startup2() { zzC15Startup(2) }
func ZzC15Startup3() { zzC15Startup(3) }

// ZzC15RescanFinishedThenReorg: the wallet has just started - its initial
// rescan is running (real batch, RPC and progress handlers), so chain
// notifications are ignored until the backend reports the rescan finished.
// Right behind that report (with or without a pause) comes a reorg of depth 1
// that orphans the block holding a wallet transaction: the disconnect must be
// honoured whatever the goroutines' relative speed.
func ZzC15RescanFinishedThenReorg()   { zzC15RescanFinishedThenReorg(0) }
func ZzC15RescanFinishedThenReorgP1() { zzC15RescanFinishedThenReorg(1) }

func zzC15RescanFinishedThenReorg(bound int) {
	w := &zzC15World{zzWalletWorld: zzNewWalletWorld(10001, 3), budget: 100}
	c := w.chain
	addr := w.newAddress(waddrmgr.KeyScopeBIP0084, false)
	tx := zzPayTo(addr, 50000, 1)
	rec, err := wtxmgr.NewTxRecordFromMsgTx(tx, time.Unix(1600000000, 0))
	zzW(err)
	m := c.meta(c.tip())
	zzW(walletdb.Update(w.db, func(dbtx walletdb.ReadWriteTx) error { return w.w.addRelevantTx(dbtx, rec, &m) }))
	w.txHash = &rec.Hash
	bb := c.tip()
	w.txBlock = &bb

	verifrt.PreemptionBound(bound)
	w.w.SetChainSynced(false)
	w.startRescanPipeline()
	zzW(w.w.Rescan([]btcutil.Address{addr}, nil))
	verifrt.Assert(c.rescans == 1, "c15-rescan-requested")
	verifrt.Note("rescan finished")
	c.ntfns <- &chain.RescanFinished{Hash: &m.Hash, Height: m.Height, Time: m.Time}
	if verifrt.Choice(2, "pause-after-rescan-finished") == 1 {
		verifrt.Quiesce()
	}
	w.disconnectTip()
	w.check("c15-mid-reorg")
	w.connectNew(false)
	w.check("c15")
	close(w.w.quit)
	verifrt.Quiesce()
	verifrt.Reach("c15-end")
}
