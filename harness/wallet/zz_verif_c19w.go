//go:build verif

package wallet

import (
	"time"

	"github.com/btcsuite/btcd/btcutil/hdkeychain"
	"github.com/btcsuite/btcd/chaincfg"
	"github.com/btcsuite/btcwallet/waddrmgr"
	"github.com/btcsuite/btcwallet/walletdb"
	"github.com/btcsuite/btcwallet/walletdb/migration"
	"github.com/btcsuite/btcwallet/wtxmgr"

	"verif/memdb"
	"verif/verifrt"
)

// C19 at the wallet level: wallet.Open (OpenWithRetry) upgrades BOTH
// namespaces and opens both managers; whatever makes it fail - a newer
// version in either namespace, a migration that fails, a failing write at a
// symbolic position - the whole database must be exactly as before ("or not at
// all", "refused without being modified"), and a success records the latest
// version of both. Stored versions of both namespaces are SYMBOLIC uint32.
func ZzC19WalletOpen() {
	params := &chaincfg.SimNetParams
	db := memdb.New()
	root, err := hdkeychain.NewMaster(zzWSeed, params)
	zzW(err)
	zzW(walletdb.Update(db, func(tx walletdb.ReadWriteTx) error {
		a, err := tx.CreateTopLevelBucket(waddrmgrNamespaceKey)
		if err != nil {
			return err
		}
		t, err := tx.CreateTopLevelBucket(wtxmgrNamespaceKey)
		if err != nil {
			return err
		}
		if err := waddrmgr.Create(a, root, zzWPub, zzWPriv, params, &waddrmgr.FastScryptOptions, time.Unix(1600000000, 0)); err != nil {
			return err
		}
		return wtxmgr.Create(t)
	}))
	// some transaction history, so that wtxmgr's "drop the history"
	// migration has an observable effect
	{
		w, err := Open(db, zzWPub, nil, params, 0)
		zzW(err)
		ww := &zzWalletWorld{db: db, w: w, params: params}
		addr := ww.newAddress(waddrmgr.KeyScopeBIP0084, false)
		tx := zzPayTo(addr, 50000, 1)
		rec, err := wtxmgr.NewTxRecordFromMsgTx(tx, time.Unix(1600000100, 0))
		zzW(err)
		zzW(walletdb.Update(db, func(dbtx walletdb.ReadWriteTx) error {
			ns := dbtx.ReadWriteBucket(wtxmgrNamespaceKey)
			if err := w.TxStore.InsertTx(ns, rec, nil); err != nil {
				return err
			}
			return w.TxStore.AddCredit(ns, rec, nil, 0, false)
		}))
	}
	vTx := verifrt.U32("wtxmgr-version")
	vAddr := verifrt.U32("waddrmgr-version")
	// the database has the current layout; stamping it with a version below
	// 5 would claim the pre-scope layout, which upgradeToVersion5 rightly
	// cannot find (no history reaches such a state): versions 5.. only
	verifrt.Assume(vAddr >= 5)
	var latestTx, latestAddr uint32
	zzW(walletdb.Update(db, func(tx walletdb.ReadWriteTx) error {
		tm := wtxmgr.NewMigrationManager(tx.ReadWriteBucket(wtxmgrNamespaceKey))
		am := waddrmgr.NewMigrationManager(tx.ReadWriteBucket(waddrmgrNamespaceKey))
		latestTx = migration.GetLatestVersion(tm.Versions())
		latestAddr = migration.GetLatestVersion(am.Versions())
		if err := tm.SetVersion(nil, vTx); err != nil {
			return err
		}
		return am.SetVersion(nil, vAddr)
	}))
	before := db.Dump()

	faulty := verifrt.Choice(2, "with-fault") == 1
	if faulty {
		k := verifrt.Int("fault-at")
		verifrt.Assume(verifrt.And(k >= 0, k < 64))
		verifrt.ArmFault(k)
	}
	w, err := Open(db, zzWPub, nil, params, 0)
	hit := verifrt.FaultHit()
	verifrt.ArmFault(-1)

	if vTx > latestTx || vAddr > latestAddr {
		verifrt.Assert(err != nil, "c19w-newer-version-refused")
		verifrt.Reach("newer")
	}
	if faulty && hit {
		verifrt.Assert(err != nil, "c19w-failed-write-reported")
		verifrt.Reach("fault-hit")
	}
	if err != nil {
		verifrt.Assert(memdb.EqualDumps(db.Dump(), before), "c19w-failed-open-leaves-the-database-untouched")
		if vTx < latestTx {
			verifrt.Reach("failed-with-pending-wtxmgr-migration")
		}
		verifrt.Reach("open-failed")
	} else {
		verifrt.Assert(w != nil, "c19w-wallet-returned")
		var gotTx, gotAddr uint32
		zzW(walletdb.Update(db, func(tx walletdb.ReadWriteTx) error {
			var e error
			tm := wtxmgr.NewMigrationManager(tx.ReadWriteBucket(wtxmgrNamespaceKey))
			am := waddrmgr.NewMigrationManager(tx.ReadWriteBucket(waddrmgrNamespaceKey))
			if gotTx, e = tm.CurrentVersion(nil); e != nil {
				return e
			}
			gotAddr, e = am.CurrentVersion(nil)
			return e
		}))
		verifrt.Assert(gotTx == latestTx && gotAddr == latestAddr, "c19w-latest-versions-recorded")
		if vTx == latestTx && vAddr == latestAddr {
			verifrt.Assert(memdb.EqualDumps(db.Dump(), before), "c19w-current-database-untouched")
		}
		verifrt.Reach("opened")
	}
	verifrt.Reach("c19w-end")
}
