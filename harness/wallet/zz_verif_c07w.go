//go:build verif

package wallet

import (
	"github.com/btcsuite/btcd/btcutil"
	"github.com/btcsuite/btcd/btcutil/hdkeychain"
	"github.com/btcsuite/btcd/wire"
	"github.com/btcsuite/btcwallet/wallet/txauthor"
	"github.com/btcsuite/btcwallet/wallet/txsizes"
	"github.com/btcsuite/btcwallet/waddrmgr"
	"github.com/btcsuite/btcwallet/walletdb"
	"github.com/btcsuite/btcwallet/wtxmgr"

	"verif/verifrt"
)

// C07 with the wallet's REAL input sources (anchors: makeInputSource /
// constantInputSource, wallet/createtx.go:25-84): three P2WPKH coins with
// symbolic amounts (largest first, as the selection strategies hand them
// over), one output with a symbolic amount, txauthor.NewUnsignedTransaction.
// The authored transaction uses each offered coin at most once, takes them in
// the order offered (a prefix for the incremental source, all of them for the
// constant one), reports their sum, and conserves value.
func ZzC07WalletSources() {
	p2wpkh := func(tag byte) []byte {
		s := []byte{0x00, 0x14}
		for i := 0; i < 20; i++ {
			s = append(s, tag)
		}
		return s
	}
	var coins []Coin
	var credits []wtxmgr.Credit
	var amts []int64
	prev := int64(1 << 40)
	for k := 0; k < 3; k++ {
		a := verifrt.I64("coin")
		verifrt.Assume(verifrt.And(a >= 1000, a <= prev))
		prev = a
		amts = append(amts, a)
		op := wire.OutPoint{Index: uint32(k)}
		op.Hash[0] = 0xc7
		op.Hash[1] = byte(k)
		coins = append(coins, Coin{TxOut: wire.TxOut{Value: a, PkScript: p2wpkh(byte(k + 1))}, OutPoint: op})
		credits = append(credits, wtxmgr.Credit{OutPoint: op, Amount: btcutil.Amount(a), PkScript: p2wpkh(byte(k + 1))})
	}
	pay := verifrt.I64("pay")
	verifrt.Assume(verifrt.And(pay >= 1000, pay <= 1<<41))
	outs := []*wire.TxOut{wire.NewTxOut(pay, p2wpkh(9))}
	rate := btcutil.Amount([]int64{1000, 10000}[verifrt.Choice(2, "fee-rate")])
	constant := verifrt.Choice(2, "source") == 1
	var src txauthor.InputSource
	if constant {
		src = constantInputSource(credits)
	} else {
		src = makeInputSource(coins)
	}
	change := &txauthor.ChangeSource{
		ScriptSize: txsizes.P2WPKHPkScriptSize,
		NewScript:  func() ([]byte, error) { return p2wpkh(8), nil },
	}
	atx, err := txauthor.NewUnsignedTransaction(outs, rate, src, change)
	if err != nil {
		verifrt.Reach("insufficient")
		return
	}
	n := len(atx.Tx.TxIn)
	verifrt.Assert(n >= 1 && n <= 3, "c07w-input-count")
	if constant {
		verifrt.Assert(n == 3, "c07w-constant-source-uses-all-selected-coins")
	}
	var sum int64
	for k, in := range atx.Tx.TxIn {
		if k < 3 {
			verifrt.Assert(in.PreviousOutPoint == coins[k].OutPoint, "c07w-coins-taken-in-the-order-offered-each-once")
			sum += amts[k]
			verifrt.Assert(k >= len(atx.PrevInputValues) || int64(atx.PrevInputValues[k]) == amts[k], "c07w-input-values-reported")
		}
	}
	verifrt.Assert(int64(atx.TotalInput) == sum, "c07w-total-input-is-the-sum-of-the-inputs")
	var outSum int64
	for _, o := range atx.Tx.TxOut {
		outSum += o.Value
	}
	verifrt.Assert(sum >= outSum, "c07w-outputs-do-not-exceed-inputs")
	verifrt.Assert(atx.Tx.TxOut[0].Value == pay || (atx.ChangeIndex == 0 && atx.Tx.TxOut[1].Value == pay), "c07w-requested-output-unchanged")
	if n > 1 {
		verifrt.Reach("several-inputs")
		if !constant {
			// the incremental source stops as soon as the target is met: the
			// coins before the last one did not cover the payment alone
			verifrt.Assert(sum-amts[n-1] < pay+int64(rate), "c07w-no-coin-beyond-need")
		}
	}
	verifrt.Reach("c07w-end")
}

// ZzC07WalletChangeSource: the wallet's REAL change source
// (addrMgrWithChangeSource, wallet/createtx.go) for every default scope and a
// custom one, for the default account, an imported extended-public-key
// account with or without an overriding address schema, and the imported-keys
// account: the script it hands out has exactly the size the fee estimate was
// told (ChangeSource.ScriptSize) and the type the account's effective address
// schema prescribes for the internal branch.
func ZzC07WalletChangeSource() {
	w := zzNewWalletWorld(10001, 3)
	scopes := []waddrmgr.KeyScope{waddrmgr.KeyScopeBIP0044, waddrmgr.KeyScopeBIP0049Plus,
		waddrmgr.KeyScopeBIP0084, waddrmgr.KeyScopeBIP0086, {Purpose: 1017, Coin: 1}}
	si := verifrt.Choice(len(scopes), "scope")
	scope := scopes[si]
	schema, known := waddrmgr.ScopeAddrMap[scope]
	if !known {
		schema = waddrmgr.ScopeAddrSchema{ExternalAddrType: waddrmgr.WitnessPubKey, InternalAddrType: waddrmgr.TaprootPubKey}
		zzW(walletdb.Update(w.db, func(tx walletdb.ReadWriteTx) error {
			ns := tx.ReadWriteBucket(waddrmgrNamespaceKey)
			if err := w.w.Manager.Unlock(ns, zzWPriv); err != nil {
				return err
			}
			_, err := w.w.Manager.NewScopedKeyManager(ns, scope, schema)
			return err
		}))
		verifrt.Reach("custom-scope")
	}
	account := uint32(0)
	switch verifrt.Choice(3, "account") {
	case 1: // somebody's account key, imported with or without an override
		root, err := hdkeychain.NewMaster(zzWSeed, w.params)
		zzW(err)
		k := root
		for _, i := range []uint32{scope.Purpose + hdkeychain.HardenedKeyStart, scope.Coin + hdkeychain.HardenedKeyStart, 9 + hdkeychain.HardenedKeyStart} {
			c, err := k.DeriveNonStandard(i) // nolint:staticcheck
			zzW(err)
			k = c
		}
		pubK, err := k.Neuter()
		zzW(err)
		overrides := []*waddrmgr.ScopeAddrSchema{nil,
			{ExternalAddrType: waddrmgr.NestedWitnessPubKey, InternalAddrType: waddrmgr.NestedWitnessPubKey},
			{ExternalAddrType: waddrmgr.PubKeyHash, InternalAddrType: waddrmgr.PubKeyHash},
			{ExternalAddrType: waddrmgr.WitnessPubKey, InternalAddrType: waddrmgr.TaprootPubKey},
			{ExternalAddrType: waddrmgr.TaprootPubKey, InternalAddrType: waddrmgr.WitnessPubKey}}
		ov := overrides[verifrt.Choice(len(overrides), "override")]
		zzW(walletdb.Update(w.db, func(tx walletdb.ReadWriteTx) error {
			sm, err := w.w.Manager.FetchScopedKeyManager(scope)
			if err != nil {
				return err
			}
			account, err = sm.NewAccountWatchingOnly(tx.ReadWriteBucket(waddrmgrNamespaceKey), "somebody", pubK, 0x11223344, ov)
			return err
		}))
		if ov != nil {
			schema = *ov
			verifrt.Reach("schema-override")
		}
	case 2: // spending from the imported-keys account: change goes to account 0
		account = waddrmgr.ImportedAddrAccount
	}
	want := map[waddrmgr.AddressType]int{
		waddrmgr.PubKeyHash:          txsizes.P2PKHPkScriptSize,
		waddrmgr.NestedWitnessPubKey: txsizes.NestedP2WPKHPkScriptSize,
		waddrmgr.WitnessPubKey:       txsizes.P2WPKHPkScriptSize,
		waddrmgr.TaprootPubKey:       txsizes.P2TRPkScriptSize,
	}[schema.InternalAddrType]
	zzW(walletdb.Update(w.db, func(dbtx walletdb.ReadWriteTx) error {
		_, cs, err := w.w.addrMgrWithChangeSource(dbtx, &scope, account)
		zzW(err)
		script, err := cs.NewScript()
		zzW(err)
		verifrt.Assert(len(script) == cs.ScriptSize, "c07w-change-script-has-the-size-the-fee-was-estimated-for")
		verifrt.Assert(len(script) == want, "c07w-change-script-type-follows-the-accounts-address-schema")
		return nil
	}))
	verifrt.Reach("c07w-end")
}
