//go:build verif

package wallet

import (
	"github.com/btcsuite/btcd/btcutil"
	"github.com/btcsuite/btcd/wire"
	"github.com/btcsuite/btcwallet/wallet/txauthor"
	"github.com/btcsuite/btcwallet/wallet/txsizes"
	"github.com/btcsuite/btcwallet/wtxmgr"

	"verif/verifrt"
)

// C07 with the wallet's REAL input sources (anchors: makeInputSource /
// constantInputSource, wallet/createtx.go:25-84): three P2WPKH coins with
// symbolic amounts (largest first, as the selection strategies hand them
// over), one output with a symbolic amount, txauthor.NewUnsignedTransaction.
// The authored transaction uses each offered coin at most once, takes them in
// the order offered (a prefix for the incremental source, all of them for the
// constant one), reports their sum, and conserves value.
func ZzC07WalletSources() {
	p2wpkh := func(tag byte) []byte {
		s := []byte{0x00, 0x14}
		for i := 0; i < 20; i++ {
			s = append(s, tag)
		}
		return s
	}
	var coins []Coin
	var credits []wtxmgr.Credit
	var amts []int64
	prev := int64(1 << 40)
	for k := 0; k < 3; k++ {
		a := verifrt.I64("coin")
		verifrt.Assume(verifrt.And(a >= 1000, a <= prev))
		prev = a
		amts = append(amts, a)
		op := wire.OutPoint{Index: uint32(k)}
		op.Hash[0] = 0xc7
		op.Hash[1] = byte(k)
		coins = append(coins, Coin{TxOut: wire.TxOut{Value: a, PkScript: p2wpkh(byte(k + 1))}, OutPoint: op})
		credits = append(credits, wtxmgr.Credit{OutPoint: op, Amount: btcutil.Amount(a), PkScript: p2wpkh(byte(k + 1))})
	}
	pay := verifrt.I64("pay")
	verifrt.Assume(verifrt.And(pay >= 1000, pay <= 1<<41))
	outs := []*wire.TxOut{wire.NewTxOut(pay, p2wpkh(9))}
	rate := btcutil.Amount([]int64{1000, 10000}[verifrt.Choice(2, "fee-rate")])
	constant := verifrt.Choice(2, "source") == 1
	var src txauthor.InputSource
	if constant {
		src = constantInputSource(credits)
	} else {
		src = makeInputSource(coins)
	}
	change := &txauthor.ChangeSource{
		ScriptSize: txsizes.P2WPKHPkScriptSize,
		NewScript:  func() ([]byte, error) { return p2wpkh(8), nil },
	}
	atx, err := txauthor.NewUnsignedTransaction(outs, rate, src, change)
	if err != nil {
		verifrt.Reach("insufficient")
		return
	}
	n := len(atx.Tx.TxIn)
	verifrt.Assert(n >= 1 && n <= 3, "c07w-input-count")
	if constant {
		verifrt.Assert(n == 3, "c07w-constant-source-uses-all-selected-coins")
	}
	var sum int64
	for k, in := range atx.Tx.TxIn {
		if k < 3 {
			verifrt.Assert(in.PreviousOutPoint == coins[k].OutPoint, "c07w-coins-taken-in-the-order-offered-each-once")
			sum += amts[k]
			verifrt.Assert(k >= len(atx.PrevInputValues) || int64(atx.PrevInputValues[k]) == amts[k], "c07w-input-values-reported")
		}
	}
	verifrt.Assert(int64(atx.TotalInput) == sum, "c07w-total-input-is-the-sum-of-the-inputs")
	var outSum int64
	for _, o := range atx.Tx.TxOut {
		outSum += o.Value
	}
	verifrt.Assert(sum >= outSum, "c07w-outputs-do-not-exceed-inputs")
	verifrt.Assert(atx.Tx.TxOut[0].Value == pay || (atx.ChangeIndex == 0 && atx.Tx.TxOut[1].Value == pay), "c07w-requested-output-unchanged")
	if n > 1 {
		verifrt.Reach("several-inputs")
		if !constant {
			// the incremental source stops as soon as the target is met: the
			// coins before the last one did not cover the payment alone
			verifrt.Assert(sum-amts[n-1] < pay+int64(rate), "c07w-no-coin-beyond-need")
		}
	}
	verifrt.Reach("c07w-end")
}
