//go:build verif

package wallet

import (
	"github.com/btcsuite/btcd/btcutil"

	"verif/verifrt"
)

// C01 at the wallet level (observe_at: Wallet.CalculateBalance,
// Wallet.ListUnspent): on the nine-credit wallet of the C06 world the balance
// for a SYMBOLIC minimum confirmation count and symbolic coinbase maturity is
// the sum of the statement's outputs (every account and scope; user locks do
// not affect the balance), and ListUnspent lists exactly the unspent, unleased,
// unlocked outputs inside the confirmation range, once each, with amount and
// confirmation count.
func ZzC01Wallet() {
	w := zzNewC06World()
	minconf := verifrt.I32("minconf")
	verifrt.Assume(verifrt.And(minconf >= 0, minconf <= 1<<20))
	height := w.w.Manager.SyncedTo().Height
	verifrt.Assert(height == w.chain.tip().height, "c01w-setup-synced-to-tip")
	maturity := int32(w.params.CoinbaseMaturity)
	confsOf := func(c *zzCoinInfo) int32 {
		if c.height == -1 {
			return 0
		}
		return height - c.height + 1
	}
	var want int64
	for _, c := range w.coins {
		if c.spent || c.leased {
			continue
		}
		ok := confsOf(c) >= minconf
		if c.coinbase {
			ok = verifrt.And(ok, confsOf(c) >= maturity)
		}
		want += verifrt.IteI64(ok, c.amount, 0)
	}
	bal, err := w.w.CalculateBalance(minconf)
	zzW(err)
	verifrt.Assert(int64(bal) == want, "c01w-calculate-balance-is-the-ledger-sum")

	// ListUnspent over a concrete choice of ranges (its amounts are floats)
	mc := int32(verifrt.Choice(3, "list-minconf"))
	maxc := []int32{0, 2, 9999999}[verifrt.Choice(3, "list-maxconf")]
	res, err := w.w.ListUnspent(mc, maxc, "")
	zzW(err)
	for _, c := range w.coins {
		n := 0
		for _, r := range res {
			if r.TxID == c.op.Hash.String() && r.Vout == c.op.Index {
				n++
				verifrt.Assert(r.Amount == btcutil.Amount(c.amount).ToBTC(), "c01w-listunspent-amount")
				verifrt.Assert(r.Confirmations == int64(confsOf(c)), "c01w-listunspent-confirmations")
			}
		}
		verifrt.Observe("coin", c.name)
		wantListed := !c.spent && !c.leased && !c.locked && confsOf(c) >= mc && confsOf(c) <= maxc
		if c.coinbase {
			wantListed = verifrt.And(wantListed, confsOf(c) >= maturity)
		}
		verifrt.Assert(verifrt.And(n <= 1, (n == 1) == wantListed), "c01w-listunspent-is-the-spendable-set")
	}
	verifrt.Observe("coin", "")
	if len(res) > 2 {
		verifrt.Reach("several-listed")
	}
	verifrt.Reach("c01w-end")
}
