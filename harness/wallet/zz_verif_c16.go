//go:build verif

package wallet

import (
	"time"

	"github.com/btcsuite/btcd/btcutil"
	"github.com/btcsuite/btcd/btcutil/hdkeychain"
	"github.com/btcsuite/btcd/chaincfg"
	"github.com/btcsuite/btcd/chaincfg/chainhash"
	"github.com/btcsuite/btcd/wire"
	"github.com/btcsuite/btcwallet/chain"
	"github.com/btcsuite/btcwallet/waddrmgr"
	"github.com/btcsuite/btcwallet/walletdb"

	"verif/verifrt"
)

// ---------------------------------------------------------------- piece 1: locateBirthdayBlock

// zzMonoChain is a chain whose block timestamps are an arbitrary monotone
// function of the height: ts(h) is created lazily as a symbolic value and
// related to every height queried before (equal heights -> equal timestamps,
// lower height -> not later).
type zzMonoChain struct {
	best  int32
	hs    []int32
	ts    []int64
	calls int
	byPtr map[*chainhash.Hash]int32
}

func (c *zzMonoChain) tsOf(h int32) int64 {
	t := verifrt.I64("ts")
	verifrt.Assume(verifrt.And(t >= 1300000000, t <= 2000000000))
	for k := range c.hs {
		verifrt.Assume(verifrt.Implies(h == c.hs[k], t == c.ts[k]))
		verifrt.Assume(verifrt.Implies(h < c.hs[k], t <= c.ts[k]))
		verifrt.Assume(verifrt.Implies(h > c.hs[k], t >= c.ts[k]))
	}
	c.hs = append(c.hs, h)
	c.ts = append(c.ts, t)
	return t
}

func (c *zzMonoChain) GetBestBlock() (*chainhash.Hash, int32, error) {
	return &chainhash.Hash{}, c.best, nil
}

func (c *zzMonoChain) GetBlockHash(h int64) (*chainhash.Hash, error) {
	c.calls++
	// the hash object stands for the block at height h (looked up by identity)
	hash := &chainhash.Hash{0xb0}
	if c.byPtr == nil {
		c.byPtr = map[*chainhash.Hash]int32{}
	}
	c.byPtr[hash] = int32(h)
	return hash, nil
}

func (c *zzMonoChain) GetBlockHeader(hash *chainhash.Hash) (*wire.BlockHeader, error) {
	h := c.byPtr[hash]
	return &wire.BlockHeader{Timestamp: time.Unix(c.tsOf(h), 0)}, nil
}

// zzC16Birthday: for every chain of at most maxBest+1 blocks with monotone
// timestamps and every birthday, the binary search terminates within
// log2(best)+2 probes and returns a block of the chain that is block 0 or has
// a timestamp not later than birthday+2h.
func zzC16Birthday(maxBest int32, maxProbes int) {
	c := &zzMonoChain{best: verifrt.I32("best")}
	verifrt.Assume(verifrt.And(c.best >= 0, c.best <= maxBest))
	bday := verifrt.I64("birthday")
	verifrt.Assume(verifrt.And(bday >= 1300000000, bday <= 2000000000))
	verifrt.Unwind(maxProbes + 3)
	bs, err := locateBirthdayBlock(c, time.Unix(bday, 0))
	verifrt.Assert(err == nil && bs != nil, "c16-birthday-found")
	verifrt.Assert(c.calls <= maxProbes, "c16-binary-search-terminates-in-log-steps")
	verifrt.Assert(bs.Height >= 0 && bs.Height <= c.best, "c16-birthday-block-on-chain")
	t := bs.Timestamp.Unix()
	// the returned stamp is the block's own timestamp
	for k := range c.hs {
		verifrt.Assert(verifrt.Implies(c.hs[k] == bs.Height, c.ts[k] == t), "c16-birthday-stamp-consistent")
	}
	verifrt.Assert(verifrt.Or(bs.Height == 0, t <= bday+7200), "c16-birthday-block-not-after-first-payable-block")
	if bs.Height > 0 {
		verifrt.Reach("inner-block")
	}
	verifrt.Reach("c16-end")
}

func ZzC16Birthday7()  { zzC16Birthday(7, 5) }
func ZzC16Birthday15() { zzC16Birthday(15, 6) }
func ZzC16Birthday63() { zzC16Birthday(63, 8) }

// ---------------------------------------------------------------- piece 2: horizons

type zzAddr struct {
	waddrmgr.ManagedAddress
	branch, index uint32
	a             btcutil.Address
}

func (z zzAddr) Address() btcutil.Address { return z.a }

type zzFakeAddr struct {
	branch, index uint32
}

func (f *zzFakeAddr) String() string                 { return "fake" }
func (f *zzFakeAddr) EncodeAddress() string          { return "fake" }
func (f *zzFakeAddr) ScriptAddress() []byte          { return []byte{byte(f.branch), byte(f.index)} }
func (f *zzFakeAddr) IsForNet(*chaincfg.Params) bool { return true }

type zzHorizonWorld struct {
	invalid  map[[2]uint32]bool
	derived  map[[2]uint32]int
	extended [2][]uint32
	used     [][2]uint32
	nInvalid, maxInvalid int
}

func (w *zzHorizonWorld) isInvalid(branch, index uint32) bool {
	k := [2]uint32{branch, index}
	v, ok := w.invalid[k]
	if !ok {
		// at most maxInvalid invalid children per history (a real chain code
		// yields one with probability 2^-127 per index)
		if w.nInvalid < w.maxInvalid && verifrt.Bool("invalid-child") {
			v = true
			w.nInvalid++
		}
		w.invalid[k] = v
	}
	return v
}

const zzSKM = "(*github.com/btcsuite/btcwallet/waddrmgr.ScopedKeyManager)."

// zzC16Horizon: BranchRecoveryState + expandScopeHorizons +
// extendFoundAddresses (real code) over a key manager whose derivation
// declares arbitrary child indexes invalid (symbolic booleans).
func zzC16Horizon(W uint32, rounds int, start uint32) {
	w := &zzHorizonWorld{invalid: map[[2]uint32]bool{}, derived: map[[2]uint32]int{}, maxInvalid: 2}
	verifrt.StubFunc(zzSKM+"DeriveFromKeyPath", func(_ *waddrmgr.ScopedKeyManager, _ walletdb.ReadBucket, kp waddrmgr.DerivationPath) (waddrmgr.ManagedAddress, error) {
		if w.isInvalid(kp.Branch, kp.Index) {
			return nil, hdkeychain.ErrInvalidChild
		}
		w.derived[[2]uint32{kp.Branch, kp.Index}]++
		return zzAddr{branch: kp.Branch, index: kp.Index, a: &zzFakeAddr{kp.Branch, kp.Index}}, nil
	})
	verifrt.StubFunc(zzSKM+"ExtendExternalAddresses", func(_ *waddrmgr.ScopedKeyManager, _ walletdb.ReadWriteBucket, _ uint32, last uint32) error {
		w.extended[0] = append(w.extended[0], last)
		return nil
	})
	verifrt.StubFunc(zzSKM+"ExtendInternalAddresses", func(_ *waddrmgr.ScopedKeyManager, _ walletdb.ReadWriteBucket, _ uint32, last uint32) error {
		w.extended[1] = append(w.extended[1], last)
		return nil
	})
	verifrt.StubFunc(zzSKM+"MarkUsed", func(_ *waddrmgr.ScopedKeyManager, _ walletdb.ReadWriteBucket, a btcutil.Address) error {
		f := a.(*zzFakeAddr)
		w.used = append(w.used, [2]uint32{f.branch, f.index})
		return nil
	})

	scope := waddrmgr.KeyScopeBIP0084
	mgr := &waddrmgr.ScopedKeyManager{}
	mgrs := map[waddrmgr.KeyScope]*waddrmgr.ScopedKeyManager{scope: mgr}
	rs := NewRecoveryState(W)
	st := rs.StateForScope(scope)
	if start > 0 {
		// a resumed recovery: everything below start was found earlier
		st.ExternalBranch.ReportFound(start - 1)
		st.ExternalBranch.horizon = start
	}
	branches := []*BranchRecoveryState{st.ExternalBranch, st.InternalBranch}

	for r := 0; r < rounds; r++ {
		must16(expandScopeHorizons(nil, mgr, st))
		for b, brs := range branches {
			nu := brs.NextUnfound()
			// look-ahead: every valid index below nextUnfound+W is watched
			valid := uint32(0)
			for i := nu; i != nu+W+8; i++ {
				_, seen := w.invalid[[2]uint32{uint32(b), i}]
				if !seen {
					continue // never derived: beyond the horizon
				}
				if w.invalid[[2]uint32{uint32(b), i}] {
					continue
				}
				a := brs.GetAddr(i)
				verifrt.Assert(a != nil && a.(*zzFakeAddr).index == i && a.(*zzFakeAddr).branch == uint32(b), "c16-derived-address-registered")
				valid++
			}
			verifrt.Assert(valid >= W, "c16-window-of-W-valid-addresses-beyond-highest-found")
			for i := nu; i != nu+W; i++ {
				if inv, seen := w.invalid[[2]uint32{uint32(b), i}]; seen && !inv {
					verifrt.Assert(brs.GetAddr(i) != nil, "c16-every-valid-index-in-lookahead-watched")
				} else {
					verifrt.Assert(seen, "c16-lookahead-index-derived")
				}
			}
		}
		// a block pays some watched address within the look-ahead on one branch
		b := verifrt.Choice(2, "found-branch")
		brs := branches[b]
		nu := brs.NextUnfound()
		off := uint32(verifrt.Choice(int(W), "found-offset"))
		idx := nu + off
		if w.isInvalid(uint32(b), idx) {
			verifrt.Assume(false) // an invalid child has no address to pay
		}
		resp := &chain.FilterBlocksResponse{
			FoundExternalAddrs: map[waddrmgr.KeyScope]map[uint32]struct{}{},
			FoundInternalAddrs: map[waddrmgr.KeyScope]map[uint32]struct{}{},
		}
		if b == 0 {
			resp.FoundExternalAddrs[scope] = map[uint32]struct{}{idx: {}}
		} else {
			resp.FoundInternalAddrs[scope] = map[uint32]struct{}{idx: {}}
		}
		nExt, nUsed := len(w.extended[b]), len(w.used)
		must16(extendFoundAddresses(nil, resp, mgrs, rs))
		verifrt.Assert(brs.NextUnfound() == idx+1, "c16-next-index-above-highest-used")
		verifrt.Assert(len(w.extended[b]) == nExt+1 && w.extended[b][nExt] == idx, "c16-manager-extended-to-highest-found")
		verifrt.Assert(len(w.used) == nUsed+1 && w.used[nUsed] == [2]uint32{uint32(b), idx}, "c16-found-address-marked-used")
		if off > 0 {
			verifrt.Reach("jump")
		}
	}
	for k := range w.invalid {
		if w.invalid[k] {
			verifrt.Reach("invalid-child")
			break
		}
	}
	verifrt.Reach("c16-end")
}

func must16(err error) {
	if err != nil {
		panic(err)
	}
}

func ZzC16HorizonW1() { zzC16Horizon(1, 3, 0) }
func ZzC16HorizonW2() { zzC16Horizon(2, 2, 0) }
func ZzC16HorizonW3() { zzC16Horizon(3, 2, 0) }
func ZzC16HorizonW3R3() { zzC16Horizon(3, 3, 0) }
func ZzC16HorizonW4() { zzC16Horizon(4, 2, 7) }
func ZzC16HorizonResume() { zzC16Horizon(2, 2, 7) }
