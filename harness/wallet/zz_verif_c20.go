//go:build verif

package wallet

import (
	"errors"
	"time"

	"github.com/btcsuite/btcd/btcutil"
	"github.com/btcsuite/btcd/chaincfg/chainhash"
	"github.com/btcsuite/btcd/txscript"
	"github.com/btcsuite/btcd/wire"
	"github.com/btcsuite/btcwallet/chain"
	"github.com/btcsuite/btcwallet/waddrmgr"
	"github.com/btcsuite/btcwallet/walletdb"
	"github.com/btcsuite/btcwallet/wtxmgr"

	"verif/verifrt"
)

// C20: broadcast outcomes. A funded wallet (one confirmed credit with a
// symbolic amount) hands a spending transaction to the backend model, whose
// answer class is chosen; balance is compared for a symbolic minconf.

var zzErrRejected = errors.New("backend: rejected for some other reason")
var zzErrSubscribe = errors.New("backend: notification subscription failed")

// zzRejection: the backend refuses the transaction for ANY of the reasons
// the chain package knows (symbolic reject code, every value except the three
// that mean "I have it already"), or for a reason it cannot classify.
func zzRejection() error {
	if verifrt.Choice(2, "classified-rejection") == 0 {
		return zzErrRejected
	}
	code := chain.RPCErr(verifrt.U32("reject-code"))
	verifrt.Assume(code <= chain.ErrNonMandatoryScriptVerifyFlag)
	verifrt.Assume(verifrt.And(code != chain.ErrTxAlreadyKnown, verifrt.And(code != chain.ErrTxAlreadyConfirmed, code != chain.ErrTxAlreadyInMempool)))
	verifrt.Reach("classified-rejection")
	return code
}

type zzC20World struct {
	*zzWalletWorld
	fund    *wire.MsgTx
	fundAmt int64
	recvAddr, changeAddr, change2 btcutil.Address
}

func (w *zzC20World) balance(minConf int32) int64 {
	var bal btcutil.Amount
	zzW(walletdb.View(w.db, func(tx walletdb.ReadTx) error {
		var err error
		bal, err = w.w.TxStore.Balance(tx.ReadBucket(wtxmgrNamespaceKey), minConf, w.chain.tip().height)
		return err
	}))
	return int64(bal)
}

func (w *zzC20World) unspent() []wtxmgr.Credit {
	var cs []wtxmgr.Credit
	zzW(walletdb.View(w.db, func(tx walletdb.ReadTx) error {
		var err error
		cs, err = w.w.TxStore.UnspentOutputs(tx.ReadBucket(wtxmgrNamespaceKey))
		return err
	}))
	return cs
}

func (w *zzC20World) known(h chainhash.Hash) bool {
	var d *wtxmgr.TxDetails
	zzW(walletdb.View(w.db, func(tx walletdb.ReadTx) error {
		var err error
		d, err = w.w.TxStore.TxDetails(tx.ReadBucket(wtxmgrNamespaceKey), &h)
		return err
	}))
	return d != nil
}

func zzNewC20World() *zzC20World { return zzNewC20WorldAmt(0) }

// zzNewC20WorldAmt: amt > 0 fixes the funding amount (callers that pass it
// through float conversions, such as ListUnspent's BTC amounts).
func zzNewC20WorldAmt(amt int64) *zzC20World {
	w := &zzC20World{zzWalletWorld: zzNewWalletWorld(10001, 3)}
	w.recvAddr = w.newAddress(waddrmgr.KeyScopeBIP0084, false)
	w.changeAddr = w.newAddress(waddrmgr.KeyScopeBIP0084, true)
	w.change2 = w.newAddress(waddrmgr.KeyScopeBIP0084, true)
	if amt > 0 {
		w.fundAmt = amt
	} else {
		w.fundAmt = verifrt.I64("fund")
		verifrt.Assume(verifrt.And(w.fundAmt >= 100000, w.fundAmt <= 2_000_000_000_000))
	}
	w.fund = zzPayTo(w.recvAddr, w.fundAmt, 1)
	rec, err := wtxmgr.NewTxRecordFromMsgTx(w.fund, time.Unix(1600000000, 0))
	zzW(err)
	m := w.chain.meta(w.chain.blocks[1])
	zzW(walletdb.Update(w.db, func(tx walletdb.ReadWriteTx) error { return w.w.addRelevantTx(tx, rec, &m) }))
	return w
}

// spend builds a transaction spending (parent:idx), paying `pay` outside and
// the rest minus a fee back to the wallet's change address.
func (w *zzC20World) spend(parent *wire.MsgTx, idx uint32, inAmt int64, changeTo btcutil.Address, tag byte) (*wire.MsgTx, int64) {
	tx := wire.NewMsgTx(2)
	op := wire.OutPoint{Hash: parent.TxHash(), Index: idx}
	tx.AddTxIn(wire.NewTxIn(&op, nil, nil))
	pay := verifrt.I64("pay")
	verifrt.Assume(verifrt.And(pay >= 1000, pay <= inAmt-20000))
	change := inAmt - pay - 10000
	tx.AddTxOut(wire.NewTxOut(pay, []byte{0x00, 0x14, tag, 2, 3, 4, 5, 6, 7, 8, 9, 10, 11, 12, 13, 14, 15, 16, 17, 18, 19, 20}))
	cs, err := txscript.PayToAddrScript(changeTo)
	zzW(err)
	tx.AddTxOut(wire.NewTxOut(change, cs))
	tx.LockTime = uint32(tag) + 100
	return tx, change
}

func zzC20Publish(chained bool) {
	w := zzNewC20World()
	parent, pidx, pamt := w.fund, uint32(0), w.fundAmt
	if chained {
		// an earlier, accepted, still unconfirmed send whose change the new one spends
		t0, ch0 := w.spend(w.fund, 0, w.fundAmt, w.changeAddr, 7)
		_, err := w.w.reliablyPublishTransaction(t0, "")
		zzW(err)
		parent, pidx, pamt = t0, 1, ch0
		verifrt.Reach("chained")
	}
	t, change := w.spend(parent, pidx, pamt, w.change2, 9)
	th := t.TxHash()
	minConf := verifrt.I32("minConf")
	verifrt.Assume(verifrt.And(minConf >= 0, minConf <= 10))
	before := w.balance(minConf)
	before0 := w.balance(0)
	utxoBefore := w.unspent()
	sentBefore := len(w.chain.sent)

	answer := verifrt.Choice(6, "backend-answer")
	switch answer {
	case 0:
		verifrt.Observe("answer", "accepted")
	case 1:
		w.chain.sendErr = chain.ErrTxAlreadyInMempool
		verifrt.Observe("answer", "already-in-mempool")
	case 2:
		w.chain.sendErr = chain.ErrTxAlreadyKnown
		verifrt.Observe("answer", "already-known")
	case 3:
		w.chain.sendErr = chain.ErrTxAlreadyConfirmed
		verifrt.Observe("answer", "already-confirmed")
	case 4:
		w.chain.sendErr = zzRejection()
		verifrt.Observe("answer", "rejected")
	case 5:
		w.chain.notifyErr = zzErrSubscribe
		verifrt.Observe("answer", "subscription-failed")
	}
	h, err := w.w.reliablyPublishTransaction(t, "")
	w.chain.sendErr, w.chain.notifyErr = nil, nil

	switch answer {
	case 0, 1:
		verifrt.Assert(err == nil && h != nil && *h == th, "c20-accepted-returns-hash")
		verifrt.Assert(w.known(th), "c20-in-mempool-stays-recorded")
		// counted once: the spent coin is gone, the change counts exactly once at minconf 0
		verifrt.Assert(w.balance(0) == before0-pamt+change, "c20-recorded-counted-once")
		n := 0
		for _, c := range w.unspent() {
			if c.OutPoint.Hash == th {
				n++
				verifrt.Assert(int64(c.Amount) == change && c.OutPoint.Index == 1, "c20-change-credit")
			}
			verifrt.Assert(!(c.OutPoint.Hash == parent.TxHash() && c.OutPoint.Index == pidx), "c20-spent-input-not-spendable")
		}
		verifrt.Assert(n == 1, "c20-change-listed-once")
		verifrt.Reach("recorded")
	case 2, 3:
		verifrt.Assert(err == nil, "c20-known-or-confirmed-is-not-an-error")
		verifrt.Reach("already-known")
	case 4, 5:
		verifrt.Assert(err != nil && h == nil, "c20-failure-reported")
		verifrt.Assert(!w.known(th), "c20-failed-broadcast-forgotten")
		verifrt.Assert(w.balance(minConf) == before, "c20-balance-as-before-the-attempt")
		verifrt.Assert(w.balance(0) == before0, "c20-zero-conf-balance-as-before-the-attempt")
		after := w.unspent()
		verifrt.Assert(len(after) == len(utxoBefore), "c20-spendable-set-size-as-before")
		for _, b := range utxoBefore {
			found := false
			for _, a := range after {
				if a.OutPoint == b.OutPoint && a.Amount == b.Amount {
					found = true
				}
			}
			verifrt.Assert(found, "c20-spent-coins-spendable-again")
		}
		verifrt.Reach("failed")
	}
	if answer != 5 {
		verifrt.Assert(len(w.chain.sent) == sentBefore+1, "c20-offered-to-backend-once")
	}
	verifrt.Reach("c20-end")
}

func ZzC20Publish()        { zzC20Publish(false) }
func ZzC20PublishChained() { zzC20Publish(true) }

// ZzC20Resend: T and its child C are recorded unconfirmed; on
// resynchronisation both are offered again, parents first; if the backend
// rejects T, T and C are forgotten and everything is as before them.
func ZzC20Resend() {
	w := zzNewC20World()
	t, change := w.spend(w.fund, 0, w.fundAmt, w.changeAddr, 9)
	before0 := w.balance(0)
	utxoBefore := w.unspent()
	_, err := w.w.reliablyPublishTransaction(t, "")
	zzW(err)
	c, _ := w.spend(t, 1, change, w.change2, 11)
	_, err = w.w.reliablyPublishTransaction(c, "")
	zzW(err)
	th, ch := t.TxHash(), c.TxHash()
	w.chain.sent = nil
	reject := verifrt.Choice(2, "reject-on-resend") == 1
	if reject {
		w.chain.sendErr = zzErrRejected
	}
	w.w.resendUnminedTxs()
	w.chain.sendErr = nil
	// every still-unconfirmed transaction was offered, parents before children
	pt, pc := -1, -1
	for k, m := range w.chain.sent {
		if m.TxHash() == th {
			pt = k
		}
		if m.TxHash() == ch {
			pc = k
		}
	}
	verifrt.Assert(pt >= 0, "c20-parent-reoffered")
	if !reject {
		verifrt.Assert(pc >= 0 && pt < pc, "c20-reoffered-parents-first")
		verifrt.Assert(w.known(th) && w.known(ch), "c20-resend-keeps-accepted")
		// "after EVERY (re)synchronisation": still unconfirmed at the next
		// one, both are offered again
		w.chain.sent = nil
		w.w.resendUnminedTxs()
		pt, pc = -1, -1
		for k, m := range w.chain.sent {
			if m.TxHash() == th {
				pt = k
			}
			if m.TxHash() == ch {
				pc = k
			}
		}
		verifrt.Assert(pt >= 0 && pc >= 0 && pt < pc, "c20-reoffered-again-at-the-next-resynchronisation")
		verifrt.Reach("resent")
	} else {
		verifrt.Assert(!w.known(th) && !w.known(ch), "c20-rejected-on-resend-forgotten-with-descendants")
		verifrt.Assert(w.balance(0) == before0, "c20-balance-as-before-after-rejected-resend")
		verifrt.Assert(len(w.unspent()) == len(utxoBefore), "c20-spendable-as-before-after-rejected-resend")
		verifrt.Reach("resend-rejected")
	}
	verifrt.Reach("c20-end")
}

// ZzC20ResendMany: three unconfirmed wallet transactions (T1 and its child C
// on one coin, independent T2 on another); on resynchronisation the backend
// accepts or rejects each one independently. Every transaction that is still
// unconfirmed when its turn comes is offered; rejected ones are forgotten with
// their descendants, the others stay.
func ZzC20ResendMany() {
	w := zzNewC20World()
	// a second confirmed coin
	recv2 := w.newAddress(waddrmgr.KeyScopeBIP0084, false)
	fund2 := zzPayTo(recv2, 300000, 2)
	rec, err := wtxmgr.NewTxRecordFromMsgTx(fund2, time.Unix(1600000001, 0))
	zzW(err)
	m := w.chain.meta(w.chain.blocks[1])
	zzW(walletdb.Update(w.db, func(tx walletdb.ReadWriteTx) error { return w.w.addRelevantTx(tx, rec, &m) }))
	t1, ch1 := w.spend(w.fund, 0, w.fundAmt, w.changeAddr, 9)
	_, err = w.w.reliablyPublishTransaction(t1, "")
	zzW(err)
	c, _ := w.spend(t1, 1, ch1, w.change2, 11)
	_, err = w.w.reliablyPublishTransaction(c, "")
	zzW(err)
	t2, _ := w.spend(fund2, 0, 300000, w.changeAddr, 13)
	_, err = w.w.reliablyPublishTransaction(t2, "")
	zzW(err)
	h1, hc, h2 := t1.TxHash(), c.TxHash(), t2.TxHash()
	rej := map[chainhash.Hash]bool{
		h1: verifrt.Choice(2, "reject-t1") == 1,
		hc: verifrt.Choice(2, "reject-c") == 1,
		h2: verifrt.Choice(2, "reject-t2") == 1,
	}
	w.chain.sent = nil
	w.chain.sendFn = func(tx *wire.MsgTx) error {
		if rej[tx.TxHash()] {
			return zzRejection()
		}
		return nil
	}
	w.w.resendUnminedTxs()
	w.chain.sendFn = nil
	offered := map[chainhash.Hash]int{}
	pos := map[chainhash.Hash]int{}
	for k, mtx := range w.chain.sent {
		offered[mtx.TxHash()]++
		pos[mtx.TxHash()] = k
	}
	verifrt.Assert(offered[h1] == 1 && offered[h2] == 1, "c20-every-unconfirmed-transaction-reoffered")
	if !rej[h1] {
		verifrt.Assert(offered[hc] == 1 && pos[h1] < pos[hc], "c20-reoffered-parents-first")
	}
	verifrt.Assert(w.known(h1) == !rej[h1], "c20-resend-t1-kept-iff-accepted")
	verifrt.Assert(w.known(h2) == !rej[h2], "c20-resend-t2-kept-iff-accepted")
	verifrt.Assert(w.known(hc) == (!rej[h1] && !rej[hc]), "c20-resend-child-kept-iff-it-and-its-parent-accepted")
	if rej[h1] || rej[hc] || rej[h2] {
		verifrt.Reach("some-rejected")
	}
	verifrt.Reach("c20-end")
}

// ZzC20ResendIncoming: unconfirmed wallet transactions that do NOT spend
// wallet coins are wallet transactions too: R is an incoming payment seen
// unconfirmed (no wallet debits), X is a wallet send whose payment output goes
// to a stranger, S spends that stranger's output back to the wallet (its only
// link to X is an output that is not a wallet credit), C spends R's output. On
// resynchronisation every one of them is offered, parents before children; a
// rejected one is forgotten together with everything spending its outputs -
// also through outputs that are not wallet credits.
func ZzC20ResendIncoming() {
	w := zzNewC20World()
	recv2 := w.newAddress(waddrmgr.KeyScopeBIP0084, false)
	r := zzPayTo(recv2, 400000, 3)
	rec, err := wtxmgr.NewTxRecordFromMsgTx(r, time.Unix(1600000002, 0))
	zzW(err)
	zzW(walletdb.Update(w.db, func(tx walletdb.ReadWriteTx) error { return w.w.addRelevantTx(tx, rec, nil) }))
	c, _ := w.spend(r, 0, 400000, w.change2, 15)
	_, err = w.w.reliablyPublishTransaction(c, "")
	zzW(err)
	x, _ := w.spend(w.fund, 0, w.fundAmt, w.changeAddr, 17)
	_, err = w.w.reliablyPublishTransaction(x, "")
	zzW(err)
	// S: spends X's payment output (index 0, a stranger's) and pays the wallet
	recv3 := w.newAddress(waddrmgr.KeyScopeBIP0084, false)
	s := wire.NewMsgTx(2)
	s.AddTxIn(wire.NewTxIn(&wire.OutPoint{Hash: x.TxHash(), Index: 0}, nil, nil))
	ps, err := txscript.PayToAddrScript(recv3)
	zzW(err)
	s.AddTxOut(wire.NewTxOut(900, ps))
	s.LockTime = 777
	_, err = w.w.reliablyPublishTransaction(s, "")
	zzW(err)
	hr, hc, hx, hs := r.TxHash(), c.TxHash(), x.TxHash(), s.TxHash()
	verifrt.Assert(w.known(hr) && w.known(hc) && w.known(hx) && w.known(hs), "c20-setup-all-recorded")
	rejR := verifrt.Choice(2, "reject-incoming") == 1
	rejX := verifrt.Choice(2, "reject-x") == 1
	w.chain.sent = nil
	w.chain.sendFn = func(tx *wire.MsgTx) error {
		h := tx.TxHash()
		if (rejR && h == hr) || (rejX && h == hx) {
			return zzRejection()
		}
		return nil
	}
	w.w.resendUnminedTxs()
	w.chain.sendFn = nil
	offered := map[chainhash.Hash]int{}
	pos := map[chainhash.Hash]int{}
	for k, mtx := range w.chain.sent {
		offered[mtx.TxHash()]++
		pos[mtx.TxHash()] = k
	}
	verifrt.Assert(offered[hr] == 1, "c20-unconfirmed-transaction-without-wallet-inputs-reoffered")
	verifrt.Assert(offered[hx] == 1, "c20-every-unconfirmed-transaction-reoffered")
	if !rejR {
		verifrt.Assert(offered[hc] == 1 && pos[hr] < pos[hc], "c20-reoffered-parents-first")
	}
	if !rejX {
		verifrt.Assert(offered[hs] == 1 && pos[hx] < pos[hs], "c20-reoffered-parents-first-through-a-non-credit-output")
	}
	verifrt.Assert(w.known(hr) == !rejR && w.known(hc) == !rejR, "c20-incoming-and-its-child-kept-iff-accepted")
	verifrt.Assert(w.known(hx) == !rejX, "c20-resend-x-kept-iff-accepted")
	verifrt.Assert(w.known(hs) == !rejX, "c20-descendant-through-a-non-credit-output-forgotten-with-its-parent")
	if rejR || rejX {
		verifrt.Reach("some-rejected")
	} else {
		verifrt.Reach("resent")
	}
	verifrt.Reach("c20-end")
}

// ZzC20ResyncPipeline: an accepted, still unconfirmed send; then the wallet
// resynchronises k times through its real rescan goroutines (request, the
// backend's RescanFinished for the same tip each time): after EVERY finished
// rescan the transaction is offered to the backend again.
func ZzC20ResyncPipeline()   { zzC20ResyncPipeline(0, 2) }
func ZzC20ResyncPipelineP1() { zzC20ResyncPipeline(1, 3) }

func zzC20ResyncPipeline(bound, rounds int) {
	w := zzNewC20World()
	t, _ := w.spend(w.fund, 0, w.fundAmt, w.changeAddr, 7)
	_, err := w.w.reliablyPublishTransaction(t, "")
	zzW(err)
	th := t.TxHash()
	sent0 := len(w.chain.sent)
	verifrt.PreemptionBound(bound)
	w.startRescanPipeline()
	m := w.chain.meta(w.chain.tip())
	for k := 1; k <= rounds; k++ {
		zzW(w.w.Rescan([]btcutil.Address{w.recvAddr}, nil))
		verifrt.Assert(w.chain.rescans == k, "c20-rescan-requested")
		w.chain.ntfns <- &chain.RescanFinished{Hash: &m.Hash, Height: m.Height, Time: m.Time}
		verifrt.Quiesce()
		n := 0
		for _, s := range w.chain.sent[sent0:] {
			if s.TxHash() == th {
				n++
			}
		}
		verifrt.Assert(n == k, "c20-reoffered-after-every-finished-rescan")
	}
	verifrt.Assert(w.known(th), "c20-still-recorded")
	close(w.w.quit)
	verifrt.Quiesce()
	verifrt.Reach("c20-end")
}
