//go:build verif

package wallet

import (
	"errors"

	"github.com/btcsuite/btcd/btcutil"
	"github.com/btcsuite/btcd/btcutil/hdkeychain"
	"github.com/btcsuite/btcd/chaincfg/chainhash"
	"github.com/btcsuite/btcd/txscript"
	"github.com/btcsuite/btcd/wire"
	"github.com/btcsuite/btcwallet/waddrmgr"
	"github.com/btcsuite/btcwallet/walletdb"

	"verif/verifrt"
)

// C16, piece 3: the real recovery loop (Wallet.recovery, recoverScopedAddresses,
// RecoveryManager incl. Resurrect, expandScopeHorizons, extendFoundAddresses,
// addRelevantTx, the real address manager and transaction store, and the real
// chain.BlockFilterer behind the chain model's FilterBlocks) on a wallet
// restored from the seed, against chains that respect the statement's
// precondition: each block pays, per branch, only indexes less than W beyond
// the highest index paid in EARLIER blocks of that branch.

type zzPay struct {
	branch, index uint32
	amount        int64
	tx            *wire.MsgTx
	out           uint32
	spent         bool
}

type zzRecWorld struct {
	*zzWalletWorld
	root    *hdkeychain.ExtendedKey
	W       uint32
	highest [2]int64 // per branch, highest index paid in earlier blocks (-1 none)
	pays    []*zzPay
	txs     []*wire.MsgTx
	tag     byte
	nested  bool // payments go to the BIP0049Plus scope instead of BIP0084
	failOnce bool // inject one backend failure
	interrupt   bool // one forced shutdown (wallet locked / stopped) in the middle of a batch
	interrupted bool
	failed  bool // a backend failure was injected into this recovery
}

// addrAt: m/84'/0'/0'/branch/index as a P2WPKH address, derived from the seed
// with the library, independently of the manager under test.
func (w *zzRecWorld) addrAt(branch, index uint32) btcutil.Address {
	k := w.root
	h := uint32(hdkeychain.HardenedKeyStart)
	purpose := uint32(84)
	if w.nested {
		purpose = 49
	}
	for _, step := range []uint32{purpose + h, 0 + h, 0 + h, branch, index} {
		c, err := k.DeriveNonStandard(step) // nolint:staticcheck
		zzW(err)
		k = c
	}
	pub, err := k.ECPubKey()
	zzW(err)
	a, err := btcutil.NewAddressWitnessPubKeyHash(btcutil.Hash160(pub.SerializeCompressed()), w.params)
	zzW(err)
	if w.nested && branch == waddrmgr.ExternalBranch {
		// BIP0049Plus: nested witness outside, native witness for change
		prog, err := txscript.PayToAddrScript(a)
		zzW(err)
		sh, err := btcutil.NewAddressScriptHash(prog, w.params)
		zzW(err)
		return sh
	}
	return a
}

// block appends one block whose content is chosen: a receipt on a branch at
// an index inside the window, optionally a second receipt further on the same
// branch (still inside the window measured from earlier blocks), or a spend of
// an earlier wallet output with change inside the internal window.
func (w *zzRecWorld) block() {
	c := w.chain
	t := c.tip()
	nb := zzBlk{height: t.height + 1}
	c.blocks = append(c.blocks, nb)
	var txs []*wire.MsgTx
	newHighest := w.highest
	pay := func(branch uint32, tx *wire.MsgTx, amount int64) {
		off := uint32(verifrt.Choice(int(w.W), "index-offset"))
		index := uint32(w.highest[branch]+1) + off
		addr := w.addrAt(branch, index)
		script, err := txscript.PayToAddrScript(addr)
		zzW(err)
		tx.AddTxOut(wire.NewTxOut(amount, script))
		w.pays = append(w.pays, &zzPay{branch: branch, index: index, amount: amount, tx: tx, out: uint32(len(tx.TxOut) - 1)})
		if int64(index) > newHighest[branch] {
			newHighest[branch] = int64(index)
		}
	}
	w.tag++
	kind := verifrt.Choice(7, "block-content")
	switch kind {
	case 0, 1: // one receipt (external / internal)
		tx := zzBareTx(w.tag)
		pay(uint32(kind), tx, 100000+int64(w.tag)*1000)
		txs = append(txs, tx)
	case 2: // two receipts on the external branch in one block
		tx := zzBareTx(w.tag)
		pay(waddrmgr.ExternalBranch, tx, 100000+int64(w.tag)*1000)
		w.tag++
		tx2 := zzBareTx(w.tag)
		pay(waddrmgr.ExternalBranch, tx2, 100000+int64(w.tag)*1000)
		txs = append(txs, tx, tx2)
		verifrt.Reach("two-receipts-in-a-block")
	case 3: // spend an earlier output, change to the internal branch
		var src *zzPay
		for _, p := range w.pays {
			if !p.spent {
				src = p
				break
			}
		}
		if src == nil {
			verifrt.Assume(false)
		}
		tx := wire.NewMsgTx(2)
		tx.LockTime = uint32(w.tag) + 1
		op := wire.OutPoint{Hash: src.tx.TxHash(), Index: src.out}
		tx.AddTxIn(wire.NewTxIn(&op, nil, nil))
		tx.AddTxOut(wire.NewTxOut(30000, []byte{0x00, 0x14, w.tag, 2, 3, 4, 5, 6, 7, 8, 9, 10, 11, 12, 13, 14, 15, 16, 17, 18, 19, 20}))
		if verifrt.Choice(2, "with-change") == 1 {
			pay(waddrmgr.InternalBranch, tx, src.amount-30000-1000)
			verifrt.Reach("spend-with-change")
		} else {
			// nothing comes back: only the watched outpoint makes it relevant
			verifrt.Reach("spend-without-change")
		}
		src.spent = true
		txs = append(txs, tx)
	case 5: // ONE transaction paying two wallet addresses (external and internal)
		tx := zzBareTx(w.tag)
		pay(waddrmgr.ExternalBranch, tx, 100000+int64(w.tag)*1000)
		pay(waddrmgr.InternalBranch, tx, 50000+int64(w.tag)*1000)
		txs = append(txs, tx)
		verifrt.Reach("two-wallet-outputs-in-one-transaction")
	case 6: // a receipt on an index at or BELOW the highest one paid so far
		// (address reuse, or a gap index that was skipped earlier)
		if w.highest[0] < 0 {
			verifrt.Assume(false)
		}
		index := uint32(verifrt.Choice(int(w.highest[0])+1, "low-index"))
		tx := zzBareTx(w.tag)
		script, err := txscript.PayToAddrScript(w.addrAt(waddrmgr.ExternalBranch, index))
		zzW(err)
		amount := 70000 + int64(w.tag)*1000
		tx.AddTxOut(wire.NewTxOut(amount, script))
		w.pays = append(w.pays, &zzPay{branch: waddrmgr.ExternalBranch, index: index, amount: amount, tx: tx, out: 0})
		txs = append(txs, tx)
		verifrt.Reach("payment-at-or-below-the-highest-index")
	case 4: // a receipt and, later in the SAME block, a spend of it with change
		tx := zzBareTx(w.tag)
		pay(waddrmgr.ExternalBranch, tx, 100000+int64(w.tag)*1000)
		src := w.pays[len(w.pays)-1]
		w.tag++
		tx2 := wire.NewMsgTx(2)
		tx2.LockTime = uint32(w.tag) + 1
		op := wire.OutPoint{Hash: tx.TxHash(), Index: src.out}
		tx2.AddTxIn(wire.NewTxIn(&op, nil, nil))
		// the whole amount leaves the wallet: the spend is relevant only
		// because it consumes an output found earlier in this very block
		tx2.AddTxOut(wire.NewTxOut(src.amount-1000, []byte{0x00, 0x14, w.tag, 2, 3, 4, 5, 6, 7, 8, 9, 10, 11, 12, 13, 14, 15, 16, 17, 18, 19, 20}))
		src.spent = true
		txs = append(txs, tx, tx2)
		verifrt.Reach("receipt-spent-in-the-same-block")
	}
	w.highest = newHighest
	c.txsAt[nb.height] = txs
	w.txs = append(w.txs, txs...)
}

func zzBareTx(tag byte) *wire.MsgTx {
	tx := wire.NewMsgTx(2)
	op := wire.OutPoint{Index: uint32(tag)}
	op.Hash[0] = 0xe0
	op.Hash[1] = tag
	tx.AddTxIn(wire.NewTxIn(&op, nil, nil))
	tx.LockTime = uint32(tag) + 1
	return tx
}

func (w *zzRecWorld) recover(label string) {
	bb := w.chain.meta(w.chain.blocks[0])
	birthday := &waddrmgr.BlockStamp{Height: bb.Height, Hash: bb.Hash, Timestamp: bb.Time}
	if w.failOnce && !w.failed {
		// the backend fails the first filter request of this recovery once;
		// the recovery reports the error and is retried in the same process
		w.failed = true
		w.chain.filterErr = errors.New("backend: filter request failed")
		err := w.w.recovery(w.chain, birthday)
		verifrt.Assert(err != nil, label+"-backend-failure-reported")
		w.chain.filterErr = nil
		verifrt.Reach("retried-after-backend-failure")
	}
	if first := w.w.Manager.SyncedTo().Height + 1; w.interrupt && !w.interrupted && w.chain.tip().height > first {
		// the wallet is locked or stopped while the recovery has fetched the
		// first block's header but not yet filtered it (blocks are filtered
		// per batch): the recovery ends with an error, nothing it has not
		// scanned may count as synced, and the next run resumes from there
		w.interrupted = true
		w.chain.onBlockHash = func(h int64) {
			if h == int64(first) {
				w.w.endRecovery()
			}
		}
		err := w.w.recovery(w.chain, birthday)
		w.chain.onBlockHash = nil
		verifrt.Assert(err != nil, label+"-forced-shutdown-reported")
		verifrt.Assert(w.w.Manager.SyncedTo().Height == first-1, label+"-nothing-unscanned-counts-as-synced")
		verifrt.Reach("interrupted-and-resumed")
	}
	err := w.w.recovery(w.chain, birthday)
	verifrt.Assert(err == nil, label+"-recovery-succeeds")
}

// check: the statement's conclusions.
func (w *zzRecWorld) check(label string) {
	tip := w.chain.tip()
	st := w.w.Manager.SyncedTo()
	verifrt.Assert(st.Height == tip.height && st.Hash == zzHash(tip.height, tip.fork), label+"-synced-to-tip")
	zzW(walletdb.View(w.db, func(tx walletdb.ReadTx) error {
		ans := tx.ReadBucket(waddrmgrNamespaceKey)
		tns := tx.ReadBucket(wtxmgrNamespaceKey)
		scope := waddrmgr.KeyScopeBIP0084
		if w.nested {
			scope = waddrmgr.KeyScopeBIP0049Plus
		}
		sm, err := w.w.Manager.FetchScopedKeyManager(scope)
		zzW(err)
		var want int64
		for _, p := range w.pays {
			a := w.addrAt(p.branch, p.index)
			ma, err := w.w.Manager.Address(ans, a)
			verifrt.Assert(err == nil && ma != nil, label+"-every-used-address-discovered")
			if err == nil {
				verifrt.Assert(ma.Used(ans), label+"-used-address-marked-used")
				verifrt.Assert(ma.Internal() == (p.branch == waddrmgr.InternalBranch), label+"-branch-flag")
			}
			if !p.spent {
				want += p.amount
			}
		}
		for _, t := range w.txs {
			h := t.TxHash()
			d, err := w.w.TxStore.TxDetails(tns, &h)
			zzW(err)
			verifrt.Assert(d != nil, label+"-every-transaction-recorded")
		}
		bal, err := w.w.TxStore.Balance(tns, 1, tip.height)
		zzW(err)
		verifrt.Assert(int64(bal) == want, label+"-balance")
		props, err := sm.AccountProperties(ans, 0)
		zzW(err)
		verifrt.Assert(int64(props.ExternalKeyCount) > w.highest[0], label+"-next-external-index-above-highest-used")
		verifrt.Assert(int64(props.InternalKeyCount) > w.highest[1], label+"-next-internal-index-above-highest-used")
		return nil
	}))
}

// zzC16Recovery: nBlocks chosen blocks; after each of the first nBlocks-1
// the recovery may be run (a first session) before the chain grows further,
// so that the final run resumes (Resurrect) from what was persisted.
func zzC16Recovery(W uint32, nBlocks int) { zzC16RecoveryOpt(W, nBlocks, false, false) }

func zzC16RecoveryOptI(W uint32, nBlocks int) { zzC16RecoveryOpt3(W, nBlocks, false, false, true) }

func zzC16RecoveryOpt(W uint32, nBlocks int, nested, failOnce bool) {
	zzC16RecoveryOpt3(W, nBlocks, nested, failOnce, false)
}

func zzC16RecoveryOpt3(W uint32, nBlocks int, nested, failOnce, interrupt bool) {
	ww := zzNewWalletWorld(200, 1)
	ww.w.recoveryWindow = W
	root, err := hdkeychain.NewMaster(zzWSeed, ww.params)
	zzW(err)
	w := &zzRecWorld{zzWalletWorld: ww, root: root, W: W, highest: [2]int64{-1, -1}, nested: nested, failOnce: failOnce, interrupt: interrupt}
	zzW(walletdb.View(w.db, func(tx walletdb.ReadTx) error {
		return w.w.Manager.Unlock(tx.ReadBucket(waddrmgrNamespaceKey), zzWPriv)
	}))
	for b := 0; b < nBlocks; b++ {
		w.block()
		if b < nBlocks-1 && verifrt.Choice(2, "session-ends-here") == 1 {
			w.recover("c16-first-session")
			w.check("c16-first-session")
			verifrt.Reach("resumed")
		}
	}
	w.recover("c16")
	w.check("c16")
	verifrt.Reach("c16-end")
}

func ZzC16RecoveryW2B2() { zzC16Recovery(2, 2) }

// payments to the BIP0049Plus scope (nested witness outside, native witness
// change: the one default scope whose two branches use different formats)
func ZzC16RecoveryNestedW2B2() { zzC16RecoveryOpt(2, 2, true, false) }

// the backend fails one filter request; the recovery is retried in-process
func ZzC16RecoveryFailW2B2() { zzC16RecoveryOpt(2, 2, false, true) }

// the recovery is interrupted (forced shutdown) in the middle of a batch and resumed
func ZzC16RecoveryInterruptW2B2() {
	zzC16RecoveryOptI(2, 2)
}
func ZzC16RecoveryW2B3() { zzC16Recovery(2, 3) }
func ZzC16RecoveryW3B2() { zzC16Recovery(3, 2) }

var _ = chainhash.Hash{}

// ZzC16BatchBoundary: the recovery scans in batches of recoveryBatchSize
// (2000) blocks. A chain of 2005 blocks after the birthday, empty except for
// one payment placed around the end of the first batch (its last block, the
// one before, or the first block of the second batch) and a later sweep of
// that output which returns nothing to the wallet: found, recorded, spent.
func ZzC16BatchBoundary() {
	ww := zzNewWalletWorld(200, 1)
	ww.chain.concreteTs = true
	ww.w.recoveryWindow = 2
	root, err := hdkeychain.NewMaster(zzWSeed, ww.params)
	zzW(err)
	w := &zzRecWorld{zzWalletWorld: ww, root: root, W: 2, highest: [2]int64{-1, -1}}
	zzW(walletdb.View(w.db, func(tx walletdb.ReadTx) error {
		return w.w.Manager.Unlock(tx.ReadBucket(waddrmgrNamespaceKey), zzWPriv)
	}))
	c := w.chain
	payAt := int32(recoveryBatchSize - 1 + verifrt.Choice(3, "payment-block")) // 1999, 2000 or 2001 blocks after the birthday
	sweepAt := int32(recoveryBatchSize + 3)
	for i := int32(1); i <= recoveryBatchSize+5; i++ {
		c.blocks = append(c.blocks, zzBlk{height: c.base + i})
	}
	tx := zzBareTx(1)
	addr := w.addrAt(waddrmgr.ExternalBranch, 1)
	script, err := txscript.PayToAddrScript(addr)
	zzW(err)
	tx.AddTxOut(wire.NewTxOut(250000, script))
	p := &zzPay{branch: waddrmgr.ExternalBranch, index: 1, amount: 250000, tx: tx, out: 0, spent: true}
	w.pays = append(w.pays, p)
	w.highest[0] = 1
	c.txsAt[c.base+payAt] = []*wire.MsgTx{tx}
	sweep := wire.NewMsgTx(2)
	sweep.LockTime = 99
	sweep.AddTxIn(wire.NewTxIn(&wire.OutPoint{Hash: tx.TxHash(), Index: 0}, nil, nil))
	sweep.AddTxOut(wire.NewTxOut(249000, []byte{0x00, 0x14, 1, 2, 3, 4, 5, 6, 7, 8, 9, 10, 11, 12, 13, 14, 15, 16, 17, 18, 19, 20}))
	c.txsAt[c.base+sweepAt] = []*wire.MsgTx{sweep}
	w.txs = []*wire.MsgTx{tx, sweep}
	if payAt == recoveryBatchSize {
		verifrt.Reach("payment-in-the-last-block-of-a-batch")
	}
	w.recover("c16-batch")
	w.check("c16-batch")
	verifrt.Reach("c16-end")
}
