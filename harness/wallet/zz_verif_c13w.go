//go:build verif

package wallet

import (
	"bytes"
	"time"

	"github.com/btcsuite/btcd/chaincfg/chainhash"
	"github.com/btcsuite/btcd/wire"
	"github.com/btcsuite/btcwallet/waddrmgr"
	"github.com/btcsuite/btcwallet/walletdb"
	"github.com/btcsuite/btcwallet/wtxmgr"

	"verif/verifrt"
)

// C13 at the wallet level (observe_at: Wallet.GetTransactions): incoming
// payments confirmed in several blocks (one or two per block) and possibly
// one unconfirmed; GetTransactions over the whole range, forwards or
// backwards, reports every transaction exactly once, under the block that
// confirms it (or as unmined), each summary carrying ITS OWN hash, bytes and
// credited output.
func ZzC13WalletGetTransactions() {
	ww := zzNewWalletWorld(10001, 4)
	c := ww.chain
	type placed struct {
		hash  chainhash.Hash
		raw   []byte
		block int // index into c.blocks, -1 = unmined
		amt   int64
	}
	var all []placed
	add := func(tag byte, block int) {
		addr := ww.newAddress(waddrmgr.KeyScopeBIP0084, false)
		amt := int64(50000) + int64(tag)
		tx := zzPayTo(addr, amt, tag)
		rec, err := wtxmgr.NewTxRecordFromMsgTx(tx, time.Unix(1600000000+int64(tag), 0))
		zzW(err)
		var m *wtxmgr.BlockMeta
		if block >= 0 {
			mm := c.meta(c.blocks[block])
			m = &mm
		}
		zzW(walletdb.Update(ww.db, func(dbtx walletdb.ReadWriteTx) error { return ww.w.addRelevantTx(dbtx, rec, m) }))
		var buf bytes.Buffer
		zzW(tx.Serialize(&buf))
		all = append(all, placed{rec.Hash, buf.Bytes(), block, amt})
	}
	add(1, 1)
	if verifrt.Choice(2, "second-in-first-block") == 1 {
		add(2, 1)
	}
	add(3, 2)
	if verifrt.Choice(2, "third-block") == 1 {
		add(4, 3)
		add(5, 3)
		verifrt.Reach("three-blocks")
	}
	if verifrt.Choice(2, "unmined") == 1 {
		add(6, -1)
		verifrt.Reach("with-unmined")
	}
	var start, end *BlockIdentifier
	switch verifrt.Choice(3, "range") {
	case 1: // backwards
		start, end = NewBlockIdentifierFromHeight(c.tip().height), NewBlockIdentifierFromHeight(0)
		verifrt.Reach("backwards")
	case 2: // forwards, unmined included
		start, end = NewBlockIdentifierFromHeight(0), NewBlockIdentifierFromHeight(-1)
	}
	res, err := ww.w.GetTransactions(start, end, "", nil)
	zzW(err)
	seen := map[chainhash.Hash]int{}
	checkSummary := func(s TransactionSummary, block int) {
		verifrt.Assert(s.Hash != nil, "c13w-summary-has-hash")
		if s.Hash == nil {
			return
		}
		seen[*s.Hash]++
		found := false
		for _, p := range all {
			if p.hash != *s.Hash {
				continue
			}
			found = true
			verifrt.Assert(p.block == block, "c13w-reported-under-the-block-that-confirms-it")
			verifrt.Assert(bytes.Equal(s.Transaction, p.raw), "c13w-summary-bytes-are-this-transactions")
			var mt wire.MsgTx
			verifrt.Assert(mt.Deserialize(bytes.NewReader(s.Transaction)) == nil && mt.TxHash() == p.hash, "c13w-summary-bytes-hash-to-the-summary-hash")
			verifrt.Assert(s.Tx != nil && s.Tx.TxHash() == p.hash, "c13w-summary-tx-is-this-transaction")
			verifrt.Assert(len(s.MyOutputs) == 1 && s.MyOutputs[0].Index == 0 && len(s.MyInputs) == 0, "c13w-credited-output-listed")
		}
		verifrt.Assert(found, "c13w-only-known-transactions-reported")
	}
	for _, b := range res.MinedTransactions {
		idx := -2
		for i, mb := range c.blocks {
			if mb.height == b.Height {
				idx = i
				verifrt.Assert(b.Hash != nil && *b.Hash == zzHash(mb.height, mb.fork), "c13w-block-hash")
			}
		}
		verifrt.Assert(len(b.Transactions) > 0, "c13w-no-empty-block-reported")
		for _, s := range b.Transactions {
			checkSummary(s, idx)
		}
	}
	for _, s := range res.UnminedTransactions {
		checkSummary(s, -1)
	}
	for _, p := range all {
		if p.block == -1 && start != nil && end != nil && end.height != -1 {
			// a range that ends at a real height does not include unmined ones
			continue
		}
		verifrt.Assert(seen[p.hash] == 1, "c13w-every-transaction-reported-exactly-once")
	}
	verifrt.Reach("c13w-end")
}
