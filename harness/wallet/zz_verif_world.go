//go:build verif

package wallet

import (
	"errors"
	"time"

	"github.com/btcsuite/btcd/btcutil"
	"github.com/btcsuite/btcd/btcutil/hdkeychain"
	"github.com/btcsuite/btcd/chaincfg"
	"github.com/btcsuite/btcd/chaincfg/chainhash"
	"github.com/btcsuite/btcd/txscript"
	"github.com/btcsuite/btcd/wire"
	"github.com/btcsuite/btcwallet/chain"
	"github.com/btcsuite/btcwallet/waddrmgr"
	"github.com/btcsuite/btcwallet/walletdb"
	"github.com/btcsuite/btcwallet/wtxmgr"

	"verif/memdb"
	"verif/verifrt"
)

// Shared wallet-level world (C15, C20, C06, C09): a real Wallet (real address
// manager and transaction store) over memdb with a chain-backend model.

var (
	zzWPub  = []byte("public")
	zzWPriv = []byte("private")
	zzWSeed = []byte{0x2a, 0x64, 0xdf, 0x08, 0x5e, 0xef, 0xed, 0xd8, 0xbf, 0xdb, 0xb3, 0x31, 0x76, 0xb5, 0xba, 0x2e,
		0x62, 0xe8, 0xbe, 0x8b, 0x56, 0xc8, 0x83, 0x77, 0x95, 0x59, 0x8b, 0xb6, 0xc4, 0x40, 0xc0, 0x64}
)

type zzBlk struct {
	height int32
	fork   int
	ts     int64
}

// zzChainModel is the chain backend: a best chain of blocks identified by
// (height, fork id); timestamps are symbolic per block.
type zzChainModel struct {
	chain.Interface
	base    int32
	blocks  []zzBlk // blocks[i] is at height base+i
	ntfns   chan interface{}
	nextFrk int
	tsOf    map[[2]int32]int64
	// broadcast behaviour (C20)
	sendErr    error
	sendFn     func(*wire.MsgTx) error // per-transaction answer (overrides sendErr)
	sent       []*wire.MsgTx
	notifyErr  error
	notified   []btcutil.Address
	// block contents (C16 recovery): height -> transactions
	txsAt  map[int32][]*wire.MsgTx
	rescans   int   // rescan requests received
	onBlockHash func(height int64) // C16: called at every GetBlockHash (nil: nothing)
	filterErr error // C16: FilterBlocks fails with this error while set
	concreteTs bool // C16 batch harness: concrete block timestamps
	params *chaincfg.Params
}

// FilterBlocks: what chain.RPCClient.FilterBlocks does after its compact
// filter pre-check - the real chain.BlockFilterer run over each requested
// block, stopping at the first block with a match.
func (c *zzChainModel) FilterBlocks(req *chain.FilterBlocksRequest) (*chain.FilterBlocksResponse, error) {
	if c.filterErr != nil {
		return nil, c.filterErr
	}
	bf := chain.NewBlockFilterer(c.params, req)
	for i, blk := range req.Blocks {
		msg := &wire.MsgBlock{Transactions: c.txsAt[blk.Height]}
		if !bf.FilterBlock(msg) {
			continue
		}
		return &chain.FilterBlocksResponse{
			BatchIndex:         uint32(i),
			BlockMeta:          blk,
			FoundExternalAddrs: bf.FoundExternal,
			FoundInternalAddrs: bf.FoundInternal,
			FoundOutPoints:     bf.FoundOutPoints,
			RelevantTxns:       bf.RelevantTxns,
		}, nil
	}
	return nil, nil
}

func zzHash(height int32, fork int) chainhash.Hash {
	var h chainhash.Hash
	h[0] = 0xc1
	h[1] = byte(height)
	h[2] = byte(height >> 8)
	h[3] = byte(height >> 16)
	h[4] = byte(fork)
	return h
}

func (c *zzChainModel) ts(height int32, fork int) int64 {
	k := [2]int32{height, int32(fork)}
	if t, ok := c.tsOf[k]; ok {
		return t
	}
	if c.concreteTs {
		// long chains: ten-minute blocks instead of one symbolic instant each
		return 1600000000 + int64(height)*600
	}
	t := int64(verifrt.U32("block-ts"))
	verifrt.Assume(verifrt.And(t >= 1231006505, t <= 4000000000))
	c.tsOf[k] = t
	return t
}

func (c *zzChainModel) tip() zzBlk { return c.blocks[len(c.blocks)-1] }

func (c *zzChainModel) at(height int32) (zzBlk, bool) {
	i := int(height - c.base)
	if i < 0 || i >= len(c.blocks) {
		return zzBlk{}, false
	}
	return c.blocks[i], true
}

func (c *zzChainModel) meta(b zzBlk) wtxmgr.BlockMeta {
	return wtxmgr.BlockMeta{Block: wtxmgr.Block{Hash: zzHash(b.height, b.fork), Height: b.height}, Time: time.Unix(c.ts(b.height, b.fork), 0)}
}

func (c *zzChainModel) GetBestBlock() (*chainhash.Hash, int32, error) {
	t := c.tip()
	h := zzHash(t.height, t.fork)
	return &h, t.height, nil
}

func (c *zzChainModel) GetBlockHash(height int64) (*chainhash.Hash, error) {
	if c.onBlockHash != nil {
		c.onBlockHash(height)
	}
	b, ok := c.at(int32(height))
	if !ok {
		return nil, errors.New("block height out of range")
	}
	h := zzHash(b.height, b.fork)
	return &h, nil
}

func (c *zzChainModel) GetBlockHeader(h *chainhash.Hash) (*wire.BlockHeader, error) {
	height := int32(h[1]) | int32(h[2])<<8 | int32(h[3])<<16
	return &wire.BlockHeader{Timestamp: time.Unix(c.ts(height, int(h[4])), 0)}, nil
}

func (c *zzChainModel) BlockStamp() (*waddrmgr.BlockStamp, error) {
	t := c.tip()
	return &waddrmgr.BlockStamp{Height: t.height, Hash: zzHash(t.height, t.fork), Timestamp: time.Unix(c.ts(t.height, t.fork), 0)}, nil
}

// Rescan: the request is accepted; the harness plays the backend's answer
// (RescanFinished and whatever follows) through the notification channel.
func (c *zzChainModel) Rescan(_ *chainhash.Hash, _ []btcutil.Address, _ map[wire.OutPoint]btcutil.Address) error {
	c.rescans++
	return nil
}

// startRescanPipeline starts the wallet's real notification and rescan
// goroutines (as Wallet.Start / SynchronizeRPC do).
func (ww *zzWalletWorld) startRescanPipeline() {
	ww.w.wg.Add(4)
	go ww.w.handleChainNotifications()
	go ww.w.rescanBatchHandler()
	go ww.w.rescanProgressHandler()
	go ww.w.rescanRPCHandler()
}

func (c *zzChainModel) IsCurrent() bool                      { return true }
func (c *zzChainModel) NotifyBlocks() error                  { return nil }
func (c *zzChainModel) Notifications() <-chan interface{}    { return c.ntfns }
func (c *zzChainModel) BackEnd() string                      { return "btcd" }
func (c *zzChainModel) Start() error                         { return nil }
func (c *zzChainModel) Stop()                                {}
func (c *zzChainModel) WaitForShutdown()                     {}
func (c *zzChainModel) MapRPCErr(err error) error            { return err }
func (c *zzChainModel) NotifyReceived(a []btcutil.Address) error {
	if c.notifyErr != nil {
		return c.notifyErr
	}
	c.notified = append(c.notified, a...)
	return nil
}
func (c *zzChainModel) SendRawTransaction(tx *wire.MsgTx, _ bool) (*chainhash.Hash, error) {
	c.sent = append(c.sent, tx)
	if c.sendFn != nil {
		if err := c.sendFn(tx); err != nil {
			return nil, err
		}
	} else if c.sendErr != nil {
		return nil, c.sendErr
	}
	h := tx.TxHash()
	return &h, nil
}

type zzWalletWorld struct {
	dryAcct uint32         // C09: account number a dry-run import used
	withImported bool      // C09: fund an imported key too
	coins9 []wire.OutPoint // C09: funding outpoints
	db     *memdb.DB
	w      *Wallet
	chain  *zzChainModel
	params *chaincfg.Params
}

func zzW(err error) {
	if err != nil {
		panic(err)
	}
}

// zzNewWalletWorld creates the wallet database with fast scrypt parameters
// (wallet.Create hard-wires the slow defaults), opens it with the real Open,
// and attaches the chain model whose best chain has n blocks from base.
func zzNewWalletWorld(base int32, n int) *zzWalletWorld {
	return zzNewWalletWorldWith(&chaincfg.SimNetParams, base, n)
}

func zzNewWalletWorldWith(params *chaincfg.Params, base int32, n int) *zzWalletWorld {
	ww := &zzWalletWorld{db: memdb.New(), params: params}
	root, err := hdkeychain.NewMaster(zzWSeed, ww.params)
	zzW(err)
	zzW(walletdb.Update(ww.db, func(tx walletdb.ReadWriteTx) error {
		a, err := tx.CreateTopLevelBucket(waddrmgrNamespaceKey)
		if err != nil {
			return err
		}
		t, err := tx.CreateTopLevelBucket(wtxmgrNamespaceKey)
		if err != nil {
			return err
		}
		if err := waddrmgr.Create(a, root, zzWPub, zzWPriv, ww.params, &waddrmgr.FastScryptOptions, time.Unix(1600000000, 0)); err != nil {
			return err
		}
		return wtxmgr.Create(t)
	}))
	w, err := Open(ww.db, zzWPub, nil, ww.params, 0)
	zzW(err)
	ww.w = w
	c := &zzChainModel{base: base, ntfns: make(chan interface{}), tsOf: map[[2]int32]int64{}, nextFrk: 1,
		txsAt: map[int32][]*wire.MsgTx{}, params: params}
	for i := 0; i < n; i++ {
		c.blocks = append(c.blocks, zzBlk{height: base + int32(i)})
	}
	ww.chain = c
	w.chainClient = c
	w.chainClientSynced = true
	// the wallet is synced to the model's chain: record the last blocks
	zzW(walletdb.Update(ww.db, func(tx walletdb.ReadWriteTx) error {
		ns := tx.ReadWriteBucket(waddrmgrNamespaceKey)
		// the wallet remembers the hashes of the last MaxReorgDepth blocks:
		// here the model's blocks and a few of their predecessors
		for h := base - 3; h < base; h++ {
			if h < 0 {
				continue
			}
			m := c.meta(zzBlk{height: h})
			if err := w.Manager.SetSyncedTo(ns, &waddrmgr.BlockStamp{Height: m.Height, Hash: m.Hash, Timestamp: m.Time}); err != nil {
				return err
			}
		}
		for _, b := range c.blocks {
			m := c.meta(b)
			if err := w.Manager.SetSyncedTo(ns, &waddrmgr.BlockStamp{Height: m.Height, Hash: m.Hash, Timestamp: m.Time}); err != nil {
				return err
			}
		}
		// a wallet that has completed its initial sync knows its birthday
		// block (from then on PutSyncedTo insists on a known predecessor)
		m0 := c.meta(c.blocks[0])
		return w.Manager.SetBirthdayBlock(ns, waddrmgr.BlockStamp{Height: m0.Height, Hash: m0.Hash, Timestamp: m0.Time}, true)
	}))
	return ww
}

// newAddress issues a receiving address directly from the manager.
func (ww *zzWalletWorld) newAddress(scope waddrmgr.KeyScope, internal bool) btcutil.Address {
	var addr btcutil.Address
	zzW(walletdb.Update(ww.db, func(tx walletdb.ReadWriteTx) error {
		ns := tx.ReadWriteBucket(waddrmgrNamespaceKey)
		sm, err := ww.w.Manager.FetchScopedKeyManager(scope)
		if err != nil {
			return err
		}
		var mas []waddrmgr.ManagedAddress
		if internal {
			mas, err = sm.NextInternalAddresses(ns, 0, 1)
		} else {
			mas, err = sm.NextExternalAddresses(ns, 0, 1)
		}
		if err != nil {
			return err
		}
		addr = mas[0].Address()
		return nil
	}))
	return addr
}

// payTo builds a transaction paying amount to addr from an external input.
func zzPayTo(addr btcutil.Address, amount int64, tag byte) *wire.MsgTx {
	tx := wire.NewMsgTx(2)
	op := wire.OutPoint{Index: uint32(tag)}
	op.Hash[0] = 0xe0
	op.Hash[1] = tag
	tx.AddTxIn(wire.NewTxIn(&op, nil, nil))
	script, err := txscript.PayToAddrScript(addr)
	zzW(err)
	tx.AddTxOut(wire.NewTxOut(amount, script))
	tx.LockTime = uint32(tag) + 1
	return tx
}
