//go:build verif

package txauthor

import (
	"github.com/btcsuite/btcd/btcutil"
	"github.com/btcsuite/btcd/mempool"
	"github.com/btcsuite/btcd/wire"
	"github.com/btcsuite/btcwallet/wallet/txrules"
	"github.com/btcsuite/btcwallet/wallet/txsizes"

	"verif/verifrt"
)

// C07: NewUnsignedTransaction for symbolic fee rate, coin amounts and output
// amounts; the real signed size is measured by the real wire size code on
// the authored transaction after attaching length-only signature scripts and
// witnesses whose lengths are symbolic within what the signers emit.

const (
	zzP2PKH = iota
	zzP2WPKH
	zzNested
	zzP2TR
	zzP2WSH
)

func zzScript(kind int, tag byte) []byte {
	fill := func(n int) []byte {
		b := make([]byte, n)
		for i := range b {
			b[i] = tag
		}
		return b
	}
	switch kind {
	case zzP2PKH:
		return append(append([]byte{0x76, 0xa9, 0x14}, fill(20)...), 0x88, 0xac)
	case zzP2WPKH:
		return append([]byte{0x00, 0x14}, fill(20)...)
	case zzNested:
		return append(append([]byte{0xa9, 0x14}, fill(20)...), 0x87)
	case zzP2TR:
		return append([]byte{0x51, 0x20}, fill(32)...)
	default:
		return append([]byte{0x00, 0x20}, fill(32)...)
	}
}

type zzCoin struct {
	kind   int
	amount int64
	script []byte
}

// zzSource hands coins out in order until the target is reached, like
// wallet.makeInputSource.
func zzSource(coins []zzCoin) InputSource {
	var total btcutil.Amount
	var ins []*wire.TxIn
	var vals []btcutil.Amount
	var scripts [][]byte
	next := 0
	return func(target btcutil.Amount) (btcutil.Amount, []*wire.TxIn, []btcutil.Amount, [][]byte, error) {
		for total < target && next < len(coins) {
			c := coins[next]
			op := wire.OutPoint{Index: uint32(next)}
			op.Hash[0] = 0xc0
			next++
			ins = append(ins, wire.NewTxIn(&op, nil, nil))
			total += btcutil.Amount(c.amount)
			vals = append(vals, btcutil.Amount(c.amount))
			scripts = append(scripts, c.script)
		}
		return total, ins, vals, scripts, nil
	}
}

// attachSignatures gives every input a signature script / witness of
// symbolic length within the signers' range (length-only contents):
// DER signature + sighash byte 9..72 (low-S), compressed key 33, Schnorr 64
// (default sighash) or 65, nested redeem push 23.
func zzAttachSignatures(tx *wire.MsgTx, kinds []int) {
	for i, in := range tx.TxIn {
		sig := verifrt.Int("siglen")
		verifrt.Assume(verifrt.And(sig >= 9, sig <= 72))
		switch kinds[i] {
		case zzP2PKH:
			in.SignatureScript = verifrt.OpaqueBytes(1 + sig + 1 + 33)
		case zzP2WPKH:
			in.Witness = wire.TxWitness{verifrt.OpaqueBytes(sig), make([]byte, 33)}
		case zzNested:
			in.SignatureScript = make([]byte, 23)
			in.Witness = wire.TxWitness{verifrt.OpaqueBytes(sig), make([]byte, 33)}
		case zzP2TR:
			s := verifrt.Int("schnorrlen")
			verifrt.Assume(verifrt.And(s >= 64, s <= 65))
			in.Witness = wire.TxWitness{verifrt.OpaqueBytes(s)}
		}
	}
}

func zzC07(nOut int, nCoins int, outKinds int) {
	rate := verifrt.I64("rate")
	verifrt.Assume(verifrt.And(rate >= 1000, rate <= 100_000_000_000))

	// requested outputs: script type rotates from a chosen base
	base := 0
	if nOut > 0 && outKinds > 1 {
		base = verifrt.Choice(outKinds, "output-kind")
	}
	// the caller's slice has spare capacity (as slices built with append do):
	// whatever the author adds must not land in the caller's backing array
	outputs := make([]*wire.TxOut, nOut, nOut+2)
	var wantOut int64
	for k := range outputs {
		kind := base
		if k < 5 {
			kind = (base + k) % 5
		}
		// the first three amounts are symbolic; bulk outputs beyond them
		// only matter through their count and sizes
		v := int64(5000 + k)
		if k < 3 {
			v = verifrt.I64("out")
			// callers validate outputs with txrules.CheckOutput first
			verifrt.Assume(verifrt.And(v >= 1000, v <= 1_000_000_000_000))
		}
		script := zzScript(kind, byte(k))
		outputs[k] = wire.NewTxOut(v, script)
		wantOut += v
	}
	requested := make([]*wire.TxOut, nOut)
	copy(requested, outputs)
	reqVals := make([]int64, nOut)
	for k, o := range outputs {
		reqVals[k] = o.Value
	}

	coins := make([]zzCoin, nCoins)
	for k := range coins {
		kind := verifrt.Choice(4, "coin-kind")
		a := verifrt.I64("coin")
		verifrt.Assume(verifrt.And(a >= 1, a <= 100_000_000_000_000))
		coins[k] = zzCoin{kind: kind, amount: a, script: zzScript(kind, byte(0x40+k))}
	}
	changeKind := []int{zzP2WPKH, zzP2TR, zzP2PKH, zzNested}[verifrt.Choice(4, "change-kind")]
	changeScript := zzScript(changeKind, 0xcc)
	cs := &ChangeSource{NewScript: func() ([]byte, error) { return changeScript, nil }, ScriptSize: len(changeScript)}

	atx, err := NewUnsignedTransaction(outputs, btcutil.Amount(rate), zzSource(coins), cs)
	verifrt.Assert(len(outputs) == nOut && outputs[:nOut+2][nOut] == nil && outputs[:nOut+2][nOut+1] == nil,
		"c07-callers-output-slice-untouched")

	if err != nil {
		_, isISE := err.(InputSourceError)
		verifrt.Assert(isISE, "c07-only-insufficient-funds-error")
		// all offered coins together cannot cover outputs + required fee
		var total int64
		var cnt [4]int
		for _, c := range coins {
			total += c.amount
			cnt[c.kind]++
		}
		est := txsizes.EstimateVirtualSize(cnt[zzP2PKH], cnt[zzP2TR], cnt[zzP2WPKH], cnt[zzNested], requested, cs.ScriptSize)
		need := wantOut + int64(txrules.FeeForSerializeSize(btcutil.Amount(rate), est))
		verifrt.Assert(total < need, "c07-insufficient-only-when-coins-cannot-cover")
		verifrt.Reach("insufficient")
		return
	}
	tx := atx.Tx
	// requested outputs unchanged and in place
	verifrt.Assert(len(tx.TxOut) >= nOut, "c07-outputs-kept")
	for k := 0; k < nOut; k++ {
		verifrt.Assert(tx.TxOut[k] == requested[k] && tx.TxOut[k].Value == reqVals[k], "c07-outputs-unchanged")
	}
	verifrt.Assert(len(tx.TxOut) == nOut || (len(tx.TxOut) == nOut+1 && atx.ChangeIndex == nOut), "c07-only-change-added")
	// inputs are a prefix of the offered coins
	nIn := len(tx.TxIn)
	verifrt.Assert(nIn >= 1 && nIn <= nCoins && len(atx.PrevScripts) == nIn && len(atx.PrevInputValues) == nIn, "c07-input-shape")
	var inSum int64
	kinds := make([]int, nIn)
	var cnt [4]int
	for k := 0; k < nIn; k++ {
		inSum += coins[k].amount
		kinds[k] = coins[k].kind
		cnt[coins[k].kind]++
		verifrt.Assert(int64(atx.PrevInputValues[k]) == coins[k].amount, "c07-prev-values")
	}
	verifrt.Assert(int64(atx.TotalInput) == inSum, "c07-total-input")
	var outSum int64
	for _, o := range tx.TxOut {
		outSum += o.Value
	}
	fee := inSum - outSum
	verifrt.Assert(fee >= 0, "c07-conserves-value")
	// change is never zero or dust
	if atx.ChangeIndex >= 0 {
		ch := tx.TxOut[atx.ChangeIndex]
		verifrt.Assert(ch.Value > 0, "c07-no-zero-change")
		// the network's rule (btcd mempool policy), stated independently of
		// the wallet's own txrules helper: at the default relay fee of 1000
		// sat/kvB an output is dust iff its value is below GetDustThreshold
		verifrt.Assert(ch.Value >= mempool.GetDustThreshold(ch), "c07-no-dust-change")
		verifrt.Assert(!txrules.IsDustOutput(ch, txrules.DefaultRelayFeePerKb), "c07-no-dust-change-by-the-wallets-own-rule")
		verifrt.Reach("with-change")
	} else {
		verifrt.Reach("without-change")
	}
	// upper bound: worst-case estimate plus one dust threshold of the change script
	est := txsizes.EstimateVirtualSize(cnt[zzP2PKH], cnt[zzP2TR], cnt[zzP2WPKH], cnt[zzNested], requested, cs.ScriptSize)
	maxFee := int64(txrules.FeeForSerializeSize(btcutil.Amount(rate), est))
	dust := mempool.GetDustThreshold(wire.NewTxOut(0, changeScript))
	verifrt.Assert(fee <= maxFee+dust, "c07-fee-upper-bound")
	// lower bound: the requested rate applied to the real signed virtual size
	zzAttachSignatures(tx, kinds)
	vsize := mempool.GetTxVirtualSize(btcutil.NewTx(tx))
	minFee := int64(txrules.FeeForSerializeSize(btcutil.Amount(rate), int(vsize)))
	verifrt.Assert(fee >= minFee, "c07-fee-at-least-rate-times-real-vsize")
	if nIn > 1 {
		verifrt.Reach("several-inputs")
	}
	verifrt.Reach("c07-end")
}

func ZzC07Out0C2() { zzC07(0, 2, 1) }
func ZzC07Out1C2() { zzC07(1, 2, 5) }
func ZzC07Out2C3() { zzC07(2, 3, 5) }
func ZzC07Out252C2() { zzC07(252, 2, 2) }
func ZzC07Out253C2() { zzC07(253, 2, 2) }
func ZzC07Out251C2() { zzC07(251, 2, 1) }
func ZzC07Out2C4() { zzC07(2, 4, 2) }

func ZzC07Out1C1()   { zzC07(1, 1, 1) }
func ZzC07Out252C1() { zzC07(252, 1, 1) }
func ZzC07Out253C1() { zzC07(253, 1, 1) }

func ZzC07Out251C1() { zzC07(251, 1, 1) }
func ZzC07Out254C2() { zzC07(254, 2, 1) }
func ZzC07Out300C2() { zzC07(300, 2, 1) }
func ZzC07Out2C2()   { zzC07(2, 2, 5) }
func ZzC07Out0C1()   { zzC07(0, 1, 1) }
