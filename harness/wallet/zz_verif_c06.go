//go:build verif

package wallet

import (
	"github.com/btcsuite/btcd/btcutil/psbt"
	"time"

	"github.com/btcsuite/btcd/btcutil"
	"github.com/btcsuite/btcd/chaincfg"
	"github.com/btcsuite/btcd/wire"
	"github.com/btcsuite/btcwallet/waddrmgr"
	"github.com/btcsuite/btcwallet/wallet/txauthor"
	"github.com/btcsuite/btcwallet/walletdb"
	"github.com/btcsuite/btcwallet/wtxmgr"

	"verif/verifrt"
)

// C06: which outputs a created transaction may spend. A wallet with eight
// differently situated credits; the eligible set for SYMBOLIC minconf, chain
// height and coinbase maturity must be exactly the statement's set; created
// transactions (dry run, unsigned) spend only eligible coins, each once, and
// never the inputs of a transaction already published.
// Signature validity is outside (no ECDSA/Schnorr/script VM in SMT).

type zzCoinInfo struct {
	name     string
	op       wire.OutPoint
	amount   int64
	height   int32 // -1 unconfirmed
	coinbase bool
	scope    waddrmgr.KeyScope
	account  uint32
	spent    bool // by a known (unconfirmed) transaction
	locked   bool
	leased   bool
}

type zzC06World struct {
	*zzWalletWorld
	coins []*zzCoinInfo
	acct1 uint32
}

func (w *zzC06World) addrFor(scope waddrmgr.KeyScope, account uint32) btcutil.Address {
	var addr btcutil.Address
	zzW(walletdb.Update(w.db, func(tx walletdb.ReadWriteTx) error {
		ns := tx.ReadWriteBucket(waddrmgrNamespaceKey)
		sm, err := w.w.Manager.FetchScopedKeyManager(scope)
		if err != nil {
			return err
		}
		mas, err := sm.NextExternalAddresses(ns, account, 1)
		if err != nil {
			return err
		}
		addr = mas[0].Address()
		return nil
	}))
	return addr
}

func (w *zzC06World) credit(name string, scope waddrmgr.KeyScope, account uint32, amount int64, blockIdx int, coinbase bool, tag byte) *zzCoinInfo {
	addr := w.addrFor(scope, account)
	tx := zzPayTo(addr, amount, tag)
	if coinbase {
		tx.TxIn[0].PreviousOutPoint = wire.OutPoint{Index: 0xffffffff}
		tx.TxIn[0].SignatureScript = []byte{0x01, tag}
	}
	rec, err := wtxmgr.NewTxRecordFromMsgTx(tx, time.Unix(1600000000, 0))
	zzW(err)
	ci := &zzCoinInfo{name: name, op: wire.OutPoint{Hash: rec.Hash, Index: 0}, amount: amount, height: -1, coinbase: coinbase, scope: scope, account: account}
	var bm *wtxmgr.BlockMeta
	if blockIdx >= 0 {
		m := w.chain.meta(w.chain.blocks[blockIdx])
		bm = &m
		ci.height = m.Height
	}
	zzW(walletdb.Update(w.db, func(dbtx walletdb.ReadWriteTx) error { return w.w.addRelevantTx(dbtx, rec, bm) }))
	w.coins = append(w.coins, ci)
	return ci
}

func zzNewC06World() *zzC06World {
	p := chaincfg.SimNetParams
	p.CoinbaseMaturity = verifrt.U16("maturity")
	w := &zzC06World{zzWalletWorld: zzNewWalletWorldWith(&p, 10001, 4)}
	zzW(walletdb.View(w.db, func(tx walletdb.ReadTx) error {
		return w.w.Manager.Unlock(tx.ReadBucket(waddrmgrNamespaceKey), zzWPriv)
	}))
	// a second account
	zzW(walletdb.Update(w.db, func(tx walletdb.ReadWriteTx) error {
		ns := tx.ReadWriteBucket(waddrmgrNamespaceKey)
		sm, err := w.w.Manager.FetchScopedKeyManager(waddrmgr.KeyScopeBIP0084)
		if err != nil {
			return err
		}
		w.acct1, err = sm.NewAccount(ns, "second")
		return err
	}))
	s84, s49 := waddrmgr.KeyScopeBIP0084, waddrmgr.KeyScopeBIP0049Plus
	w.credit("confirmed-early", s84, 0, 500000, 0, false, 1)
	w.credit("confirmed-late", s84, 0, 400000, 3, false, 2)
	w.credit("other-scope", s49, 0, 300000, 1, false, 3)
	w.credit("unconfirmed", s84, 0, 200000, -1, false, 4)
	w.credit("coinbase", s84, 0, 5000000, 2, true, 5)
	spentCoin := w.credit("spent-by-unconfirmed", s84, 0, 150000, 1, false, 6)
	lockedCoin := w.credit("locked", s84, 0, 120000, 1, false, 7)
	leasedCoin := w.credit("leased", s84, 0, 110000, 1, false, 8)
	w.credit("other-account", s84, w.acct1, 100000, 1, false, 9)
	leasedUnconf := w.credit("unconfirmed-and-leased", s84, 0, 90000, -1, false, 10)
	// an unconfirmed spend of one coin (no wallet outputs)
	sp := wire.NewMsgTx(2)
	sp.AddTxIn(wire.NewTxIn(&spentCoin.op, nil, nil))
	sp.AddTxOut(wire.NewTxOut(140000, []byte{0x00, 0x14, 9, 9, 9, 9, 9, 9, 9, 9, 9, 9, 9, 9, 9, 9, 9, 9, 9, 9, 9, 9}))
	rec, err := wtxmgr.NewTxRecordFromMsgTx(sp, time.Unix(1600000000, 0))
	zzW(err)
	zzW(walletdb.Update(w.db, func(dbtx walletdb.ReadWriteTx) error { return w.w.addRelevantTx(dbtx, rec, nil) }))
	spentCoin.spent = true
	w.w.LockOutpoint(lockedCoin.op)
	lockedCoin.locked = true
	// a lease that cannot expire within the clock's range
	_, err = w.w.LeaseOutput(wtxmgr.LockID{1}, leasedCoin.op, 100*365*24*time.Hour)
	zzW(err)
	leasedCoin.leased = true
	_, err = w.w.LeaseOutput(wtxmgr.LockID{2}, leasedUnconf.op, 100*365*24*time.Hour)
	zzW(err)
	leasedUnconf.leased = true
	// history of the leased coin: an unconfirmed spend of it was seen and then
	// abandoned again (rejected broadcast); the lease is still running
	ab := wire.NewMsgTx(2)
	ab.AddTxIn(wire.NewTxIn(&leasedCoin.op, nil, nil))
	ab.AddTxOut(wire.NewTxOut(100000, []byte{0x00, 0x14, 8, 9, 9, 9, 9, 9, 9, 9, 9, 9, 9, 9, 9, 9, 9, 9, 9, 9, 9, 9}))
	abRec, err := wtxmgr.NewTxRecordFromMsgTx(ab, time.Unix(1600000000, 0))
	zzW(err)
	zzW(walletdb.Update(w.db, func(dbtx walletdb.ReadWriteTx) error { return w.w.addRelevantTx(dbtx, abRec, nil) }))
	zzW(walletdb.Update(w.db, func(dbtx walletdb.ReadWriteTx) error {
		return w.w.TxStore.RemoveUnminedTx(dbtx.ReadWriteBucket(wtxmgrNamespaceKey), abRec)
	}))
	return w
}

// eligible: the statement, per coin, without branching on symbolic data.
func (w *zzC06World) eligible(c *zzCoinInfo, scope *waddrmgr.KeyScope, account uint32, minconf, height int32) bool {
	if c.spent || c.locked || c.leased || c.account != account || (scope != nil && c.scope != *scope) {
		return false
	}
	maturity := int32(w.params.CoinbaseMaturity)
	var confs int32
	if c.height != -1 {
		confs = verifrt.IteI32(c.height > height, 0, height-c.height+1)
	}
	ok := confs >= minconf
	if c.coinbase {
		ok = verifrt.And(ok, confs >= maturity)
	}
	return ok
}

// ZzC06Eligible: findEligibleOutputs for every (scope, account) query and
// symbolic minconf / height / maturity.
// coin looks a coin of the world up by its name.
func (w *zzC06World) coin(name string) *zzCoinInfo {
	for _, c := range w.coins {
		if c.name == name {
			return c
		}
	}
	panic("no coin " + name)
}

// lockHiddenThenList: the user locks a coin that is temporarily hidden (leased,
// or spent by an unconfirmed transaction), the locked outpoints are LISTED
// (which must change nothing), and the temporary state ends (lease released /
// unconfirmed spender abandoned): the coin is still locked, hence ineligible.
func (w *zzC06World) lockHiddenThenList() {
	switch verifrt.Choice(3, "lock-on-hidden-coin") {
	case 1:
		c := w.coin("leased")
		w.w.LockOutpoint(c.op)
		c.locked = true
		ops := w.w.LockedOutpoints()
		verifrt.Assert(len(ops) == 2, "c06-listing-shows-every-locked-outpoint")
		zzW(w.w.ReleaseOutput(wtxmgr.LockID{1}, c.op))
		c.leased = false
		verifrt.Assert(w.w.LockedOutpoint(c.op), "c06-listing-locks-and-releasing-a-lease-keep-the-user-lock")
		verifrt.Reach("locked-coin-lease-released")
	case 2:
		c := w.coin("spent-by-unconfirmed")
		w.w.LockOutpoint(c.op)
		c.locked = true
		ops := w.w.LockedOutpoints()
		verifrt.Assert(len(ops) == 2, "c06-listing-shows-every-locked-outpoint")
		// its unconfirmed spender is abandoned
		zzW(walletdb.Update(w.db, func(dbtx walletdb.ReadWriteTx) error {
			ns := dbtx.ReadWriteBucket(wtxmgrNamespaceKey)
			txs, err := w.w.TxStore.UnminedTxs(ns)
			if err != nil {
				return err
			}
			for _, tx := range txs {
				if len(tx.TxIn) == 1 && tx.TxIn[0].PreviousOutPoint == c.op {
					rec, err := wtxmgr.NewTxRecordFromMsgTx(tx, time.Unix(1600000000, 0))
					if err != nil {
						return err
					}
					return w.w.TxStore.RemoveUnminedTx(ns, rec)
				}
			}
			panic("spender not found")
		}))
		c.spent = false
		verifrt.Assert(w.w.LockedOutpoint(c.op), "c06-listing-locks-and-abandoning-a-spender-keep-the-user-lock")
		verifrt.Reach("locked-coin-spender-abandoned")
	}
}

func ZzC06Eligible() {
	w := zzNewC06World()
	w.lockHiddenThenList()
	minconf := verifrt.I32("minconf")
	height := verifrt.I32("height")
	verifrt.Assume(verifrt.And(minconf >= 0, minconf <= 1<<20))
	verifrt.Assume(verifrt.And(height >= w.chain.tip().height, height <= 1<<24))
	var scope *waddrmgr.KeyScope
	switch verifrt.Choice(3, "scope") {
	case 1:
		s := waddrmgr.KeyScopeBIP0084
		scope = &s
	case 2:
		s := waddrmgr.KeyScopeBIP0049Plus
		scope = &s
	}
	account := uint32(0)
	if verifrt.Choice(2, "account") == 1 {
		account = w.acct1
	}
	var got []wtxmgr.Credit
	zzW(walletdb.View(w.db, func(tx walletdb.ReadTx) error {
		var err error
		got, err = w.w.findEligibleOutputs(tx, scope, account, minconf, &waddrmgr.BlockStamp{Height: height}, nil)
		return err
	}))
	for _, c := range w.coins {
		n := 0
		for _, g := range got {
			if g.OutPoint == c.op {
				n++
				verifrt.Assert(int64(g.Amount) == c.amount, "c06-eligible-amount")
			}
		}
		verifrt.Observe("coin", c.name)
		verifrt.Assert(n <= 1, "c06-coin-listed-once")
		verifrt.Assert((n == 1) == w.eligible(c, scope, account, minconf, height), "c06-eligible-set-is-the-statement")
	}
	verifrt.Observe("coin", "")
	verifrt.Assert(len(got) <= len(w.coins), "c06-only-wallet-coins")
	if len(got) > 1 {
		verifrt.Reach("several-eligible")
	}
	verifrt.Reach("c06-end")
}

// ZzC06Create: created transactions (dry run) spend only eligible coins, each
// once; explicitly selected ineligible inputs are refused; after a created
// transaction was published a later one shares no input with it.
func ZzC06CreateSmall() { zzC06CreateMode(0) }
func ZzC06Create()      { zzC06CreateMode(1) }
func ZzC06CreateFull()  { zzC06CreateMode(2) }

func zzC06CreateMode(mode int) {
	full := mode == 2
	w := zzNewC06World()
	// watching-only from here on: transactions are authored and committed
	// but not signed (signing needs ECDSA/Schnorr, outside this technique)
	zzW(walletdb.Update(w.db, func(tx walletdb.ReadWriteTx) error {
		return w.w.Manager.ConvertToWatchingOnly(tx.ReadWriteBucket(waddrmgrNamespaceKey))
	}))
	nMin := 2
	if full {
		nMin = 3
	}
	minconf := int32(verifrt.Choice(nMin, "minconf"))
	s84 := waddrmgr.KeyScopeBIP0084
	height := w.chain.tip().height
	strategies := []CoinSelectionStrategy{CoinSelectionLargest, CoinSelectionRandom}
	if mode == 0 {
		strategies = strategies[:1]
	}
	strategy := strategies[verifrt.Choice(len(strategies), "strategy")]
	amount := verifrt.I64("send")
	verifrt.Assume(verifrt.And(amount >= 10000, amount <= 1150000))
	out := wire.NewTxOut(amount, []byte{0x00, 0x14, 7, 7, 7, 7, 7, 7, 7, 7, 7, 7, 7, 7, 7, 7, 7, 7, 7, 7, 7, 7})

	var selected []wire.OutPoint
	picks := []int{0, 1, 6, 7, 8}
	if mode == 0 {
		picks = []int{0, 7}
	}
	if full {
		picks = []int{0, 1, 2, 3, 4, 5, 6, 7, 8, 9}
	}
	picks = append(picks, -1)
	pick := picks[verifrt.Choice(len(picks), "explicit-input")]
	if pick > 0 {
		selected = []wire.OutPoint{w.coins[pick-1].op}
	}
	if pick == -1 {
		// the same (eligible) coin named twice
		selected = []wire.OutPoint{w.coins[0].op, w.coins[0].op}
		verifrt.Reach("explicit-duplicate")
	}
	atx, err := w.w.txToOutputs([]*wire.TxOut{out}, &s84, nil, 0, minconf, 2000, strategy, false, selected, nil)
	if pick > 0 {
		c := w.coins[pick-1]
		verifrt.Observe("coin", c.name)
		if !w.eligible(c, &s84, 0, minconf, height) {
			verifrt.Assert(err != nil && atx == nil, "c06-explicit-ineligible-input-refused")
			verifrt.Reach("ineligible-refused")
			return
		}
	}
	if err != nil {
		verifrt.Reach("insufficient")
		return
	}
	check := func(atx *txauthor.AuthoredTx, label string, minconf int32) {
		seen := map[wire.OutPoint]bool{}
		for _, in := range atx.Tx.TxIn {
			verifrt.Assert(!seen[in.PreviousOutPoint], label+"-no-input-used-twice")
			seen[in.PreviousOutPoint] = true
			var ci *zzCoinInfo
			for _, c := range w.coins {
				if c.op == in.PreviousOutPoint {
					ci = c
				}
			}
			verifrt.Assert(ci != nil, label+"-inputs-are-wallet-coins")
			if ci != nil {
				verifrt.Observe("coin", ci.name)
				verifrt.Assert(w.eligible(ci, &s84, 0, minconf, height), label+"-inputs-eligible")
			}
		}
	}
	check(atx, "c06-first", minconf)
	if len(atx.Tx.TxIn) > 1 {
		verifrt.Reach("several-inputs")
	}
	// publish it, then create another one: no input is reused
	_, err = w.w.reliablyPublishTransaction(atx.Tx, "")
	zzW(err)
	for _, in := range atx.Tx.TxIn {
		for _, c := range w.coins {
			if c.op == in.PreviousOutPoint {
				c.spent = true
			}
		}
	}
	out2 := wire.NewTxOut(10000, out.PkScript)
	var ins2 []*wire.TxIn
	if verifrt.Choice(2, "second-send-via") == 0 {
		atx2, err := w.w.txToOutputs([]*wire.TxOut{out2}, &s84, nil, 0, 0, 2000, strategy, false, nil, nil)
		if err == nil {
			ins2 = atx2.Tx.TxIn
			check(atx2, "c06-second", 0)
		}
	} else {
		// PSBT funding without inputs: coin selection by the wallet through
		// CreateSimpleTx and the serialising txCreator goroutine
		w.w.wg.Add(1)
		go w.w.txCreator()
		tx2 := wire.NewMsgTx(2)
		tx2.AddTxOut(out2)
		packet := &psbt.Packet{UnsignedTx: tx2, Outputs: make([]psbt.POutput, 1)}
		_, err := w.w.FundPsbt(packet, &s84, 0, 0, 2000, strategy)
		close(w.w.quit)
		if err == nil {
			ins2 = packet.UnsignedTx.TxIn
			check(&txauthor.AuthoredTx{Tx: packet.UnsignedTx}, "c06-psbt", 0)
			verifrt.Reach("second-send-funded-psbt")
		}
	}
	if ins2 != nil {
		for _, in2 := range ins2 {
			for _, in1 := range atx.Tx.TxIn {
				verifrt.Assert(in2.PreviousOutPoint != in1.PreviousOutPoint, "c06-published-inputs-not-reused")
			}
		}
		verifrt.Reach("second-send")
	}
	verifrt.Reach("c06-end")
}
