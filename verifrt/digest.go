package verifrt

import (
	"crypto/sha1"
	"crypto/sha256"
	"crypto/sha512"

	"golang.org/x/crypto/ripemd160"
)

// Digest replaces the assembly-backed hash states under the symbolic
// executor: it buffers the input and hashes it in one HashBytes call, which
// the executor intercepts (real hash for concrete input, collision-free token
// for input with symbolic bytes). Natively it is never used.
type Digest struct {
	Kind int
	Buf  []byte
}

const (
	KindSHA256 = 256
	KindSHA512 = 512
	KindRIPEMD = 160
	KindSHA1   = 1
)

func NewDigest(kind int) *Digest { return &Digest{Kind: kind} }

func (d *Digest) Write(p []byte) (int, error) {
	d.Buf = append(d.Buf, p...)
	return len(p), nil
}

func (d *Digest) Sum(b []byte) []byte { return append(b, HashBytes(d.Kind, d.Buf)...) }
func (d *Digest) Reset()              { d.Buf = nil }
func (d *Digest) Size() int {
	switch d.Kind {
	case KindSHA512:
		return 64
	case KindRIPEMD, KindSHA1:
		return 20
	}
	return 32
}
func (d *Digest) BlockSize() int {
	if d.Kind == KindSHA512 {
		return 128
	}
	return 64
}

// HashBytes computes the digest of b (intercepted under symgo).
func HashBytes(kind int, b []byte) []byte {
	switch kind {
	case KindSHA512:
		s := sha512.Sum512(b)
		return s[:]
	case KindRIPEMD:
		h := ripemd160.New()
		h.Write(b)
		return h.Sum(nil)
	case KindSHA1:
		s := sha1.Sum(b)
		return s[:]
	}
	s := sha256.Sum256(b)
	return s[:]
}
