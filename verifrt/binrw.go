package verifrt

import (
	"encoding/binary"
	"errors"
	"io"
)

// BinRead and BinWrite are reflection-free equivalents of encoding/binary.Read
// and Write for the data types btcwallet passes to them. The executor redirects
// calls of the library functions here (the library falls back to package
// reflect for anything but a handful of types, which the executor does not
// interpret). Any other type panics, which ends the path as unsupported.
func BinRead(r io.Reader, order binary.ByteOrder, data any) error {
	n := 0
	switch d := data.(type) {
	case *bool, *int8, *uint8:
		n = 1
	case *int16, *uint16:
		n = 2
	case *int32, *uint32:
		n = 4
	case *int64, *uint64:
		n = 8
	case []byte:
		_, err := io.ReadFull(r, d)
		return err
	case *[]byte:
		_, err := io.ReadFull(r, *d)
		return err
	case *[2]byte:
		_, err := io.ReadFull(r, d[:])
		return err
	case *[4]byte:
		_, err := io.ReadFull(r, d[:])
		return err
	case *[32]byte:
		_, err := io.ReadFull(r, d[:])
		return err
	default:
		panic(errors.New("verifrt.BinRead: unsupported data type"))
	}
	var b [8]byte
	bs := b[:n]
	if _, err := io.ReadFull(r, bs); err != nil {
		return err
	}
	switch d := data.(type) {
	case *bool:
		*d = bs[0] != 0
	case *int8:
		*d = int8(bs[0])
	case *uint8:
		*d = bs[0]
	case *int16:
		*d = int16(order.Uint16(bs))
	case *uint16:
		*d = order.Uint16(bs)
	case *int32:
		*d = int32(order.Uint32(bs))
	case *uint32:
		*d = order.Uint32(bs)
	case *int64:
		*d = int64(order.Uint64(bs))
	case *uint64:
		*d = order.Uint64(bs)
	}
	return nil
}

func BinWrite(w io.Writer, order binary.ByteOrder, data any) error {
	var b [8]byte
	var bs []byte
	switch d := data.(type) {
	case bool:
		if d {
			b[0] = 1
		}
		bs = b[:1]
	case *bool:
		if *d {
			b[0] = 1
		}
		bs = b[:1]
	case int8:
		b[0] = byte(d)
		bs = b[:1]
	case uint8:
		b[0] = d
		bs = b[:1]
	case int16:
		order.PutUint16(b[:2], uint16(d))
		bs = b[:2]
	case uint16:
		order.PutUint16(b[:2], d)
		bs = b[:2]
	case int32:
		order.PutUint32(b[:4], uint32(d))
		bs = b[:4]
	case uint32:
		order.PutUint32(b[:4], d)
		bs = b[:4]
	case *uint32:
		order.PutUint32(b[:4], *d)
		bs = b[:4]
	case int64:
		order.PutUint64(b[:8], uint64(d))
		bs = b[:8]
	case uint64:
		order.PutUint64(b[:8], d)
		bs = b[:8]
	case *uint64:
		order.PutUint64(b[:8], *d)
		bs = b[:8]
	case []byte:
		bs = d
	case *[]byte:
		bs = *d
	case [2]byte:
		bs = d[:]
	case [4]byte:
		bs = d[:]
	case [32]byte:
		bs = d[:]
	default:
		panic(errors.New("verifrt.BinWrite: unsupported data type"))
	}
	_, err := w.Write(bs)
	return err
}
