package verifrt
