package verifrt

import (
	"runtime"
	"time"
)

var baseGoroutines int

func baselineGoroutines() { baseGoroutines = runtime.NumGoroutine() }

func quiesceNative() { time.Sleep(30 * time.Millisecond) }

// liveNative: goroutines started since the harness began and still alive.
func liveNative() int {
	n := runtime.NumGoroutine() - baseGoroutines
	if n < 0 {
		n = 0
	}
	return n
}

func yieldNative() { runtime.Gosched() }
