// Package verifrt is the harness vocabulary. Under the symbolic executor
// (symgo) every function of this package is intercepted; compiled natively
// the functions read the recorded solver model, so that a harness is also an
// ordinary Go program that replays one counterexample against the real build.
package verifrt

import (
	"encoding/json"
	"fmt"
	"os"
	"runtime/debug"
	"strings"
)

// Replay is the file format of /verif/replays/*.json.
type Replay struct {
	Property string            `json:"property"`
	Harness  string            `json:"harness"`
	Package  string            `json:"package"`
	Label    string            `json:"label"`
	Model    map[string]uint64 `json:"model"`
	Choices  []int             `json:"choices"`
	Observe  map[string]string `json:"observe,omitempty"`
	Trace    string            `json:"trace,omitempty"`
}

var (
	replay   *Replay
	counters = map[string]int{}
	choiceAt int
	// Failures collects the labels of assertions that failed natively.
	Failures []string
	// Mismatch is set when the replay ran off the recorded model.
	Mismatch []string
	reached  = map[string]bool{}
	notes    []string
)

// stopReplay is panicked to end a native replay early.
type stopReplay struct{ why string }

// Load reads a replay file; native mode only.
func Load(path string) error {
	b, err := os.ReadFile(path)
	if err != nil {
		return err
	}
	r := &Replay{}
	if err := json.Unmarshal(b, r); err != nil {
		return err
	}
	replay = r
	counters = map[string]int{}
	choiceAt = 0
	Failures = nil
	Mismatch = nil
	return nil
}

// Run runs harness f natively under the loaded replay and reports whether an
// assertion failed (and which).
func Run(f func()) (failed []string, mismatch []string, panicked interface{}) {
	baselineGoroutines()
	func() {
		defer func() {
			if r := recover(); r != nil {
				if _, ok := r.(stopReplay); ok {
					return
				}
				panicked = r
				if os.Getenv("VERIF_REPLAY_STACK") != "" {
					fmt.Printf("REPLAY-PANIC-STACK %v\n%s\n", r, debug.Stack())
				}
			}
		}()
		f()
	}()
	return Failures, Mismatch, panicked
}

func next(name string) uint64 {
	k := counters[name]
	counters[name] = k + 1
	key := fmt.Sprintf("%s#%d", name, k)
	if replay == nil {
		return 0
	}
	v, ok := replay.Model[key]
	if !ok {
		// variables the solver never saw are unconstrained: zero
		return 0
	}
	return v
}

// Symbolic reports whether the harness runs under the symbolic executor.
func Symbolic() bool { return false }

func U8(name string) uint8   { return uint8(next(name)) }
func U16(name string) uint16 { return uint16(next(name)) }
func U32(name string) uint32 { return uint32(next(name)) }
func U64(name string) uint64 { return next(name) }
func I32(name string) int32  { return int32(next(name)) }
func I64(name string) int64  { return int64(next(name)) }
func Int(name string) int    { return int(next(name)) }
func Bool(name string) bool  { return next(name)&1 == 1 }

// Bytes returns n fresh symbolic bytes.
func Bytes(name string, n int) []byte {
	b := make([]byte, n)
	for i := range b {
		b[i] = uint8(next(name))
	}
	return b
}

// OpaqueBytes returns a byte slice of which only the length matters.
func OpaqueBytes(n int) []byte { return make([]byte, n) }

// Choice picks one of n structural alternatives.
func Choice(n int, what string) int {
	if n <= 1 {
		return 0
	}
	if replay == nil || choiceAt >= len(replay.Choices) {
		Mismatch = append(Mismatch, "choice list exhausted at "+what)
		panic(stopReplay{"choices exhausted"})
	}
	c := replay.Choices[choiceAt]
	choiceAt++
	if c >= n {
		Mismatch = append(Mismatch, fmt.Sprintf("choice %d out of range %d at %s", c, n, what))
		panic(stopReplay{"bad choice"})
	}
	return c
}

// Assume restricts the inputs.
func Assume(b bool) {
	if !b {
		Mismatch = append(Mismatch, "assumption false under the recorded model")
		panic(stopReplay{"assume"})
	}
}

// Assert states the property.
func Assert(b bool, label string) {
	if !b {
		Failures = append(Failures, label)
	}
}

// Reach marks a program point that some feasible path must reach.
func Reach(label string) { reached[label] = true }

// Unwind bounds the number of times any loop head is entered per call.
func Unwind(n int) {}

// MaxSteps bounds the SSA instructions executed on one path.
func MaxSteps(n int) {}

// PermuteRanges makes every map range explore every iteration order.
func PermuteRanges(on bool) {}

// Observe records a key/value that identifies the situation (used to match
// known findings).
func Observe(key, val string) {}

// Note appends to the human-readable trace of the path.
func Note(s string) { notes = append(notes, s) }

// Notes returns the trace.
func Notes() string { return strings.Join(notes, "; ") }

// TxHashTag etc. are reserved.

// IsConcrete reports whether v's bytes are all concrete (always true natively).
func IsConcrete(b []byte) bool { return true }

// Fault support: FaultArmed is consulted by memdb.
var faultAt = -1
var writes int

// ArmFault makes the k-th mutating database call from now fail (k from 0);
// k<0 disarms.
func ArmFault(k int) { faultAt = k; writes = 0 }

// FaultHere is called by memdb before every mutating call and reports whether
// this one must fail.
func FaultHere() bool {
	if faultAt < 0 {
		return false
	}
	w := writes
	writes++
	return w == faultAt
}

// FaultHit reports whether the armed fault was reached.
func FaultHit() bool { return faultAt >= 0 && writes > faultAt }

// Writes returns the number of mutating calls since ArmFault.
func Writes() int { return writes }

// And, Or, Not, Implies combine conditions without creating branches (under
// symgo they build one formula instead of forking the path).
func And(a, b bool) bool     { return a && b }
func Or(a, b bool) bool      { return a || b }
func Not(a bool) bool        { return !a }
func Implies(a, b bool) bool { return !a || b }

// IteI64 etc. select without branching.
func IteI64(c bool, a, b int64) int64 {
	if c {
		return a
	}
	return b
}
func IteU64(c bool, a, b uint64) uint64 {
	if c {
		return a
	}
	return b
}
func IteI32(c bool, a, b int32) int32 {
	if c {
		return a
	}
	return b
}
func IteU32(c bool, a, b uint32) uint32 {
	if c {
		return a
	}
	return b
}

// Scope runs f as a sub-exploration: every path through f is explored up to
// the end of f, but only the first one continues after it, and the
// constraints collected inside f are dropped at its end. f must not change
// any state that outlives it (use it for observations and assertions with
// fresh symbolic query parameters).
func Scope(f func()) {
	nm := len(Mismatch)
	defer func() {
		if r := recover(); r != nil {
			if sr, ok := r.(stopReplay); ok && sr.why == "assume" {
				// the recorded model does not pin the inputs of a closed
				// sub-exploration: skip the rest of it
				Mismatch = Mismatch[:nm]
				return
			}
			panic(r)
		}
	}()
	f()
}

// BytesEq compares without branching.
func BytesEq(a, b []byte) bool {
	if len(a) != len(b) {
		return false
	}
	eq := true
	for i := range a {
		eq = And(eq, a[i] == b[i])
	}
	return eq
}

// RandReader stands for crypto/rand.Reader under the symbolic executor.
type RandReader struct{}

func (RandReader) Read(p []byte) (int, error) {
	FillRandom(p)
	return len(p), nil
}

// FillRandom fills p from the random source (intercepted under symgo:
// deterministic bytes, or fresh symbolic bytes after SymbolicRand(true)).
func FillRandom(p []byte) {
	for i := range p {
		p[i] = uint8(next("rand"))
	}
}

// SymbolicRand makes the random source return fresh symbolic bytes.
func SymbolicRand(on bool) {}

// Quiesce lets every other goroutine run until none can make progress
// (symgo: explored over all schedules; natively: a short sleep).
func Quiesce() { quiesceNative() }

// LiveGoroutines returns how many goroutines started by the harness have not
// finished (symgo only; natively -1 = unknown).
func LiveGoroutines() int { return liveNative() }

// StubFunc replaces the function or method named name (as printed by
// go/ssa, e.g. "(*pkg/path.T).Method" or "pkg/path.Func") by impl for the
// rest of the path (symgo only). impl receives the same arguments (receiver
// first). Harnesses that use it cannot be replayed natively; their
// counterexamples are confirmed by deterministic re-execution in the
// executor with the model's concrete values.
func StubFunc(name string, impl interface{}) {
	panic("verifrt.StubFunc: not available natively")
}

// Valid reports whether b holds for every value of the symbolic inputs that
// satisfies the path condition (symgo: decided by the solver, without
// forking; natively: b itself).
func Valid(b bool) bool { return b }

// Yield is a scheduling point without effect (symgo: another goroutine may
// run here; natively runtime.Gosched).
func Yield() { yieldNative() }

// PreemptionBound limits schedule exploration to interleavings with at most
// k preemptive context switches (switching away from a goroutine that could
// continue); k < 0 = unbounded. Switches at blocking points are always free.
func PreemptionBound(k int) {}

// YieldOnUnlock makes every release of a mutex a scheduling point of its own
// (symgo; natively nothing). Needed to see code that goes on using shared
// data after releasing the lock that protects it: without it a goroutine is
// only ever switched out at its next channel, lock or wait operation.
func YieldOnUnlock(on bool) {}
