// Package verifrt is the harness vocabulary. Under the symbolic executor
// (symgo) every function of this package is intercepted; compiled natively
// the functions read the recorded solver model, so that a harness is also an
// ordinary Go program that replays one counterexample against the real build.
package verifrt

import (
	"encoding/json"
	"fmt"
	"os"
	"strings"
)

// Replay is the file format of /verif/replays/*.json.
type Replay struct {
	Property string            `json:"property"`
	Harness  string            `json:"harness"`
	Package  string            `json:"package"`
	Label    string            `json:"label"`
	Model    map[string]uint64 `json:"model"`
	Choices  []int             `json:"choices"`
	Observe  map[string]string `json:"observe,omitempty"`
	Trace    string            `json:"trace,omitempty"`
}

var (
	replay   *Replay
	counters = map[string]int{}
	choiceAt int
	// Failures collects the labels of assertions that failed natively.
	Failures []string
	// Mismatch is set when the replay ran off the recorded model.
	Mismatch []string
	reached  = map[string]bool{}
	notes    []string
)

// stopReplay is panicked to end a native replay early.
type stopReplay struct{ why string }

// Load reads a replay file; native mode only.
func Load(path string) error {
	b, err := os.ReadFile(path)
	if err != nil {
		return err
	}
	r := &Replay{}
	if err := json.Unmarshal(b, r); err != nil {
		return err
	}
	replay = r
	counters = map[string]int{}
	choiceAt = 0
	Failures = nil
	Mismatch = nil
	return nil
}

// Run runs harness f natively under the loaded replay and reports whether an
// assertion failed (and which).
func Run(f func()) (failed []string, mismatch []string, panicked interface{}) {
	func() {
		defer func() {
			if r := recover(); r != nil {
				if _, ok := r.(stopReplay); ok {
					return
				}
				panicked = r
			}
		}()
		f()
	}()
	return Failures, Mismatch, panicked
}

func next(name string) uint64 {
	k := counters[name]
	counters[name] = k + 1
	key := fmt.Sprintf("%s#%d", name, k)
	if replay == nil {
		return 0
	}
	v, ok := replay.Model[key]
	if !ok {
		// variables the solver never saw are unconstrained: zero
		return 0
	}
	return v
}

// Symbolic reports whether the harness runs under the symbolic executor.
func Symbolic() bool { return false }

func U8(name string) uint8   { return uint8(next(name)) }
func U16(name string) uint16 { return uint16(next(name)) }
func U32(name string) uint32 { return uint32(next(name)) }
func U64(name string) uint64 { return next(name) }
func I32(name string) int32  { return int32(next(name)) }
func I64(name string) int64  { return int64(next(name)) }
func Int(name string) int    { return int(next(name)) }
func Bool(name string) bool  { return next(name)&1 == 1 }

// Bytes returns n fresh symbolic bytes.
func Bytes(name string, n int) []byte {
	b := make([]byte, n)
	for i := range b {
		b[i] = uint8(next(name))
	}
	return b
}

// OpaqueBytes returns a byte slice of which only the length matters.
func OpaqueBytes(n int) []byte { return make([]byte, n) }

// Choice picks one of n structural alternatives.
func Choice(n int, what string) int {
	if n <= 1 {
		return 0
	}
	if replay == nil || choiceAt >= len(replay.Choices) {
		Mismatch = append(Mismatch, "choice list exhausted at "+what)
		panic(stopReplay{"choices exhausted"})
	}
	c := replay.Choices[choiceAt]
	choiceAt++
	if c >= n {
		Mismatch = append(Mismatch, fmt.Sprintf("choice %d out of range %d at %s", c, n, what))
		panic(stopReplay{"bad choice"})
	}
	return c
}

// Assume restricts the inputs.
func Assume(b bool) {
	if !b {
		Mismatch = append(Mismatch, "assumption false under the recorded model")
		panic(stopReplay{"assume"})
	}
}

// Assert states the property.
func Assert(b bool, label string) {
	if !b {
		Failures = append(Failures, label)
	}
}

// Reach marks a program point that some feasible path must reach.
func Reach(label string) { reached[label] = true }

// Unwind bounds the number of times any loop head is entered per call.
func Unwind(n int) {}

// MaxSteps bounds the SSA instructions executed on one path.
func MaxSteps(n int) {}

// PermuteRanges makes every map range explore every iteration order.
func PermuteRanges(on bool) {}

// Observe records a key/value that identifies the situation (used to match
// known findings).
func Observe(key, val string) {}

// Note appends to the human-readable trace of the path.
func Note(s string) { notes = append(notes, s) }

// Notes returns the trace.
func Notes() string { return strings.Join(notes, "; ") }

// TxHashTag etc. are reserved.

// IsConcrete reports whether v's bytes are all concrete (always true natively).
func IsConcrete(b []byte) bool { return true }

// Fault support: FaultArmed is consulted by memdb.
var faultAt = -1
var writes int

// ArmFault makes the k-th mutating database call from now fail (k from 0);
// k<0 disarms.
func ArmFault(k int) { faultAt = k; writes = 0 }

// FaultHere is called by memdb before every mutating call and reports whether
// this one must fail.
func FaultHere() bool {
	if faultAt < 0 {
		return false
	}
	w := writes
	writes++
	return w == faultAt
}

// FaultHit reports whether the armed fault was reached.
func FaultHit() bool { return faultAt >= 0 && writes > faultAt }

// Writes returns the number of mutating calls since ArmFault.
func Writes() int { return writes }
